#!/usr/bin/env python3
"""merge_agent.py <agent verif dir> <PID> : copy harness, mutants and known-finding entries/replays of one property from an agent's private copy"""
import glob, json, os, shutil, sys
src, pid = sys.argv[1], sys.argv[2]
root = os.path.dirname(os.path.dirname(os.path.abspath(__file__)))
low = pid.lower()
for f in glob.glob(os.path.join(src, "sim", "h_%s*.cpp" % low)) + glob.glob(os.path.join(src, "sim", "sim*.h")):
    if os.path.basename(f) in ("simio.h",): continue
    shutil.copy(f, os.path.join(root, "sim", os.path.basename(f)))
for d in glob.glob(os.path.join(root, "mutants", low + "-*")):
    shutil.rmtree(d)
for d in glob.glob(os.path.join(src, "mutants", low + "-*")):
    shutil.copytree(d, os.path.join(root, "mutants", os.path.basename(d)))
mine = json.load(open(os.path.join(root, "known_findings.json")))
theirs = json.load(open(os.path.join(src, "known_findings.json")))
mine["findings"] = [f for f in mine["findings"] if not (f["property"] == pid and f["status"] == "known")]
os.makedirs(os.path.join(root, "known"), exist_ok=True)
n = 0
for f in theirs["findings"]:
    if f["property"] != pid or f.get("status") != "known":
        continue
    rp = f.get("replay")
    if rp:
        base = os.path.basename(rp)
        shutil.copy(os.path.join(src, rp), os.path.join(root, "known", base))
        f["replay"] = "known/" + base
    mine["findings"].append(f); n += 1
json.dump(mine, open(os.path.join(root, "known_findings.json"), "w"), indent=1)
print("merged", pid, "known entries:", n)
