#!/usr/bin/env python3
"""refresh_notes.py : rewrite the generated tail of every MANIFEST level_note (known / fixed counts) from known_findings.json"""
import json, os, re
root = os.path.dirname(os.path.dirname(os.path.abspath(__file__)))
mp = os.path.join(root, "MANIFEST.json")
m = json.load(open(mp)); kf = json.load(open(os.path.join(root, "known_findings.json")))["findings"]
for c in m["checks"]:
    pid = c["property_id"]
    known = [f["signature"] for f in kf if f["property"] == pid and f["status"] == "known"]
    fixed = [f for f in kf if f["property"] == pid and f["status"] == "fixed"]
    note = c.get("level_note", "")
    note = re.split(r" (?:Known findings still listed|No known finding is listed)", note)[0].rstrip()
    if known:
        tail = " Known findings still listed (known_findings.json, each with a probe replay; their triggers are generated rarely while listed): " + ", ".join(known) + "."
    else:
        tail = " No known finding is listed for this property."
    if fixed:
        tail += " %d genuine defect%s found by this check %s repaired with fix: commits (DESIGN.md 5.1); each has a revert-of-fix mutant the check catches." % (len(fixed), "" if len(fixed) == 1 else "s", "was" if len(fixed) == 1 else "were")
    c["level_note"] = note + tail
json.dump(m, open(mp, "w"), indent=1)
print("notes refreshed")
