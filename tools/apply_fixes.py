#!/usr/bin/env python3
"""apply_fixes.py <fixes dir> : apply each NN-name/patch.diff to /repo as its own 'fix:' commit (message.txt), record it in known_findings.json"""
import glob, json, os, subprocess, sys
fixes = sys.argv[1]
root = os.path.dirname(os.path.dirname(os.path.abspath(__file__)))
kfp = os.path.join(root, "known_findings.json")
for d in sorted(glob.glob(os.path.join(fixes, "[0-9][0-9]-*"))):
    patch = os.path.join(d, "patch.diff")
    msg = open(os.path.join(d, "message.txt")).read().strip().splitlines()[0]
    meta = json.load(open(os.path.join(d, "meta.json")))
    assert msg.startswith("fix: "), msg
    r = subprocess.run(["git", "-C", "/repo", "apply", "--index", patch])
    if r.returncode != 0:
        print("PATCH FAILED:", d); sys.exit(1)
    subprocess.run(["git", "-C", "/repo", "commit", "-qm", msg], check=True)
    full = subprocess.run(["git", "-C", "/repo", "rev-parse", "HEAD"], stdout=subprocess.PIPE, text=True).stdout.strip()
    kf = json.load(open(kfp))
    sigs = meta.get("signatures") or ["(see harness)"]
    kf["findings"].append({"property": meta["property"], "status": "fixed", "commit": full, "signature": sigs[0], "other_signatures": sigs[1:],
                           "what_fails": meta.get("what_failed", msg[5:]), "trigger": meta.get("trigger", ""),
                           "line": "fixed: property=%s %s %s" % (meta["property"], full[:12], meta.get("what_failed", msg[5:]))})
    json.dump(kf, open(kfp, "w"), indent=1)
    print("applied", os.path.basename(d), full[:7], msg[:90])
