#!/bin/bash
# usage: verify_seeded.sh <worktree> ; expects <worktree>/_scratch/{patch.diff,demo.cpp}
# Confirms: unmodified -> tests pass, demo exits 0 ; patched -> builds, 20 tests pass, demo exits non-zero. Restores the worktree.
set -u
WT=$1
cd $WT || exit 2
git checkout -q -- src
cmake -G Ninja -S $WT -B $WT/_build >/dev/null && cmake --build $WT/_build >/dev/null 2>&1 || { echo "UNMODIFIED BUILD FAILED"; exit 2; }
T0=$(ctest --test-dir $WT/_build -j8 --timeout 900 2>&1 | grep "tests passed")
g++ -std=c++14 -I$WT/src $WT/_scratch/demo.cpp -L$WT/_build/src -lbpp-core3 -Wl,-rpath,$WT/_build/src -o $WT/_scratch/demo_v 2>/dev/null || { echo "DEMO BUILD FAILED"; exit 2; }
$WT/_scratch/demo_v >/dev/null 2>&1; D0=$?
git apply $WT/_scratch/patch.diff || { echo "PATCH DOES NOT APPLY"; exit 2; }
cmake --build $WT/_build >/dev/null 2>&1 || { echo "PATCHED BUILD FAILED"; git checkout -q -- src; exit 2; }
T1=$(ctest --test-dir $WT/_build -j8 --timeout 900 2>&1 | grep "tests passed")
g++ -std=c++14 -I$WT/src $WT/_scratch/demo.cpp -L$WT/_build/src -lbpp-core3 -Wl,-rpath,$WT/_build/src -o $WT/_scratch/demo_v 2>/dev/null
$WT/_scratch/demo_v >/dev/null 2>&1; D1=$?
git checkout -q -- src
echo "unmodified: [$T0] demo=$D0 ; patched: [$T1] demo=$D1"
if [[ "$T0" == *"100% tests passed"*"out of 20"* && "$T1" == *"100% tests passed"*"out of 20"* && $D0 == 0 && $D1 != 0 ]]; then echo CONFIRMED; exit 0; else echo NOT-CONFIRMED; exit 1; fi
