#!/usr/bin/env python3
"""register_fix.py <commit> <property> <signature> <what fails>  : record a fixed finding + create the revert-of-fix mutant"""
import json, os, subprocess, sys
h, pid, sig, what = sys.argv[1:5]
root = os.path.dirname(os.path.dirname(os.path.abspath(__file__)))
full = subprocess.run(["git", "-C", "/repo", "rev-parse", h], stdout=subprocess.PIPE, text=True, check=True).stdout.strip()
kf = json.load(open(os.path.join(root, "known_findings.json")))
if not any(f.get("commit") == full for f in kf["findings"]):
    kf["findings"].append({"property": pid, "status": "fixed", "commit": full, "signature": sig, "what_fails": what,
                           "line": "fixed: property=%s %s %s" % (pid, full[:12], what)})
    json.dump(kf, open(os.path.join(root, "known_findings.json"), "w"), indent=1)
name = "%s-revert-%s" % (pid.lower(), full[:7])
d = os.path.join(root, "mutants", name)
os.makedirs(d, exist_ok=True)
patch = subprocess.run(["git", "-C", "/repo", "diff", full, full + "^"], stdout=subprocess.PIPE, text=True, check=True).stdout
open(os.path.join(d, "patch.diff"), "w").write(patch)
json.dump({"property": pid, "kind": "revert-of-fix", "needs": what, "expected_signature": sig, "tier": "quick"}, open(os.path.join(d, "meta.json"), "w"), indent=1)
print("registered", name)
