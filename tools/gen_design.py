#!/usr/bin/env python3
"""Assemble DESIGN.md = tools/design_head.md + tools/design_body.md + generated tables + tools/design_tail.md"""
import glob, json, os, subprocess
root = os.path.dirname(os.path.dirname(os.path.abspath(__file__)))
def rd(p): return open(os.path.join(root, p)).read()
kf = json.load(open(os.path.join(root, "known_findings.json")))["findings"]
try: mr = json.load(open(os.path.join(root, "mutant_results.json")))
except Exception: mr = {}
out = [rd("tools/design_head.md"), rd("tools/design_body.md")]
out.append("\n## 5. Findings\n\n" + rd("tools/design_findings_intro.md"))
out.append("\n### 5.1 Genuine defects repaired in /repo (one unguarded `fix:` commit each)\n\n| property | commit | what failed | signature the check reports if it returns |\n|---|---|---|---|\n")
for f in kf:
    if f["status"] == "fixed":
        out.append("| %s | `%s` | %s | `%s` |\n" % (f["property"], f["commit"][:7], f["what_fails"].replace("|", "/"), f["signature"]))
out.append("\n### 5.2 Known findings (genuine defects recorded, not repaired)\n\n| property | signature | what fails | probe replay | why not repaired |\n|---|---|---|---|---|\n")
for f in kf:
    if f["status"] == "known":
        out.append("| %s | `%s` | %s | %s | %s |\n" % (f["property"], f["signature"], f["what_fails"].replace("|", "/"), f.get("replay", "(probe plan in the enumerated prefix / hit in random runs)"), f.get("why_not_fixed", "repair is not a small behaviour-preserving patch").replace("|", "/")))
out.append("\n" + rd("tools/design_false_alarms.md"))
out.append("\n" + rd("tools/design_soundness.md"))
out.append("\n" + rd("tools/design_reach.md"))
out.append("\n## 7. Seeded breakage: which check catches which change\n\n" + rd("tools/design_seeded_intro.md"))
out.append("\n### 7.1 Changes written by independent sub-agents (given only the property text)\n\n| id | property | what it breaks | what it needs to manifest | quick check | signatures |\n|---|---|---|---|---|---|\n")
for mf in sorted(glob.glob(os.path.join(root, "seeded", "*", "meta.json"))):
    m = json.load(open(mf)); name = os.path.basename(os.path.dirname(mf)); r = mr.get(name, {})
    out.append("| %s | %s | %s | %s | %s | `%s` |\n" % (name, m["property"], m["breaks"].replace("|", "/"), m["needs"].replace("|", "/"), r.get("verdict", "not run"), r.get("signatures", "")[:110]))
out.append("\n### 7.2 Hand-written mutants and reverts of fixes\n\n| name | property | kind / what it needs | quick check |\n|---|---|---|---|\n")
for mf in sorted(glob.glob(os.path.join(root, "mutants", "*", "meta.json"))):
    m = json.load(open(mf)); name = os.path.basename(os.path.dirname(mf)); r = mr.get(name, {})
    out.append("| %s | %s | %s | %s |\n" % (name, m["property"], (m.get("kind", "mutant") + ": " + str(m.get("needs", ""))).replace("|", "/")[:160], r.get("verdict", "not run")))
out.append("\n" + rd("tools/design_tail.md"))
open(os.path.join(root, "DESIGN.md"), "w").write("".join(out))
print("DESIGN.md written,", sum(len(x) for x in out), "bytes")
