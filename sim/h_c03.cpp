// C03 — aliased parameters track their source through every update, copy and renaming.
// World (real): AbstractParameterAliasable + AliasParameterListener + Parameter listeners + ParameterList.
// Parties: up to 3 live owning objects (original, copies, assigned-to), each with its own parameters.
// Model: alias forest (target -> source), independent set, per-parameter value and interval.
#include "engine.h"
#include <Bpp/Numeric/AbstractParameterAliasable.h>
#include <Bpp/Numeric/Parameter.h>
#include <limits>
#include <memory>
#include <map>
#include <set>

using namespace dsim;

namespace {

const double INF = std::numeric_limits<double>::infinity();

struct MInt {
  bool has = false; double lo = -INF, hi = INF; bool il = true, ih = true;
  bool accepts(double x) const { return !has || ((il ? x >= lo : x > lo) && (ih ? x <= hi : x < hi)); }
  bool same(const MInt& o) const { return has == o.has && (!has || (lo == o.lo && hi == o.hi && il == o.il && ih == o.ih)); }
  std::string str() const { return has ? std::string(il ? "[" : "]") + fmtd(lo) + ";" + fmtd(hi) + (ih ? "]" : "[") : "none"; }
};
MInt meet(const MInt& a, const MInt& b) {
  MInt r; r.has = true;
  if (a.lo > b.lo) { r.lo = a.lo; r.il = a.il; } else if (b.lo > a.lo) { r.lo = b.lo; r.il = b.il; } else { r.lo = a.lo; r.il = a.il && b.il; }
  if (a.hi < b.hi) { r.hi = a.hi; r.ih = a.ih; } else if (b.hi < a.hi) { r.hi = b.hi; r.ih = b.ih; } else { r.hi = a.hi; r.ih = a.ih && b.ih; }
  return r;
}

class SimAliasable : public bpp::AbstractParameterAliasable {
public:
  long fired = 0;
  SimAliasable(const std::string& ns) : bpp::AbstractParameterAliasable(ns) {}
  SimAliasable* clone() const override { return new SimAliasable(*this); }
  void add(bpp::Parameter* p) { addParameter_(p); }
  void fireParameterChanged(const bpp::ParameterList&) override { ++fired; }
};

struct MObj {
  std::string ns;
  std::vector<std::string> names;                 // short names
  std::map<std::string, double> val;
  std::map<std::string, MInt> cons;
  std::map<std::string, std::string> parent;      // target -> source
  std::set<std::string> indep;
  std::vector<std::string> children(const std::string& s) const { std::vector<std::string> r; for (auto& kv : parent) if (kv.second == s) r.push_back(kv.first); return r; }
  bool isAncestor(const std::string& anc, const std::string& x) const {   // anc is x or an ancestor of x
    std::string cur = x; size_t guard = 0;
    while (guard++ < 64) { if (cur == anc) return true; auto it = parent.find(cur); if (it == parent.end()) return false; cur = it->second; }
    return false;
  }
  void descendants(const std::string& s, std::set<std::string>& out) const { for (auto& c : children(s)) if (out.insert(c).second) descendants(c, out); }
  void update(const std::string& x, double v, int depth = 0) {
    if (val[x] == v || depth > 16) return;
    val[x] = v;
    for (auto& c : children(x)) update(c, v, depth + 1);
  }
  // would an update of x to v be accepted by x and by everything it propagates to?
  bool acceptedEverywhere(const std::string& x, double v) const {
    if (!cons.at(x).accepts(v)) return false;
    std::set<std::string> d; descendants(x, d);
    for (auto& y : d) if (!cons.at(y).accepts(v)) return false;
    return true;
  }
};

struct Party { std::unique_ptr<SimAliasable> obj; MObj m; };

const char* NSES[] = {"", "m.", "ns2.", "m."};

MInt readInterval(const bpp::Parameter& p) {
  MInt r;
  if (!p.hasConstraint()) return r;
  auto ic = std::dynamic_pointer_cast<const bpp::IntervalConstraint>(p.getConstraint());
  if (!ic) return r;
  r.has = true; r.lo = ic->getLowerBound(); r.hi = ic->getUpperBound(); r.il = !ic->strictLowerBound(); r.ih = !ic->strictUpperBound();
  return r;
}

class Exec {
  const Plan& p; Ctx& ctx;
  std::vector<Party> parties;
public:
  Exec(const Plan& pl, Ctx& c) : p(pl), ctx(c) {}

  struct Snapshot { std::vector<double> v; std::vector<std::string> c; std::vector<std::string> from; std::set<std::string> indep; };
  Snapshot snap(const Party& q) {
    Snapshot s;
    for (auto& n : q.m.names) {
      const bpp::Parameter& par = q.obj->parameter(n);
      s.v.push_back(par.getValue());
      s.c.push_back(readInterval(par).str());
      s.from.push_back(q.obj->getFrom(q.m.ns + n));
    }
    const bpp::ParameterList& ip = q.obj->getIndependentParameters();
    for (size_t i = 0; i < ip.size(); ++i) s.indep.insert(ip[i].getName());
    return s;
  }
  bool sameSnap(const Snapshot& a, const Snapshot& b) { return a.v == b.v && a.c == b.c && a.from == b.from && a.indep == b.indep; }

  void verify(size_t k) {
    Party& q = parties[k];
    std::string w = "obj" + std::to_string(k);
    SimAliasable& o = *q.obj;
    ctx.check(o.getNamespace() == q.m.ns, "model-mismatch:namespace", "model-mismatch:namespace", w + " namespace '" + o.getNamespace() + "' model '" + q.m.ns + "'");
    ctx.check(o.getNumberOfParameters() == q.m.names.size(), "model-mismatch:param-count", "model-mismatch:param-count", w);
    uint64_t sh = 0x33 + k;
    for (auto& n : q.m.names) {
      ctx.check(o.hasParameter(n), "model-mismatch:param-missing", "model-mismatch:param-missing", w + " lacks " + n);
      const bpp::Parameter& par = o.parameter(n);
      ctx.check(par.getName() == q.m.ns + n, "model-mismatch:param-name", "model-mismatch:param-name", w + " " + par.getName());
      double v = par.getValue();
      if (!(v == q.m.val[n])) {
        bool aliased = q.m.parent.count(n) > 0;
        ctx.fail("model-mismatch:value", std::string("model-mismatch:value:") + (aliased ? "aliased-target" : "independent"), w + "." + n + " = " + fmtd(v) + ", model " + fmtd(q.m.val[n]) + (aliased ? " (alias of " + q.m.parent[n] + ")" : ""));
      }
      MInt have = readInterval(par);
      ctx.check(have.accepts(v), "invariant:value-in-constraint", "invariant:value-in-constraint", w + "." + n + " = " + fmtd(v) + " outside " + have.str());
      ctx.check(have.same(q.m.cons[n]), "model-mismatch:constraint", "model-mismatch:constraint", w + "." + n + " constraint " + have.str() + " model " + q.m.cons[n].str());
      // direct source
      std::string from = o.getFrom(q.m.ns + n);
      auto it = q.m.parent.find(n);
      std::string want = it == q.m.parent.end() ? "" : it->second;
      ctx.check(from == want, "model-mismatch:getFrom", "model-mismatch:getFrom", w + ".getFrom(" + n + ") = '" + from + "' model '" + want + "'");
      sh = sh * 1099511628211ULL ^ strHash(hexfloat(v)) ^ strHash(want);
    }
    // independent parameters: as a set, and each entry carries the object's own current value
    const bpp::ParameterList& ip = o.getIndependentParameters();
    std::set<std::string> got;
    for (size_t i = 0; i < ip.size(); ++i) {
      std::string full = ip[i].getName();
      ctx.check(full.compare(0, q.m.ns.size(), q.m.ns) == 0, "model-mismatch:independent-name", "model-mismatch:independent-name", w + " independent entry '" + full + "' lacks the namespace");
      std::string sn = full.substr(q.m.ns.size());
      ctx.check(got.insert(sn).second, "model-mismatch:independent-duplicate", "model-mismatch:independent-duplicate", w + " independent list names " + sn + " twice");
      ctx.check(q.m.val.count(sn) > 0, "model-mismatch:independent-unknown", "model-mismatch:independent-unknown", w + " independent entry " + full);
      ctx.check(ip[i].getValue() == o.getParameterValue(sn), "model-mismatch:independent-stale", "model-mismatch:independent-stale", w + " independent entry " + sn + " holds " + fmtd(ip[i].getValue()) + " but the object's parameter holds " + fmtd(o.getParameterValue(sn)));
    }
    if (got != q.m.indep) {
      std::string a, b; for (auto& s : got) a += s + " "; for (auto& s : q.m.indep) b += s + " ";
      ctx.fail("model-mismatch:independent-set", "model-mismatch:independent-set", w + " independent {" + a + "} model {" + b + "}");
    }
    ctx.check(o.getNumberOfIndependentParameters() == q.m.indep.size(), "model-mismatch:independent-count", "model-mismatch:independent-count", w);
    for (auto& n : q.m.names) ctx.check(o.hasIndependentParameter(n) == (q.m.indep.count(n) > 0), "model-mismatch:hasIndependent", "model-mismatch:hasIndependent", w + " " + n);
    // alias map: every aliased parameter is a key; its value is one of its ancestors (interface leaves open which)
    std::map<std::string, std::string> al = o.getAliases();
    for (auto& kv : q.m.parent) {
      auto it = al.find(q.m.ns + kv.first);
      ctx.check(it != al.end(), "model-mismatch:getAliases-missing", "model-mismatch:getAliases-missing", w + " getAliases lacks " + kv.first);
      std::string src = it->second; if (!q.m.ns.empty() && src.compare(0, q.m.ns.size(), q.m.ns) == 0) src = src.substr(q.m.ns.size());
      ctx.check(src != kv.first && q.m.isAncestor(src, kv.first), "model-mismatch:getAliases-source", "model-mismatch:getAliases-source", w + " getAliases[" + kv.first + "] = " + it->second);
    }
    for (auto& kv : al) {
      std::string t = kv.first; if (t.compare(0, q.m.ns.size(), q.m.ns) == 0) t = t.substr(q.m.ns.size());
      ctx.check(q.m.parent.count(t) > 0, "model-mismatch:getAliases-extra", "model-mismatch:getAliases-extra", w + " getAliases names " + kv.first + " which is not aliased");
    }
    // getAlias(name): direct targets <= result <= transitive targets
    for (auto& n : q.m.names) {
      std::vector<std::string> r = o.getAlias(n);
      std::set<std::string> rs; for (auto& x : r) { std::string t = x; if (!q.m.ns.empty() && t.compare(0, q.m.ns.size(), q.m.ns) == 0) t = t.substr(q.m.ns.size()); rs.insert(t); }
      std::set<std::string> all; q.m.descendants(n, all);
      for (auto& c : q.m.children(n)) ctx.check(rs.count(c) > 0, "model-mismatch:getAlias-missing", "model-mismatch:getAlias-missing", w + " getAlias(" + n + ") lacks " + c);
      for (auto& x : rs) ctx.check(all.count(x) > 0, "model-mismatch:getAlias-extra", "model-mismatch:getAlias-extra", w + " getAlias(" + n + ") names " + x);
    }
    ctx.state(sh);
  }
  void verifyAll() { for (size_t k = 0; k < parties.size(); ++k) verify(k); }

  template <class F> int attempt(F call) {   // 0 returns, 1 ConstraintException, 2 ParameterNotFoundException, 3 other bpp::Exception
    try { call(); return 0; }
    catch (bpp::ConstraintException&) { return 1; }
    catch (bpp::ParameterNotFoundException&) { return 2; }
    catch (bpp::Exception&) { return 3; }
    catch (std::exception& e) { ctx.fail("foreign-exception:std", "foreign-exception:std", e.what()); }
    return -1;
  }

  void resync(Party& q) {    // after a documented partial outcome: take the observed state as the new model state
    q.m.parent.clear(); q.m.indep.clear();
    for (auto& n : q.m.names) {
      const bpp::Parameter& par = q.obj->parameter(n);
      q.m.val[n] = par.getValue(); q.m.cons[n] = readInterval(par);
      std::string f = q.obj->getFrom(q.m.ns + n);
      if (!f.empty()) q.m.parent[n] = f;
    }
    const bpp::ParameterList& ip = q.obj->getIndependentParameters();
    for (size_t i = 0; i < ip.size(); ++i) q.m.indep.insert(ip[i].getName().substr(q.m.ns.size()));
  }

  void run() {
    parties.reserve(4);      // references into the vector stay valid across push_back
    // initial object
    Party first; first.m.ns = NSES[p.geti("ns") % 4];
    first.obj.reset(new SimAliasable(first.m.ns));
    long n = 2 + p.geti("nparams") % 5;
    static const double LOS[] = {-INF, -5, -2, 0}, HIS[] = {1, 3, 10, INF};
    for (long i = 0; i < n; ++i) {
      std::string nm(1, static_cast<char>('a' + i));
      long code = (p.geti("cons") >> (5 * i)) & 31;
      MInt m;
      std::shared_ptr<bpp::ConstraintInterface> c;
      if (code & 16) { m.has = true; m.lo = LOS[code & 3]; m.hi = HIS[(code >> 2) & 3]; m.il = std::isfinite(m.lo) && ((code >> 1) & 1) != 0; m.ih = std::isfinite(m.hi) && (code & 1) != 0;
        c.reset(new bpp::IntervalConstraint(m.lo, m.hi, m.il, m.ih)); }
      double v = 0.1 + 0.8 * static_cast<double>((p.geti("vals") >> (4 * i)) & 15) / 15.0;     // inside (0,1): inside every interval above
      first.obj->add(new bpp::Parameter(first.m.ns + nm, v, c));
      first.m.names.push_back(nm); first.m.val[nm] = v; first.m.cons[nm] = m; first.m.indep.insert(nm);
    }
    parties.push_back(std::move(first));
    verifyAll();
    for (size_t i = 0; i < p.ops.size(); ++i) {
      const Op& o = p.ops[i];
      ctx.beginStep(static_cast<long>(i), o);
      step(o);
      verifyAll();
    }
  }

  void step(const Op& o) {
    size_t np = parties.size();
    size_t k = static_cast<size_t>(o.c) % np;
    Party& q = parties[k];
    size_t n = q.m.names.size();
    if (o.k == "alias") {
      std::string p1 = q.m.names[static_cast<size_t>(o.a) % n], p2 = q.m.names[static_cast<size_t>(o.b) % n];
      if (o.d == 1) p1 = "zz"; if (o.d == 2) p2 = "zz";
      bool unknown = o.d == 1 || o.d == 2;
      bool twice = !unknown && q.m.parent.count(p2) > 0;
      bool cycle = !unknown && q.m.isAncestor(p2, p1);      // p1 is p2 or a descendant of p2: the link would close a cycle
      if (!unknown && !twice && !cycle) {
        // stay inside the quantifier: both current values must lie in the intersected constraint
        MInt a = q.m.cons[p1], b = q.m.cons[p2];
        MInt both = a.has && b.has ? meet(a, b) : (a.has ? a : b);
        if (!both.accepts(q.m.val[p1]) || !both.accepts(q.m.val[p2])) { ctx.outcome("skip"); return; }
      }
      Snapshot before = snap(q);
      std::vector<Snapshot> others; for (size_t j = 0; j < np; ++j) others.push_back(snap(parties[j]));
      int got = attempt([&] { q.obj->aliasParameters(p1, p2); });
      if (unknown || twice || cycle) {
        const char* why = unknown ? "unknown-name" : (twice ? "aliased-twice" : (p1 == p2 ? "self-cycle" : (q.m.parent.count(p1) && q.m.parent[p1] == p2 ? "2-cycle" : "longer-cycle")));
        if (got == 0) ctx.fail("model-mismatch:alias-not-refused", std::string("model-mismatch:alias-not-refused:") + why, "aliasParameters(" + p1 + "," + p2 + ") returned although it must be refused (" + why + ")");
        if (!sameSnap(before, snap(q))) ctx.fail("invariant:refusal-changed-state", std::string("invariant:refusal-changed-state:") + why, "refused aliasParameters(" + p1 + "," + p2 + ") changed the object");
        ctx.rejected(); ctx.fault("reject@k");
        if (cycle && p1 != p2 && !(q.m.parent.count(p1) && q.m.parent[p1] == p2)) ctx.probe("long-cycle-refused");
      } else {
        if (got != 0) ctx.fail("model-mismatch:alias-raised", "model-mismatch:alias-raised", "legal aliasParameters(" + p1 + "," + p2 + ") raised");
        MInt a = q.m.cons[p1], b = q.m.cons[p2];
        if (!a.has && b.has) q.m.cons[p1] = b;
        else if (a.has && b.has && !a.same(b)) { MInt m = meet(a, b); q.m.cons[p1] = m; q.m.cons[p2] = m; ctx.probe("constraints-intersected"); }
        q.m.parent[p2] = p1; q.m.indep.erase(p2);
        std::set<std::string> d; q.m.descendants(p1, d); if (d.size() >= 3) ctx.probe("alias-tree-size>=3");
        ctx.ok();
      }
      for (size_t j = 0; j < np; ++j) if (j != k && !sameSnap(others[j], snap(parties[j]))) ctx.fail("invariant:other-object-changed", "invariant:other-object-changed:alias", "aliasing on one object changed another");
    } else if (o.k == "unalias") {
      std::string p1, p2; bool legal = false;
      if (o.d == 0 && !q.m.parent.empty()) { auto it = q.m.parent.begin(); std::advance(it, static_cast<long>(static_cast<size_t>(o.a) % q.m.parent.size())); p2 = it->first; p1 = it->second; legal = true; }
      else { p1 = q.m.names[static_cast<size_t>(o.a) % n]; p2 = q.m.names[static_cast<size_t>(o.b) % n]; legal = q.m.parent.count(p2) && q.m.parent[p2] == p1; }
      Snapshot before = snap(q);
      int got = attempt([&] { q.obj->unaliasParameters(p1, p2); });
      if (legal) {
        if (got != 0) ctx.fail("model-mismatch:unalias-raised", "model-mismatch:unalias-raised", "unaliasParameters(" + p1 + "," + p2 + ") raised");
        q.m.parent.erase(p2); q.m.indep.insert(p2); ctx.ok(); ctx.probe("unaliased");
      } else {
        if (got == 0) ctx.fail("model-mismatch:unalias-not-refused", "model-mismatch:unalias-not-refused", "unaliasParameters(" + p1 + "," + p2 + ") returned for a non-existent link");
        if (!sameSnap(before, snap(q))) ctx.fail("invariant:refusal-changed-state", "invariant:refusal-changed-state:unalias", "refused unalias changed the object");
        ctx.rejected(); ctx.fault("reject@k");
      }
    } else if (o.k == "amap") {
      // bulk aliasing from a name map (alias -> source); keys are processed in key order, whatever the dependency order
      std::map<std::string, std::string> mp;
      long cnt = 1 + o.a % 4; long code = o.b;
      bool forward = false;
      for (long i = 0; i < cnt; ++i) { std::string key = q.m.names[static_cast<size_t>(code) % n]; code /= static_cast<long>(n); std::string src = q.m.names[static_cast<size_t>(code) % n]; code /= static_cast<long>(n); if (o.d == 3 && i == 0) src = "zz"; mp[q.m.ns + key] = q.m.ns + src; }
      for (auto& kv : mp) if (mp.count(kv.second) && kv.second > kv.first) forward = true;
      if (forward) ctx.fault("key-order");
      // expected: legal iff (with empty namespace) keys independent, not creating cycles with the existing forest, sources exist, values compatible
      bool legal = q.m.ns.empty();
      MObj trial = q.m;
      if (legal) {
        for (auto& kv : mp) { if (!trial.val.count(kv.second) || trial.parent.count(kv.first)) { legal = false; break; } }
        if (legal) {
          for (auto& kv : mp) trial.parent[kv.first] = kv.second;
          for (auto& kv : mp) { std::string cur = kv.first; size_t g = 0; bool cyc = false; while (trial.parent.count(cur)) { cur = trial.parent[cur]; if (cur == kv.first || ++g > 16) { cyc = true; break; } } if (cyc) { legal = false; break; } }
        }
        if (legal) {   // value compatibility over whole components (quantifier): every value in (0,1)-like safe zone?
          for (auto& kv : mp) { MInt a = q.m.cons[kv.second], b = q.m.cons[kv.first]; (void)a; (void)b; }
        }
      }
      // known finding C03/bulk-alias-value:pre-existing-chain-rerooted: while it is listed, only ops flagged d==4 may turn the source of an existing alias into a key
      if (isKnownFinding("C03", "model-mismatch:bulk-alias-value:pre-existing-chain-rerooted") && o.d != 4) {
        bool reroots = false; for (auto& kv : mp) { std::string key = kv.first.substr(q.m.ns.size()); if (!q.m.children(key).empty()) reroots = true; }
        if (reroots) { ctx.outcome("skip"); return; }
      }
      std::map<std::string, std::string> arg = mp;
      std::map<std::string, double> beforeVal; for (auto& nme : q.m.names) beforeVal[nme] = q.obj->parameter(nme).getValue();
      std::map<std::string, std::string> oldParent = q.m.parent;
      int got = attempt([&] { q.obj->aliasParameters(arg, false); });
      if (got == 0 && legal) {
        // links performed: the forest must equal old forest + map; aliases take their source's value; constraints as observed (chains intersect in processing order)
        bool constraintsTouched = false;
        for (auto& kv : mp) { if (q.m.cons[kv.first].has || q.m.cons[kv.second].has) constraintsTouched = true; }
        for (auto& kv : mp) { q.m.parent[kv.first] = kv.second; q.m.indep.erase(kv.first); }
        for (auto& nme : q.m.names) q.m.cons[nme] = readInterval(q.obj->parameter(nme));
        // values: each key now carries the value of the root it hangs from at the time of the call
        for (auto& nme : q.m.names) q.m.val[nme] = q.obj->parameter(nme).getValue();
        // the statement's rule, applied to the whole call as one update route: a link whose source changed must leave the target equal to it
        for (auto& kv : q.m.parent) {
          double sv = q.obj->parameter(kv.second).getValue(), tv = q.obj->parameter(kv.first).getValue();
          if (sv != beforeVal[kv.second] && tv != sv) {
            bool staleChain = false;     // does the chain above this link contain an alias that existed before the call?
            { std::string cur = kv.first; size_t g = 0; while (q.m.parent.count(cur) && g++ < 32) { if (oldParent.count(cur)) staleChain = true; cur = q.m.parent[cur]; } }
            ctx.fail("model-mismatch:bulk-alias-value", std::string("model-mismatch:bulk-alias-value") + (staleChain ? ":pre-existing-chain-rerooted" : ""), "bulk aliasing changed " + kv.second + " to " + fmtd(sv) + " but its alias " + kv.first + " holds " + fmtd(tv));
          }
        }
        (void)constraintsTouched;
        ctx.ok(); ctx.probe("bulk-alias-performed"); if (forward) ctx.probe("bulk-alias-forward-dependency");
      } else if (got == 0) {
        ctx.fail("model-mismatch:bulk-alias-not-refused", "model-mismatch:bulk-alias-not-refused", "bulk aliasing returned for a map that cannot be performed");
      } else {
        // raised: allowed when the map is not performable; links made before the offending entry may remain (statement: performing the links OR raising)
        if (legal) {
          // a legal map may only raise for value/constraint incompatibility (outside the quantifier); accept and resync
          ctx.probe("bulk-alias-legal-but-raised");
        }
        resync(q);
        ctx.rejected(); ctx.fault("reject@k");
      }
    } else if (o.k == "set") {
      if (q.m.indep.empty()) { ctx.outcome("skip"); return; }
      auto it = q.m.indep.begin(); std::advance(it, static_cast<long>(static_cast<size_t>(o.a) % q.m.indep.size()));
      std::string nm = *it; double x = o.x;
      bool selfOk = q.m.cons[nm].accepts(x);
      if (selfOk && !q.m.acceptedEverywhere(nm, x)) { ctx.outcome("skip"); return; }     // outside the quantifier (value outside an alias's narrower constraint)
      std::vector<Snapshot> others; for (size_t j = 0; j < np; ++j) others.push_back(snap(parties[j]));
      int got = attempt([&] { q.obj->setParameterValue(nm, x); });
      if (selfOk) { if (got != 0) ctx.fail("model-mismatch:set-raised", "model-mismatch:set-raised", "setParameterValue(" + nm + "," + fmtd(x) + ") raised"); bool ch = q.m.val[nm] != x; q.m.update(nm, x); ctx.ok(); if (ch && !q.m.children(nm).empty()) ctx.probe("source-update-propagated"); }
      else { if (got != 1) ctx.fail("model-mismatch:set-not-rejected", "model-mismatch:set-not-rejected", "setParameterValue(" + nm + "," + fmtd(x) + ") outside " + q.m.cons[nm].str() + " did not raise ConstraintException"); ctx.rejected(); ctx.fault("reject@k"); }
      for (size_t j = 0; j < np; ++j) if (j != k && !sameSnap(others[j], snap(parties[j]))) ctx.fail("invariant:other-object-changed", "invariant:other-object-changed:set", "an update on one object changed a value on another");
    } else if (o.k == "bulk") {
      // bulk update naming independent parameters only; generator places the rejected entry
      std::vector<std::string> ind(q.m.indep.begin(), q.m.indep.end());
      if (ind.empty()) { ctx.outcome("skip"); return; }
      long kind = o.d % 3;
      bpp::ParameterList src; std::vector<std::string> tn; std::vector<double> tv;
      long bad = o.b % static_cast<long>(ind.size() + 2) - 1;
      bool anyReject = false;
      for (size_t i = 0; i < ind.size(); ++i) {
        if (kind != 2 && !((o.a >> i) & 1)) continue;
        double x = o.x + 0.37 * static_cast<double>(i);
        if (static_cast<long>(i) == bad) x = o.y;
        if (q.m.cons[ind[i]].accepts(x) && !q.m.acceptedEverywhere(ind[i], x)) x = q.m.val[ind[i]];
        if (!q.m.cons[ind[i]].accepts(x)) anyReject = true;
        src.addParameter(bpp::Parameter(q.m.ns + ind[i], x)); tn.push_back(ind[i]); tv.push_back(x);
      }
      if (kind == 2) {   // setAllParametersValues needs every parameter of the object: aliased targets carry their source's (new) value
        MObj trial = q.m; bool ok = !anyReject;
        if (ok) for (size_t i = 0; i < tn.size(); ++i) trial.update(tn[i], tv[i]);
        for (auto& nme : q.m.names) if (!q.m.indep.count(nme)) src.addParameter(bpp::Parameter(q.m.ns + nme, ok ? trial.val[nme] : q.m.val[nme]));
      }
      Snapshot before = snap(q);
      int got = attempt([&] { if (kind == 0) q.obj->setParametersValues(src); else if (kind == 1) q.obj->matchParametersValues(src); else q.obj->setAllParametersValues(src); });
      if (anyReject) {
        if (got != 1) ctx.fail("model-mismatch:bulk-not-rejected", "model-mismatch:bulk-not-rejected", "bulk update with a rejected entry did not raise ConstraintException");
        if (!sameSnap(before, snap(q))) ctx.fail("invariant:refusal-changed-state", "invariant:refusal-changed-state:bulk", "rejected bulk update changed the object");
        ctx.rejected(); ctx.fault("reject@k");
      } else {
        if (got != 0) ctx.fail("model-mismatch:bulk-raised", "model-mismatch:bulk-raised", "legal bulk update raised");
        for (size_t i = 0; i < tn.size(); ++i) q.m.update(tn[i], tv[i]);
        ctx.ok();
      }
    } else if (o.k == "copy") {
      if (np < 3) {
        Party c; c.m = q.m; c.obj.reset(o.d % 2 ? q.obj->clone() : new SimAliasable(*q.obj));
        parties.push_back(std::move(c)); ctx.probe("copied"); if (!q.m.parent.empty()) ctx.probe("copied-with-aliases");
      } else {
        size_t dst = (k + 1 + static_cast<size_t>(o.a) % (np - 1)) % np;
        *parties[dst].obj = *q.obj; parties[dst].m = q.m; ctx.probe("assigned");
        if (!q.m.parent.empty()) ctx.probe("assigned-with-aliases");
      }
      ctx.ok();
    } else if (o.k == "assign") {
      if (np < 2) { ctx.outcome("skip"); return; }
      size_t dst = (k + 1 + static_cast<size_t>(o.a) % (np - 1)) % np;
      *parties[dst].obj = *q.obj; parties[dst].m = q.m; ctx.probe("assigned"); if (!q.m.parent.empty()) ctx.probe("assigned-with-aliases");
      ctx.ok();
    } else if (o.k == "destroy") {
      if (np < 2) { ctx.outcome("skip"); return; }
      parties.erase(parties.begin() + static_cast<long>(k));
      ctx.fault("peer-gone"); ctx.ok();
    } else if (o.k == "setns") {
      std::string ns = NSES[static_cast<size_t>(o.a) % 4];
      q.obj->setNamespace(ns); q.m.ns = ns;
      ctx.ok(); if (!q.m.parent.empty()) ctx.probe("renamed-with-aliases");
    } else ctx.fail("harness", "harness:unknown-op", o.k);
  }
};

class C03 : public Harness {
public:
  const char* id() const override { return "C03"; }
  HarnessInfo info() const override {
    HarnessInfo i;
    i.real = {"bpp::AbstractParameterAliasable", "bpp::AliasParameterListener", "bpp::Parameter (listener chains)", "bpp::ParameterList", "bpp::IntervalConstraint::operator&", "bpp::AbstractParametrizable"};
    i.stub = {"SimAliasable (concrete subclass: addParameter_, clone, records fireParameterChanged)"};
    i.rule = "plans: seeded histories of alias / unalias / bulk-alias(map) / set-by-name / bulk set-match-setAll / copy-construct / assign / destroy / setNamespace on up to 3 live objects with 2..6 parameters; non-trivial = >=3 accepted state-changing steps and >=1 refused request, key-order perturbation or destroyed peer; distinct = distinct fingerprint of the executed op-kind/outcome sequence";
    i.simTime = "steps (no clock in this component)";
    i.faultKinds = {"reject@k", "key-order", "peer-gone"};
    i.probeNames = {"constraints-intersected", "alias-tree-size>=3", "long-cycle-refused", "unaliased", "bulk-alias-performed", "bulk-alias-forward-dependency", "source-update-propagated", "copied-with-aliases", "assigned-with-aliases", "renamed-with-aliases"};
    i.assumptions = {"updates name independent parameters only and use values accepted by every constraint the value propagates to (the property's 'values inside the (intersected) constraints')",
                     "alias requests are issued only when both current values lie in the intersection of the two constraints",
                     "a target need not equal its source immediately after aliasing (only after an update that changes the source)",
                     "getAlias(name): direct targets <= result <= transitive targets; getAliases()[t] may be any ancestor of t",
                     "bulk aliasing with a non-empty namespace is expected to raise (2-argument aliasing takes names without namespace) — only termination and a consistent resulting state are asserted there",
                     "after a raising bulk-alias call the links made before the offending entry may remain (statement: performing the links or raising): the model re-synchronises from getFrom()/values"};
    return i;
  }
  long defaultRuns(Tier t) const override { return t == QUICK ? 120000 : 2000000; }
  Plan generate(Rng& rng, Tier) const override {
    Plan p;
    p.cfg["ns"] = rng.chance(0.5) ? 0 : rng.below(4);
    p.cfg["nparams"] = rng.below(5);
    p.cfg["cons"] = static_cast<long>(rng.next() & 0x3fffffff);
    if (rng.chance(0.2)) p.cfg["cons"] = 0;
    p.cfg["vals"] = static_cast<long>(rng.next() & 0xffffff);
    long n = rng.range(5, 30);
    static const char* K[] = {"alias", "unalias", "amap", "set", "bulk", "copy", "assign", "destroy", "setns"};
    std::vector<double> w = {6, 1.5, 1.5, 6, 2.5, 1.2, 0.8, 0.5, 0.8};
    for (auto& x : w) if (rng.chance(0.25)) x *= rng.chance(0.5) ? 0 : 3;
    w[0] = std::max(w[0], 3.0); w[3] = std::max(w[3], 2.0);
    for (long i = 0; i < n; ++i) {
      Op o(K[rng.weighted(w)]);
      o.a = rng.below(64); o.b = rng.below(1296); o.c = rng.below(3); o.d = 0;
      o.x = rng.chance(0.7) ? rng.real(0.05, 0.95) : rng.real(-6, 11);
      o.y = rng.pick(std::vector<double>{-6.5, 11.5, -2, 10, 0, 1, 3, -5});
      if (o.k == "alias") { o.d = rng.chance(0.06) ? rng.range(1, 2) : 0; if (rng.chance(0.1)) o.b = o.a; }
      if (o.k == "unalias") o.d = rng.chance(0.75) ? 0 : 1;
      if (o.k == "amap") { o.a = rng.below(4); o.b = static_cast<long>(rng.next() % 1679616ULL); o.d = rng.chance(0.07) ? 3 : (rng.chance(0.02) ? 4 : 0); }
      if (o.k == "bulk") { o.a = rng.below(64); o.b = rng.below(8); o.d = rng.below(3); }
      if (o.k == "copy") o.d = rng.below(2);
      p.ops.push_back(o);
    }
    return p;
  }
  void execute(const Plan& p, Ctx& ctx) const override {
    Exec e(p, ctx);
    try { e.run(); }
    catch (SimViolation&) { throw; }
    catch (bpp::Exception& ex) { ctx.fail("foreign-exception:bpp-unexpected", "foreign-exception:bpp-unexpected", ex.what()); }
    catch (std::exception& ex) { ctx.fail("foreign-exception:std", "foreign-exception:std", ex.what()); }
  }
};

Registrar reg(new C03());

}  // namespace
