#include "engine.h"
#include <cstring>
#include <algorithm>
#include <cstdlib>
#include <ctime>
#include <memory>
#include <Bpp/App/ApplicationTools.h>
#include <Bpp/Numeric/Random/RandomTools.h>
#include <Bpp/Io/OutputStream.h>
#include <Bpp/Numeric/Parameter.h>

namespace dsim {

SimClock g_clock;
ParamAudit g_audit;

static void auditCallback(const bpp::Parameter* p, const char* where) {
  ++g_audit.calls;
  if (p->hasConstraint() && !p->getConstraint()->isCorrect(p->getValue())) {
    if (g_audit.offences++ == 0) g_audit.first = std::string(where) + " " + p->getName();
  }
}
void installParamAudit() { bpp::verif::parameterAudit = auditCallback; }

std::string hexfloat(double v) {
  char buf[64];
  if (std::isnan(v)) return "nan";
  if (std::isinf(v)) return v > 0 ? "inf" : "-inf";
  snprintf(buf, sizeof buf, "%a", v);
  return buf;
}
double parseHexfloat(const std::string& s) {
  if (s == "nan") return NAN;
  if (s == "inf") return INFINITY;
  if (s == "-inf") return -INFINITY;
  return strtod(s.c_str(), nullptr);
}
std::string fmtd(double v) { char b[48]; snprintf(b, sizeof b, "%.17g", v); return b; }

static std::string hexEnc(const std::string& s) {
  static const char* H = "0123456789abcdef";
  std::string r = "h";
  for (unsigned char c : s) { r += H[c >> 4]; r += H[c & 15]; }
  return r;
}
static std::string hexDec(const std::string& s) {
  std::string r;
  for (size_t i = 1; i + 1 < s.size(); i += 2) {
    auto v = [](char c) { return c <= '9' ? c - '0' : c - 'a' + 10; };
    r += static_cast<char>((v(s[i]) << 4) | v(s[i + 1]));
  }
  return r;
}

std::string opToText(const Op& o) {
  std::ostringstream os;
  os << o.k << ' ' << o.a << ' ' << o.b << ' ' << o.c << ' ' << o.d << ' ' << hexfloat(o.x) << ' ' << hexfloat(o.y) << ' ' << hexEnc(o.s);
  return os.str();
}

std::string planToText(const Plan& p) {
  std::ostringstream os;
  os << "dsim-replay 1\n";
  os << "prop " << p.prop << "\n";
  os << "seed " << p.seed << "\n";
  os << "index " << p.index << "\n";
  for (auto& kv : p.cfg) os << "cfg " << kv.first << ' ' << kv.second << "\n";
  for (auto& kv : p.cfgd) os << "cfgd " << kv.first << ' ' << hexfloat(kv.second) << "  # " << fmtd(kv.second) << "\n";
  for (auto& o : p.ops) {
    os << "op " << opToText(o);
    os << "  # x=" << fmtd(o.x) << " y=" << fmtd(o.y);
    if (!o.s.empty()) {
      std::string pr; for (char c : o.s) pr += (c >= 32 && c < 127 && c != '#') ? c : '.';
      os << " s=" << pr;
    }
    os << "\n";
  }
  return os.str();
}

bool planFromText(const std::string& text, Plan& p, std::map<std::string, std::string>& expect) {
  std::istringstream is(text);
  std::string line;
  bool header = false;
  while (std::getline(is, line)) {
    size_t h = line.find("  #");
    if (h != std::string::npos) line = line.substr(0, h);
    std::istringstream ls(line);
    std::string w; if (!(ls >> w)) continue;
    if (w == "dsim-replay") header = true;
    else if (w == "prop") ls >> p.prop;
    else if (w == "seed") ls >> p.seed;
    else if (w == "index") ls >> p.index;
    else if (w == "cfg") { std::string k; long v; ls >> k >> v; p.cfg[k] = v; }
    else if (w == "cfgd") { std::string k, v; ls >> k >> v; p.cfgd[k] = parseHexfloat(v); }
    else if (w == "op") {
      Op o; std::string x, y, s;
      ls >> o.k >> o.a >> o.b >> o.c >> o.d >> x >> y >> s;
      o.x = parseHexfloat(x); o.y = parseHexfloat(y); o.s = hexDec(s);
      p.ops.push_back(o);
    }
    else if (w == "expect") { std::string k, v; ls >> k; std::getline(ls, v); size_t q = v.find_first_not_of(' '); expect[k] = q == std::string::npos ? "" : v.substr(q); }
  }
  return header && !p.prop.empty();
}

// ---------------------------------------------------------------- ctx
static inline void fold(uint64_t& h, const char* s, size_t n) {
  for (size_t i = 0; i < n; ++i) { h ^= static_cast<unsigned char>(s[i]); h *= 1099511628211ULL; }
  h ^= 0xff; h *= 1099511628211ULL;
}
void Ctx::beginStep(long i, const Op& op) {
  step = i;
  fold(fp, op.k.data(), op.k.size());
  std::string t = opToText(op);
  fold(hash, t.data(), t.size());
  hazardTag.clear();
  if (shared) { shared->step = i; shared->hash = hash; shared->tag[0] = 0; }
  if (trace) traceLines.push_back("step " + std::to_string(i) + " " + t);
}
void Ctx::hazard(const char* name) {
  hazardTag = name;
  if (shared) { size_t n = std::min(hazardTag.size(), sizeof(shared->tag) - 1); std::memcpy(shared->tag, hazardTag.data(), n); shared->tag[n] = 0; }
}
void Ctx::ev(const std::string& what) {
  fold(hash, what.data(), what.size());
  if (trace) traceLines.push_back("  " + what);
}
void Ctx::evd(const char* tag, double v) { ev(std::string(tag) + "=" + hexfloat(v)); }
void Ctx::evi(const char* tag, long v) { ev(std::string(tag) + "=" + std::to_string(v)); }
void Ctx::outcome(const char* cls) {
  fold(fp, cls, strlen(cls));
  fold(hash, cls, strlen(cls));
  if (shared) shared->hash = hash;
  if (trace) traceLines.push_back(std::string("  -> ") + cls);
}
void Ctx::fail(const std::string& cls, const std::string& sig, const std::string& detail) {
  SimViolation v; v.cls = cls; v.sig = sig; v.detail = detail; v.step = static_cast<int>(step);
  throw v;
}

bool Ctx::knownOrFail(const std::string& prop, const std::string& cls, const std::string& sig, const std::string& detail) {
  if (isKnownFinding(prop, sig)) { ++knownHits[sig]; ev("known:" + sig); return true; }
  fail(cls, sig, detail);
}

std::vector<Op> Harness::simplify(const Op& o) const {
  std::vector<Op> r;
  auto tryl = [&](long Op::*m) {
    if (o.*m != 0) { Op c = o; c.*m = 0; r.push_back(c); if (o.*m > 1 || o.*m < -1) { c = o; c.*m = o.*m / 2; r.push_back(c); } }
  };
  tryl(&Op::a); tryl(&Op::b); tryl(&Op::c); tryl(&Op::d);
  auto tryd = [&](double Op::*m) {
    double v = o.*m;
    if (v != 0 && std::isfinite(v)) {
      Op c = o; c.*m = 0; r.push_back(c);
      if (v != std::round(v)) { c = o; c.*m = std::round(v); r.push_back(c); }
      if (v != 1) { c = o; c.*m = 1; r.push_back(c); }
    }
  };
  tryd(&Op::x); tryd(&Op::y);
  return r;
}

// ---------------------------------------------------------------- registry
std::vector<Harness*>& allHarnesses() { static std::vector<Harness*> v; return v; }
void registerHarness(Harness* h) { allHarnesses().push_back(h); }
Harness* findHarness(const std::string& id) {
  for (auto* h : allHarnesses()) if (id == h->id()) return h;
  return nullptr;
}

// ---------------------------------------------------------------- world reset
void resetWorld(uint64_t seed) {
  static std::shared_ptr<bpp::OutputStream> nullOut(new bpp::NullOutputStream());
  bpp::ApplicationTools::message = nullOut;
  bpp::ApplicationTools::warning = nullOut;
  bpp::ApplicationTools::error = nullOut;
  bpp::ApplicationTools::interactive = false;
  bpp::ApplicationTools::terminalWidth = 80;
  bpp::ApplicationTools::terminalSplit = 0.5;
  bpp::ApplicationTools::warningLevel = 0;
  bpp::ApplicationTools::startTime = 1000000000L;
  g_clock.reset();
  g_audit.reset();
  bpp::RandomTools::setSeed(static_cast<std::mt19937::result_type>(seed & 0xffffffffULL));
}

}  // namespace dsim

// link-time seam for the wall clock: -Wl,--wrap=time
extern "C" time_t __wrap_time(time_t* t) {
  time_t v = static_cast<time_t>(dsim::g_clock.read());
  if (t) *t = v;
  return v;
}
