// C13 — all HMM likelihood algorithms compute the same, correct probability of the data.
// World (real): RescaledHmmLikelihood, LowMemoryRescaledHmmLikelihood (plan-chosen chunk size), LogsumHmmLikelihood,
// FullHmmTransitionMatrix, AutoCorrelationTransitionMatrix (+ Simplex, MatrixTools::pow underneath).
// Stubs (harness-owned peers): SimAlphabet, SimEmissions (table with two real parameters), SimTransitions (table with exact zeros).
// The three likelihoods are replicas: every update is broadcast to all, reads happen on a plan-chosen replica in plan-chosen order.
// A fourth party is a standalone transition-matrix object whose getPij/Pij/getEquilibriumFrequencies are read in plan-chosen order.
// Oracle: long-double forward/backward recursion with forward-mode derivatives + brute-force path enumeration for small cases.
#include "engine.h"
#include <Bpp/Numeric/Hmm/RescaledHmmLikelihood.h>
#include <Bpp/Numeric/Hmm/LowMemoryRescaledHmmLikelihood.h>
#include <Bpp/Numeric/Hmm/LogsumHmmLikelihood.h>
#include <Bpp/Numeric/Hmm/FullHmmTransitionMatrix.h>
#include <Bpp/Numeric/Hmm/AutoCorrelationTransitionMatrix.h>
#include <Bpp/Numeric/AbstractParametrizable.h>
#include <Bpp/BppString.h>
#include <memory>

using namespace dsim;
typedef long double LD;

namespace {

// ---------------------------------------------------------------- stubs
class SimAlphabet : public virtual bpp::HmmStateAlphabet, public bpp::AbstractParametrizable {
  size_t n_; std::vector<bpp::BppString> states_;
public:
  explicit SimAlphabet(size_t n) : bpp::AbstractParametrizable(""), n_(n), states_() { for (size_t i = 0; i < n; ++i) states_.push_back(bpp::BppString("s" + std::to_string(i))); }
  SimAlphabet* clone() const override { return new SimAlphabet(*this); }
  const bpp::Clonable& getState(size_t i) const override { return states_[i]; }
  size_t getNumberOfStates() const override { return n_; }
  bool worksWith(const bpp::HmmStateAlphabet& a) const override { return a.getNumberOfStates() == n_; }
};

struct EmissionSpec { size_t L = 0, n = 0; std::vector<double> b, c, g; };   // e = b * exp(-theta*c) * phi^g

double emissionValue(const EmissionSpec& s, size_t pos, size_t j, double theta, double phi) {
  size_t k = pos * s.n + j;
  return s.b[k] * std::exp(-theta * s.c[k]) * std::pow(phi, s.g[k]);
}

class SimEmissions : public virtual bpp::HmmEmissionProbabilities, public bpp::AbstractParametrizable {
  std::shared_ptr<const bpp::HmmStateAlphabet> alph_;
  EmissionSpec spec_;
  std::vector<std::vector<double>> e_;
  mutable std::vector<std::vector<double>> de_, d2e_;
public:
  long recomputed = 0;
  SimEmissions(std::shared_ptr<const bpp::HmmStateAlphabet> a, const EmissionSpec& s, double theta, double phi) : bpp::AbstractParametrizable(""), alph_(a), spec_(s), e_(), de_(), d2e_() {
    addParameter_(new bpp::Parameter("theta", theta, std::make_shared<bpp::IntervalConstraint>(0.05, 5.0, true, true)));
    addParameter_(new bpp::Parameter("phi", phi, std::make_shared<bpp::IntervalConstraint>(0.25, 4.0, true, true)));
    compute();
  }
  SimEmissions* clone() const override { return new SimEmissions(*this); }
  const bpp::HmmStateAlphabet& hmmStateAlphabet() const override { return *alph_; }
  std::shared_ptr<const bpp::HmmStateAlphabet> getHmmStateAlphabet() const override { return alph_; }
  void setHmmStateAlphabet(std::shared_ptr<const bpp::HmmStateAlphabet> a) override { alph_ = a; }
  void fireParameterChanged(const bpp::ParameterList&) override { compute(); }
  void compute() {
    ++recomputed;
    double th = getParameterValue("theta"), ph = getParameterValue("phi");
    e_.assign(spec_.L, std::vector<double>(spec_.n));
    for (size_t i = 0; i < spec_.L; ++i) for (size_t j = 0; j < spec_.n; ++j) e_[i][j] = emissionValue(spec_, i, j, th, ph);
  }
  double operator()(size_t pos, size_t state) const override { return e_[pos][state]; }
  const std::vector<double>& operator()(size_t pos) const override { return e_[pos]; }
  size_t getNumberOfPositions() const override { return spec_.L; }
  void computeDEmissionProbabilities(std::string& variable) const override {
    double ph = getParameterValue("phi");
    de_.assign(spec_.L, std::vector<double>(spec_.n, 0.0));
    for (size_t i = 0; i < spec_.L; ++i) for (size_t j = 0; j < spec_.n; ++j) {
      size_t k = i * spec_.n + j;
      if (variable == "theta") de_[i][j] = -spec_.c[k] * e_[i][j];
      else if (variable == "phi") de_[i][j] = spec_.g[k] * e_[i][j] / ph;
    }
  }
  void computeD2EmissionProbabilities(std::string& variable) const override {
    double ph = getParameterValue("phi");
    d2e_.assign(spec_.L, std::vector<double>(spec_.n, 0.0));
    for (size_t i = 0; i < spec_.L; ++i) for (size_t j = 0; j < spec_.n; ++j) {
      size_t k = i * spec_.n + j;
      if (variable == "theta") d2e_[i][j] = spec_.c[k] * spec_.c[k] * e_[i][j];
      else if (variable == "phi") d2e_[i][j] = spec_.g[k] * (spec_.g[k] - 1) * e_[i][j] / (ph * ph);
    }
  }
  const std::vector<double>& getDEmissionProbabilities(size_t pos) const override { return de_[pos]; }
  const std::vector<double>& getD2EmissionProbabilities(size_t pos) const override { return d2e_[pos]; }
};

void stationaryOf(const std::vector<std::vector<LD>>& P, std::vector<LD>& pi) {
  size_t n = P.size(); pi.assign(n, static_cast<LD>(1) / static_cast<LD>(n));
  for (int it = 0; it < 20000; ++it) {
    std::vector<LD> q(n, 0); for (size_t i = 0; i < n; ++i) for (size_t j = 0; j < n; ++j) q[j] += pi[i] * P[i][j];
    LD s = 0, d = 0; for (auto v : q) s += v; for (size_t j = 0; j < n; ++j) { q[j] /= s; d += fabsl(q[j] - pi[j]); }
    pi = q; if (d < 1e-18L) break;
  }
}

// table transition model with exact zeros: P = (1-mix) A + mix B ; its own caches are per-quantity
class SimTransitions : public virtual bpp::AbstractHmmTransitionMatrix, public bpp::AbstractParametrizable {
  std::vector<double> A_, B_; size_t n_;
  mutable bpp::RowMatrix<double> p_; mutable std::vector<double> pi_;
public:
  SimTransitions(std::shared_ptr<const bpp::HmmStateAlphabet> a, const std::vector<double>& A, const std::vector<double>& B, double mix) :
    bpp::AbstractHmmTransitionMatrix(a), bpp::AbstractParametrizable(""), A_(A), B_(B), n_(a->getNumberOfStates()), p_(n_, n_), pi_(n_) {
    addParameter_(new bpp::Parameter("mix", mix, std::make_shared<bpp::IntervalConstraint>(0.0, 1.0, true, true)));
    compute();
  }
  SimTransitions* clone() const override { return new SimTransitions(*this); }
  void compute() const {
    double m = getParameterValue("mix");
    std::vector<std::vector<LD>> P(n_, std::vector<LD>(n_));
    for (size_t i = 0; i < n_; ++i) for (size_t j = 0; j < n_; ++j) { p_(i, j) = (1 - m) * A_[i * n_ + j] + m * B_[i * n_ + j]; P[i][j] = p_(i, j); }
    std::vector<LD> pi; stationaryOf(P, pi); for (size_t i = 0; i < n_; ++i) pi_[i] = static_cast<double>(pi[i]);
  }
  void fireParameterChanged(const bpp::ParameterList&) override { compute(); }
  double Pij(size_t i, size_t j) const override { return p_(i, j); }
  const bpp::Matrix<double>& getPij() const override { return p_; }
  const std::vector<double>& getEquilibriumFrequencies() const override { return pi_; }
};

// ---------------------------------------------------------------- reference (long double, forward-mode derivatives)
struct Dual { LD v = 0, d = 0, dd = 0; };
inline Dual operator+(const Dual& a, const Dual& b) { return Dual{a.v + b.v, a.d + b.d, a.dd + b.dd}; }
inline Dual operator*(const Dual& a, const Dual& b) { return Dual{a.v * b.v, a.d * b.v + a.v * b.d, a.dd * b.v + 2 * a.d * b.d + a.v * b.dd}; }
inline Dual cst(LD c) { return Dual{c, 0, 0}; }
inline Dual inv(const Dual& a) { LD i = 1 / a.v; return Dual{i, -a.d * i * i, (2 * a.d * a.d * i - a.dd) * i * i}; }
inline Dual logd(const Dual& a) { return Dual{logl(a.v), a.d / a.v, (a.dd * a.v - a.d * a.d) / (a.v * a.v)}; }

struct Ref {
  size_t n = 0, L = 0;
  std::vector<std::vector<LD>> P; std::vector<LD> pi;
  Dual logL;                                // value and d/dvar, d2/dvar2 of log-likelihood
  std::vector<std::vector<LD>> post;        // L x n
  LD bruteLogL = 0; bool hasBrute = false;
};

struct ModelState {
  size_t n = 0, L = 0; int transType = 0;   // 0 full 1 autocorr 2 table
  EmissionSpec em; std::vector<double> A, B;
  std::vector<size_t> bps;
  std::map<std::string, double> params;     // current values of every likelihood parameter
};

void emissionsDual(const ModelState& m, const std::string& var, std::vector<std::vector<Dual>>& E) {
  LD th = m.params.at("theta"), ph = m.params.at("phi");
  E.assign(m.L, std::vector<Dual>(m.n));
  for (size_t i = 0; i < m.L; ++i) for (size_t j = 0; j < m.n; ++j) {
    size_t k = i * m.n + j;
    LD v = static_cast<LD>(m.em.b[k]) * expl(-th * static_cast<LD>(m.em.c[k])) * powl(ph, static_cast<LD>(m.em.g[k]));
    Dual e; e.v = v;
    if (var == "theta") { e.d = -static_cast<LD>(m.em.c[k]) * v; e.dd = static_cast<LD>(m.em.c[k]) * static_cast<LD>(m.em.c[k]) * v; }
    else if (var == "phi") { LD g = m.em.g[k]; e.d = g * v / ph; e.dd = g * (g - 1) * v / (ph * ph); }
    E[i][j] = e;
  }
}

void computeRef(const ModelState& m, const std::vector<std::vector<LD>>& P, const std::string& var, Ref& r) {
  r.n = m.n; r.L = m.L; r.P = P; stationaryOf(P, r.pi);
  std::vector<std::vector<Dual>> E; emissionsDual(m, var, E);
  std::vector<bool> isBp(m.L + 1, false); for (size_t b : m.bps) if (b < m.L) isBp[b] = true;
  // forward with per-site normalisation (dual numbers)
  std::vector<std::vector<Dual>> f(m.L, std::vector<Dual>(m.n));
  Dual total = cst(0);
  std::vector<LD> scale(m.L);
  for (size_t i = 0; i < m.L; ++i) {
    std::vector<Dual> t(m.n); Dual s = cst(0);
    for (size_t j = 0; j < m.n; ++j) {
      Dual pred = cst(0);
      if (i == 0 || isBp[i]) pred = cst(r.pi[j]);
      else for (size_t k = 0; k < m.n; ++k) pred = pred + f[i - 1][k] * cst(P[k][j]);
      t[j] = E[i][j] * pred; s = s + t[j];
    }
    Dual is = inv(s);
    for (size_t j = 0; j < m.n; ++j) f[i][j] = t[j] * is;
    total = total + logd(s); scale[i] = s.v;
  }
  r.logL = total;
  // backward (values only)
  std::vector<std::vector<LD>> bk(m.L, std::vector<LD>(m.n, 1));
  for (size_t i = m.L - 1; i > 0; --i) {
    for (size_t j = 0; j < m.n; ++j) {
      if (isBp[i]) { bk[i - 1][j] = 1; continue; }
      LD x = 0; for (size_t k = 0; k < m.n; ++k) x += E[i][k].v * P[j][k] * bk[i][k];
      bk[i - 1][j] = x / scale[i];
    }
  }
  r.post.assign(m.L, std::vector<LD>(m.n));
  for (size_t i = 0; i < m.L; ++i) for (size_t j = 0; j < m.n; ++j) r.post[i][j] = f[i][j].v * bk[i][j];
  // brute force over all hidden paths
  r.hasBrute = false;
  double paths = std::pow(static_cast<double>(m.n), static_cast<double>(m.L));
  if (m.L <= 12 && paths <= 20000) {      // the statement's enumeration range; longer products would underflow even long double
    r.hasBrute = true;
    size_t np = static_cast<size_t>(paths + 0.5);
    LD sum = 0; std::vector<size_t> st(m.L);
    for (size_t code = 0; code < np; ++code) {
      size_t c = code; for (size_t i = 0; i < m.L; ++i) { st[i] = c % m.n; c /= m.n; }
      LD pr = 1;
      for (size_t i = 0; i < m.L; ++i) { pr *= (i == 0 || isBp[i]) ? r.pi[st[i]] : P[st[i - 1]][st[i]]; pr *= E[i][st[i]].v; }
      sum += pr;
    }
    r.bruteLogL = logl(sum);
  }
}

// ---------------------------------------------------------------- world
struct Replica {
  std::shared_ptr<SimAlphabet> alph;
  std::shared_ptr<bpp::HmmTransitionMatrix> trans;
  std::shared_ptr<SimEmissions> emis;
  std::unique_ptr<bpp::HmmLikelihood> lik;
  const char* name = "";
};

bool relEq(LD a, LD b, LD rel, LD abs) { return fabsl(a - b) <= abs + rel * std::max(fabsl(a), fabsl(b)); }

class Exec {
  const Plan& p; Ctx& ctx;
  ModelState m;
  Replica rep[3];
  std::shared_ptr<SimAlphabet> tAlph; std::shared_ptr<bpp::HmmTransitionMatrix> tMat;   // standalone transition-matrix party
  std::vector<std::string> pnames;         // likelihood parameter names (same on all replicas)
  std::vector<std::string> tnames;         // names that belong to the transition model
  std::map<std::string, double> tpar;      // parameter values of the standalone transition-matrix party
  void resyncTpar() { tpar.clear(); for (auto& nme : tnames) tpar[nme] = tMat->getParameterValue(tMat->getParameterNameWithoutNamespace(nme)); }
public:
  Exec(const Plan& pl, Ctx& c) : p(pl), ctx(c) {}

  std::shared_ptr<bpp::HmmTransitionMatrix> makeTrans(std::shared_ptr<SimAlphabet> a) {
    if (m.transType == 0) return std::make_shared<bpp::FullHmmTransitionMatrix>(a, "");
    if (m.transType == 1) return std::make_shared<bpp::AutoCorrelationTransitionMatrix>(a, "");
    return std::make_shared<SimTransitions>(a, m.A, m.B, 0.5);
  }
  bool shared = false;                       // the three likelihoods are built on the SAME component objects (constructors take shared_ptr and do not clone)
  std::shared_ptr<SimAlphabet> cAlph; std::shared_ptr<bpp::HmmTransitionMatrix> cTrans; std::shared_ptr<SimEmissions> cEmis;
  void buildReplica(Replica& r, int kind, size_t chunk, bool useShared = false) {
    if (useShared) {
      if (!cAlph) { cAlph = std::make_shared<SimAlphabet>(m.n); cTrans = makeTrans(cAlph); cEmis = std::make_shared<SimEmissions>(cAlph, m.em, 1.0, 1.0); }
      r.alph = cAlph; r.trans = cTrans; r.emis = cEmis;
    } else {
      r.alph = std::make_shared<SimAlphabet>(m.n);
      r.trans = makeTrans(r.alph);
      r.emis = std::make_shared<SimEmissions>(r.alph, m.em, 1.0, 1.0);
    }
    if (kind == 0) { r.lik.reset(new bpp::RescaledHmmLikelihood(r.alph, r.trans, r.emis, "")); r.name = "rescaled"; }
    else if (kind == 1) { r.lik.reset(new bpp::LowMemoryRescaledHmmLikelihood(r.alph, r.trans, r.emis, "", chunk)); r.name = "lowmem"; }
    else { r.lik.reset(new bpp::LogsumHmmLikelihood(r.alph, r.trans, r.emis, "")); r.name = "logsum"; }
  }

  // P of the current parameter values: a FRESH transition object (never queried for anything else) for the built-in models
  std::vector<std::vector<LD>> currentP() { return currentP(m.params); }
  std::vector<std::vector<LD>> currentP(const std::map<std::string, double>& par) {
    std::vector<std::vector<LD>> P(m.n, std::vector<LD>(m.n));
    if (m.transType == 1) {      // documented definition of the auto-correlation model
      for (size_t i = 0; i < m.n; ++i) for (size_t j = 0; j < m.n; ++j) { LD l = par.at("lambda" + std::to_string(i + 1)); P[i][j] = i == j ? l : (1 - l) / static_cast<LD>(m.n - 1); }
      return P;
    }
    auto a = std::make_shared<SimAlphabet>(m.n);
    std::shared_ptr<bpp::HmmTransitionMatrix> t = makeTrans(a);
    bpp::ParameterList pl; for (auto& nme : tnames) pl.addParameter(bpp::Parameter(nme, par.at(nme)));
    t->matchParametersValues(pl);
    const bpp::Matrix<double>& M = t->getPij();
    for (size_t i = 0; i < m.n; ++i) for (size_t j = 0; j < m.n; ++j) P[i][j] = M(i, j);
    return P;
  }

  void checkTransition(const bpp::HmmTransitionMatrix& t, const std::string& who, int order) { checkTransition(t, who, order, currentP()); }
  void checkTransition(const bpp::HmmTransitionMatrix& t, const std::string& who, int order, const std::vector<std::vector<LD>>& P) {
    // row-stochastic matrix + genuine stationary distribution, whatever the order of the queries
    std::vector<LD> pi; stationaryOf(P, pi);
    auto readP = [&] {
      const bpp::Matrix<double>& M = t.getPij();
      for (size_t i = 0; i < m.n; ++i) { LD s = 0; for (size_t j = 0; j < m.n; ++j) { double v = M(i, j); s += v;
          ctx.check(v >= 0 && relEq(v, P[i][j], 1e-12L, 1e-14L), "model-mismatch:getPij", "model-mismatch:getPij", who + " getPij(" + std::to_string(i) + "," + std::to_string(j) + ")=" + fmtd(v) + " expected " + fmtd(static_cast<double>(P[i][j]))); }
        ctx.check(fabsl(s - 1) < 1e-9L, "invariant:row-stochastic", "invariant:row-stochastic", who + " row " + std::to_string(i) + " sums to " + fmtd(static_cast<double>(s))); }
    };
    auto readPij = [&] { for (size_t i = 0; i < m.n; ++i) for (size_t j = 0; j < m.n; ++j) { double v = t.Pij(i, j); ctx.check(relEq(v, P[i][j], 1e-12L, 1e-14L), "model-mismatch:Pij", "model-mismatch:Pij", who + " Pij(" + std::to_string(i) + "," + std::to_string(j) + ")=" + fmtd(v)); } };
    auto readEq = [&] {
      const std::vector<double>& e = t.getEquilibriumFrequencies();
      ctx.check(e.size() == m.n, "model-mismatch:eqfreq-size", "model-mismatch:eqfreq-size", who);
      LD s = 0; for (size_t j = 0; j < m.n; ++j) { s += e[j]; ctx.check(e[j] >= -1e-15, "invariant:eqfreq-nonneg", "invariant:eqfreq-nonneg", who); }
      ctx.check(fabsl(s - 1) < 1e-9L, "invariant:eqfreq-sum", std::string("invariant:eqfreq-sum:") + (m.transType == 0 ? "full" : m.transType == 1 ? "autocorr" : "table"), who + " equilibrium frequencies sum to " + fmtd(static_cast<double>(s)));
      for (size_t j = 0; j < m.n; ++j) { LD x = 0; for (size_t i = 0; i < m.n; ++i) x += static_cast<LD>(e[i]) * P[i][j];
        ctx.check(fabsl(x - e[j]) < 1e-9L && fabsl(pi[j] - e[j]) < 1e-8L, "invariant:stationary", std::string("invariant:stationary:") + (m.transType == 0 ? "full" : m.transType == 1 ? "autocorr" : "table"), who + " pi[" + std::to_string(j) + "]=" + fmtd(e[j]) + " but (pi.P)[j]=" + fmtd(static_cast<double>(x)) + ", stationary value " + fmtd(static_cast<double>(pi[j]))); }
    };
    switch (order % 6) {
      case 0: readP(); readEq(); readPij(); break;
      case 1: readEq(); readP(); readPij(); break;
      case 2: readPij(); readEq(); readP(); break;
      case 3: readP(); readPij(); readEq(); break;
      case 4: readEq(); readPij(); break;
      default: readP(); readEq(); break;
    }
    if (order % 6 == 0 || order % 6 == 3 || order % 6 == 5) ctx.probe("getPij-read-before-eqfreq");
  }

  // one read on one replica
  void doRead(size_t k, long what, long a, long b) {
    Replica& r = rep[k];
    std::string who = r.name;
    static const char* VARS[] = {"theta", "phi"};
    std::string var = VARS[a % 2];
    Ref ref; computeRef(m, currentP(), var, ref);
    LD tolRel = 1e-8L, tolAbs = 1e-9L;
    LD tolPost = 1e-8L + 64 * 2.2e-16L * fabsl(ref.logL.v) * sqrtl(static_cast<LD>(m.L));     // rounding of exp(log f + log b - logL)
    if (k == 1 && (what % 9 == 5 || what % 9 == 6)) { ctx.outcome("not-implemented"); return; }
    if (shared && (what % 9 == 5 || what % 9 == 6)) { ctx.outcome("skip"); return; }   // a shared emission object holds the derivative table of ONE variable at a time (interface design)   // the low-memory class documents derivatives as unimplemented
    try {
      switch (what % 9) {
        case 0: case 1: {
          double v = what % 9 == 0 ? r.lik->getLogLikelihood() : -r.lik->getValue();
          ctx.evd("logL", v);
          ctx.check(relEq(v, ref.logL.v, tolRel, tolAbs), "model-mismatch:logLikelihood", "model-mismatch:logLikelihood:" + who, who + " logL " + fmtd(v) + " reference " + fmtd(static_cast<double>(ref.logL.v)));
          if (ref.hasBrute) { ctx.check(relEq(v, ref.bruteLogL, tolRel, tolAbs), "model-mismatch:logLikelihood-vs-enumeration", "model-mismatch:logLikelihood-vs-enumeration:" + who, who + " logL " + fmtd(v) + " path enumeration " + fmtd(static_cast<double>(ref.bruteLogL))); ctx.probe("path-enumeration-compared"); }
          break;
        }
        case 2: {
          std::vector<std::vector<double>> pp; r.lik->getHiddenStatesPosteriorProbabilities(pp, false);
          ctx.check(pp.size() == m.L, "model-mismatch:posterior-shape", "model-mismatch:posterior-shape", who);
          for (size_t i = 0; i < m.L; ++i) { LD s = 0; for (size_t j = 0; j < m.n; ++j) { s += pp[i][j];
              ctx.check(pp[i][j] >= -1e-12 && fabsl(pp[i][j] - ref.post[i][j]) < tolPost, "model-mismatch:posterior", "model-mismatch:posterior:" + who, who + " posterior[" + std::to_string(i) + "][" + std::to_string(j) + "]=" + fmtd(pp[i][j]) + " reference " + fmtd(static_cast<double>(ref.post[i][j]))); }
            ctx.check(fabsl(s - 1) < tolPost, "invariant:posterior-sum", "invariant:posterior-sum:" + who, who + " posterior row " + std::to_string(i) + " sums to " + fmtd(static_cast<double>(s))); }
          ctx.probe("posterior-compared");
          break;
        }
        case 3: {
          size_t site = static_cast<size_t>(b) % m.L;
          std::vector<double> pr = r.lik->getHiddenStatesPosteriorProbabilitiesForASite(site);
          for (size_t j = 0; j < m.n; ++j) ctx.check(fabsl(pr[j] - ref.post[site][j]) < tolPost, "model-mismatch:posterior-site", "model-mismatch:posterior-site:" + who, who + " posterior for site " + std::to_string(site));
          double ls = r.lik->getLikelihoodForASite(site);
          LD want = 0; for (size_t j = 0; j < m.n; ++j) want += ref.post[site][j] * static_cast<LD>(emissionValue(m.em, site, j, m.params.at("theta"), m.params.at("phi")));
          ctx.check(relEq(ls, want, 1e-8L + tolPost * static_cast<LD>(m.n), 1e-300L), "model-mismatch:likelihood-site", "model-mismatch:likelihood-site:" + who, who + " likelihood for site " + std::to_string(site) + " = " + fmtd(ls) + " expected " + fmtd(static_cast<double>(want)));
          break;
        }
        case 4: {
          std::vector<double> le = r.lik->getLikelihoodForEachSite();
          ctx.check(le.size() == m.L, "model-mismatch:likelihood-each-shape", "model-mismatch:likelihood-each-shape", who);
          for (size_t i = 0; i < m.L; ++i) { LD want = 0; for (size_t j = 0; j < m.n; ++j) want += ref.post[i][j] * static_cast<LD>(emissionValue(m.em, i, j, m.params.at("theta"), m.params.at("phi")));
            ctx.check(relEq(le[i], want, 1e-8L + tolPost * static_cast<LD>(m.n), 1e-300L), "model-mismatch:likelihood-each", "model-mismatch:likelihood-each:" + who, who + " per-site likelihood " + std::to_string(i)); }
          break;
        }
        case 5: {
          double d = r.lik->getFirstOrderDerivative(var);     // derivative of -logL
          ctx.evd("d1", d);
          ctx.check(relEq(d, -ref.logL.d, 1e-6L, 1e-7L), "model-mismatch:first-derivative", "model-mismatch:first-derivative:" + who, who + " d(-logL)/d" + var + " = " + fmtd(d) + " reference " + fmtd(static_cast<double>(-ref.logL.d)));
          ctx.probe("first-derivative-compared");
          break;
        }
        case 6: {
          double d = r.lik->getSecondOrderDerivative(var);
          ctx.evd("d2", d);
          ctx.check(relEq(d, -ref.logL.dd, 1e-6L, 1e-7L), "model-mismatch:second-derivative", "model-mismatch:second-derivative:" + who, who + " d2(-logL)/d" + var + "2 = " + fmtd(d) + " reference " + fmtd(static_cast<double>(-ref.logL.dd)));
          ctx.probe("second-derivative-compared");
          break;
        }
        default:
          checkTransition(r.lik->hmmTransitionMatrix(), who + ".transitions", static_cast<int>(b));
      }
      ctx.outcome("read");
    } catch (bpp::NotImplementedException&) {
      ctx.outcome("not-implemented");     // documented as unimplemented for this class: recorded and skipped
    }
  }

  double mapValue(const std::string& nme, double x, bool bad) {
    if (nme == "theta") return bad ? 7.0 : 0.1 + 2.9 * x;
    if (nme == "phi") return bad ? 0.1 : 0.5 + 1.5 * x;
    if (nme == "mix") return bad ? 1.5 : x;
    return bad ? (x < 0.5 ? -0.25 : 1.25) : 0.15 + 0.7 * x;      // simplex coordinates and lambdas: open (0,1)
  }

  void run() {
    m.n = static_cast<size_t>(1 + p.geti("n") % 5); m.L = static_cast<size_t>(1 + p.geti("L") % 5000);
    m.transType = static_cast<int>(p.geti("trans") % 3);
    if (m.transType == 1 && m.n == 1) m.n = 2;      // a one-state auto-correlation model is not defined ((1-lambda)/(n-1))
    // emission tables from the plan's table seed
    uint64_t s = static_cast<uint64_t>(p.geti("emseed")) * 2654435761ULL + 17;
    auto nxt = [&] { s = s * 6364136223846793005ULL + 1442695040888963407ULL; return static_cast<double>((s >> 11) & 0xfffff) / 1048576.0; };
    bool wide = p.geti("wide") != 0;
    m.em.L = m.L; m.em.n = m.n;
    for (size_t k = 0; k < m.L * m.n; ++k) { double u = nxt(); m.em.b.push_back(wide && u < 0.3 ? std::pow(10.0, -200.0 * nxt()) : std::pow(10.0, -3.0 * nxt())); m.em.c.push_back(2.0 * nxt()); m.em.g.push_back(std::floor(3.0 * nxt())); }
    // table model with exact zeros, irreducible and aperiodic: positive diagonal and a positive cycle
    for (int t = 0; t < 2; ++t) { std::vector<double>& M = t ? m.B : m.A; M.assign(m.n * m.n, 0.0);
      for (size_t i = 0; i < m.n; ++i) { double tot = 0; for (size_t j = 0; j < m.n; ++j) { double v = (j == i || j == (i + 1) % m.n) ? 0.2 + nxt() : (nxt() < 0.5 ? 0.0 : nxt()); M[i * m.n + j] = v; tot += v; } for (size_t j = 0; j < m.n; ++j) M[i * m.n + j] /= tot; } }
    size_t chunk = static_cast<size_t>(1 + p.geti("chunk") % static_cast<long>(m.L + 1));
    shared = p.geti("shared") != 0;
    for (int k = 0; k < 3; ++k) buildReplica(rep[k], k, chunk, shared);
    if (shared) ctx.probe("replicas-share-components");
    tAlph = std::make_shared<SimAlphabet>(m.n); tMat = makeTrans(tAlph);
    pnames = rep[0].lik->getParameters().getParameterNames();
    for (int k = 1; k < 3; ++k) ctx.check(rep[k].lik->getParameters().getParameterNames() == pnames, "model-mismatch:parameter-names", "model-mismatch:parameter-names", "replicas expose different parameters");
    tnames = rep[0].trans->getParameters().getParameterNames();
    for (auto& nme : pnames) m.params[nme] = rep[0].lik->getParameterValue(nme);
    resyncTpar();
    if (m.L >= 1000) ctx.probe("long-sequence");
    for (size_t i = 0; i < p.ops.size(); ++i) {
      const Op& o = p.ops[i];
      ctx.beginStep(static_cast<long>(i), o);
      step(o);
    }
    // final sweep in a plan-chosen order on every replica + a freshly built replica with the final parameters (history independence)
    long fo = p.geti("finalorder");
    for (int q = 0; q < 9; ++q) { long what = (q * (1 + fo % 4) + fo) % 9; for (size_t k = 0; k < 3; ++k) doRead((k + static_cast<size_t>(fo)) % 3, what, fo + q, fo / 3 + q); }
    for (int k = 0; k < 3; ++k) {
      Replica fresh; buildReplica(fresh, k, chunk);
      bpp::ParameterList pl; for (auto& kv : m.params) pl.addParameter(bpp::Parameter(kv.first, kv.second));
      fresh.lik->matchParametersValues(pl); fresh.lik->setBreakPoints(m.bps);
      double a = fresh.lik->getLogLikelihood(), b = rep[k].lik->getLogLikelihood();
      ctx.check(relEq(a, b, 1e-10L, 1e-12L), "invariant:history-independence", std::string("invariant:history-independence:") + rep[k].name, std::string(rep[k].name) + " long-lived logL " + fmtd(b) + " vs fresh object " + fmtd(a));
    }
    ctx.probe("fresh-replica-compared");
  }

  void step(const Op& o) {
    if (o.k == "upd") {
      // broadcast one update to the three replicas (and, for transition parameters, to the standalone matrix)
      size_t cnt = 1 + static_cast<size_t>(o.c) % 3;
      long route = o.d % 3;                       // 0 setParameterValue 1 setParametersValues 2 matchParametersValues
      if (route == 0) cnt = 1;
      long badAt = o.b % 8 < static_cast<long>(cnt) && (o.b / 8) % 5 == 0 ? o.b % 8 : -1;
      bpp::ParameterList pl; std::vector<std::string> names; std::vector<double> vals;
      for (size_t q = 0; q < cnt; ++q) {
        std::string nme = pnames[(static_cast<size_t>(o.a) + q * 7) % pnames.size()];
        if (std::find(names.begin(), names.end(), nme) != names.end()) continue;
        double x = o.x + 0.377 * static_cast<double>(q); x -= std::floor(x);
        double v = mapValue(nme, x, static_cast<long>(q) == badAt);
        names.push_back(nme); vals.push_back(v); pl.addParameter(bpp::Parameter(nme, v));
      }
      bool bad = badAt >= 0 && static_cast<size_t>(badAt) < names.size();
      int raised = 0;
      static const size_t ORD[6][3] = {{0, 1, 2}, {0, 2, 1}, {1, 0, 2}, {1, 2, 0}, {2, 0, 1}, {2, 1, 0}};
      const size_t* ord = ORD[static_cast<size_t>(o.d / 3) % 6];        // which handle receives the new values first
      for (size_t kk = 0; kk < 3; ++kk) {
        size_t k = ord[kk];
        try {
          if (route == 0) rep[k].lik->setParameterValue(names[0], vals[0]);
          else if (route == 1) rep[k].lik->setParametersValues(pl);
          else rep[k].lik->matchParametersValues(pl);
        } catch (bpp::ConstraintException&) { ++raised; }
      }
      if (bad) {
        ctx.check(raised == 3, "model-mismatch:update-not-rejected", "model-mismatch:update-not-rejected", "an update outside a parameter's constraint was accepted by " + std::to_string(3 - raised) + " replica(s)");
        ctx.rejected(); ctx.fault("reject@k");
      } else {
        ctx.check(raised == 0, "model-mismatch:update-raised", "model-mismatch:update-raised", "a legal update raised on " + std::to_string(raised) + " replica(s)");
        for (size_t q = 0; q < names.size(); ++q) m.params[names[q]] = vals[q];
        // same update on the standalone transition matrix
        bpp::ParameterList tp; for (size_t q = 0; q < names.size(); ++q) if (std::find(tnames.begin(), tnames.end(), names[q]) != tnames.end()) tp.addParameter(bpp::Parameter(names[q], vals[q]));
        if (tp.size()) { tMat->matchParametersValues(tp); for (size_t q = 0; q < tp.size(); ++q) tpar[tp[q].getName()] = tp[q].getValue(); ctx.probe("transition-parameter-updated"); }
        ctx.ok();
      }
      uint64_t sh = 0x13; for (auto& kv : m.params) sh = sh * 1099511628211ULL ^ strHash(hexfloat(kv.second)); ctx.state(sh);
    } else if (o.k == "bp") {
      std::vector<size_t> bps;
      for (size_t i = 1; i < m.L && i <= 40; ++i) if ((o.a >> ((i - 1) % 20)) & 1 && (i <= 20 || (o.b >> ((i - 21) % 20)) & 1)) bps.push_back(i);
      if (m.L > 60 && o.c) { size_t extra = static_cast<size_t>(o.c) % m.L; if (extra > 40) bps.push_back(extra); }
      for (size_t k = 0; k < 3; ++k) rep[k].lik->setBreakPoints(bps);
      m.bps = bps; if (!bps.empty()) ctx.probe("break-points-set");
      ctx.ok();
    } else if (o.k == "read") {
      doRead(static_cast<size_t>(o.c) % 3, o.a, o.b, o.d);
      ctx.fault("read-order");
    } else if (o.k == "tread") {
      checkTransition(*tMat, "standalone-transitions", static_cast<int>(o.a), currentP(tpar));
      ctx.fault("read-order"); ctx.outcome("read");
    } else if (o.k == "tset") {
      // whole-matrix setter of the full model, then reads in a plan-chosen order
      bpp::FullHmmTransitionMatrix* full = dynamic_cast<bpp::FullHmmTransitionMatrix*>(tMat.get());
      if (!full || m.n < 2) { ctx.outcome("skip"); return; }
      uint64_t z = static_cast<uint64_t>(o.b) * 2862933555777941757ULL + 3037000493ULL;
      bpp::RowMatrix<double> mat(m.n, m.n); std::vector<std::vector<LD>> P(m.n, std::vector<LD>(m.n));
      for (size_t i = 0; i < m.n; ++i) { double tot = 0; std::vector<double> r(m.n); for (size_t j = 0; j < m.n; ++j) { z = z * 6364136223846793005ULL + 1442695040888963407ULL; r[j] = 0.15 + static_cast<double>((z >> 20) & 0xffff) / 65536.0; tot += r[j]; }
        for (size_t j = 0; j < m.n; ++j) { mat(i, j) = r[j] / tot; } double acc = 0; for (size_t j = 0; j + 1 < m.n; ++j) acc += mat(i, j); mat(i, m.n - 1) = 1.0 - acc; for (size_t j = 0; j < m.n; ++j) P[i][j] = mat(i, j); }
      full->setTransitionProbabilities(mat);
      // tolerance: the simplex coordinates reproduce the row to rounding
      std::vector<std::vector<LD>> Pobs(m.n, std::vector<LD>(m.n));
      for (size_t i = 0; i < m.n; ++i) for (size_t j = 0; j < m.n; ++j) { double v = full->Pij(i, j); ctx.check(fabsl(v - P[i][j]) < 1e-12L, "model-mismatch:setTransitionProbabilities", "model-mismatch:setTransitionProbabilities:Pij", "Pij after setTransitionProbabilities"); Pobs[i][j] = v; }
      checkTransition(*tMat, "standalone-transitions-after-set", static_cast<int>(o.a), Pobs);
      resyncTpar();
      checkTransition(*tMat, "standalone-transitions-after-set", static_cast<int>(o.a + 1), currentP(tpar));
      ctx.probe("whole-matrix-set"); ctx.ok();
    } else if (o.k == "tcopy") {
      std::shared_ptr<bpp::HmmTransitionMatrix> c(tMat->clone());
      tMat = c;                                   // the source is destroyed: the copy must stand alone
      ctx.fault("peer-gone");
      checkTransition(*tMat, "standalone-transitions-copy", static_cast<int>(o.a), currentP(tpar));
      ctx.probe("transition-matrix-copied"); ctx.ok();
    } else if (o.k == "tassign") {
      if (m.transType == 2) { ctx.outcome("skip"); return; }
      std::shared_ptr<bpp::HmmTransitionMatrix> other = makeTrans(tAlph);
      bpp::ParameterList pl; std::map<std::string, double> opar;
      for (size_t q = 0; q < tnames.size(); ++q) { double x = o.x + 0.211 * static_cast<double>(q); x -= std::floor(x); double v = mapValue(tnames[q], x, false); pl.addParameter(bpp::Parameter(tnames[q], v)); opar[tnames[q]] = v; }
      other->matchParametersValues(pl);
      if (o.b & 1) other->getPij(); if (o.b & 2) other->getEquilibriumFrequencies();       // caches of the source in any state
      if (m.transType == 0) *dynamic_cast<bpp::FullHmmTransitionMatrix*>(tMat.get()) = *dynamic_cast<bpp::FullHmmTransitionMatrix*>(other.get());
      else *dynamic_cast<bpp::AutoCorrelationTransitionMatrix*>(tMat.get()) = *dynamic_cast<bpp::AutoCorrelationTransitionMatrix*>(other.get());
      other.reset(); ctx.fault("peer-gone");
      tpar = opar;
      checkTransition(*tMat, "standalone-transitions-assigned", static_cast<int>(o.a), currentP(tpar));
      ctx.probe("transition-matrix-assigned"); ctx.ok();
    } else ctx.fail("harness", "harness:unknown-op", o.k);
  }
};

class C13 : public Harness {
public:
  const char* id() const override { return "C13"; }
  HarnessInfo info() const override {
    HarnessInfo i;
    i.real = {"bpp::RescaledHmmLikelihood", "bpp::LowMemoryRescaledHmmLikelihood", "bpp::LogsumHmmLikelihood", "bpp::AbstractHmmLikelihood (derivative cache)", "bpp::FullHmmTransitionMatrix", "bpp::AutoCorrelationTransitionMatrix", "bpp::Simplex", "bpp::MatrixTools::pow", "bpp::ParameterList / AbstractParametrizable"};
    i.stub = {"SimAlphabet", "SimEmissions (position x state table, parameters theta and phi, analytic first/second emission derivatives)", "SimTransitions (table model with exact zeros and its own stationary vector)"};
    i.rule = "plans: seeded interleavings of broadcast parameter updates (single / bulk / match, with a rejected entry at a plan-chosen position), break-point changes and reads (log-likelihood, posteriors, per-site likelihoods, first/second derivatives, transition matrix / stationary vector in every query order) on a plan-chosen replica; non-trivial = >=3 accepted updates or break-point changes and >=1 read-order perturbation or rejected update; distinct = distinct fingerprint of the executed op-kind/outcome sequence";
    i.simTime = "steps (no clock in this component)";
    i.faultKinds = {"read-order", "reject@k", "peer-gone"};
    i.probeNames = {"path-enumeration-compared", "posterior-compared", "first-derivative-compared", "second-derivative-compared", "getPij-read-before-eqfreq", "break-points-set", "transition-parameter-updated", "long-sequence", "fresh-replica-compared", "replicas-share-components", "whole-matrix-set", "transition-matrix-copied", "transition-matrix-assigned"};
    i.assumptions = {"reads a class documents as unimplemented (NotImplementedException) are recorded and skipped",
                     "derivatives are taken with respect to emission parameters only (the interface differentiates through HmmEmissionProbabilities)",
                     "built-in transition models are driven with coordinates in [0.15,0.85] so that the chain mixes fast enough for the library's fixed 256-step power to reach the stationary vector to 1e-9",
                     "a one-state auto-correlation model is excluded (its documented off-diagonal formula divides by n-1)",
                     "break points are ascending positions in 1..L-1",
                     "when the three likelihoods share their component objects, derivative reads are skipped (a shared emission object holds the derivative table of one variable at a time) and reads only happen after an update has been broadcast to every handle"};
    i.tolerances["logL"] = "|a-b| <= 1e-9 + 1e-8*max(|a|,|b|) against a long-double reference";
    i.tolerances["posterior"] = "1e-8 + 64*eps*|logL|*sqrt(L) absolute (entries and row sums)";
    i.tolerances["derivatives"] = "1e-7 absolute + 1e-6 relative against exact forward-mode derivatives of the reference";
    i.tolerances["stationary"] = "|pi.P - pi| < 1e-9, |pi - reference| < 1e-8";
    return i;
  }
  long defaultRuns(Tier t) const override { return t == QUICK ? 8000 : 200000; }
  // regression prefix: configurations that exposed repaired defects only at rare seeds (same executor)
  long enumCount(Tier) const override { return 1; }
  Plan enumPlan(long, Tier) const override {
    // table transitions with zeros + emissions down to 1e-200 over 3130 positions: every predecessor of one state underflows relative to
    // the best state (found at VERIF_SEED=5: log-sum derivatives were NaN)
    Plan p; p.cfg["L"] = 3129; p.cfg["chunk"] = 0; p.cfg["emseed"] = 12988839; p.cfg["finalorder"] = 6; p.cfg["n"] = 3; p.cfg["shared"] = 0; p.cfg["trans"] = 2; p.cfg["wide"] = 1; p.cfg["enumerated"] = 1;
    Op o("read"); o.a = 5; o.b = 0; o.c = 2198; o.d = 0; p.ops.push_back(o);
    return p;
  }
  Plan generate(Rng& rng, Tier) const override {
    Plan p;
    p.cfg["n"] = rng.below(5);
    long L;
    switch (rng.below(10)) { case 0: L = rng.range(200, 5000); break; case 1: case 2: L = rng.range(13, 200); break; default: L = rng.range(1, 12); }
    p.cfg["L"] = L - 1;
    p.cfg["trans"] = rng.below(3);
    p.cfg["emseed"] = static_cast<long>(rng.next() & 0xffffff);
    p.cfg["wide"] = rng.chance(0.4) ? 1 : 0;
    p.cfg["chunk"] = rng.chance(0.3) ? rng.below(4) : rng.below(L + 1);
    p.cfg["finalorder"] = rng.below(1000);
    p.cfg["shared"] = rng.chance(0.3) ? 1 : 0;
    long n = L > 200 ? rng.range(3, 8) : rng.range(3, 25);
    std::vector<double> w = {3, 1, 5, 1.5, 0.5, 0.3, 0.4};
    for (auto& x : w) if (rng.chance(0.2)) x *= 2.5;
    static const char* K[] = {"upd", "bp", "read", "tread", "tset", "tcopy", "tassign"};
    for (long i = 0; i < n; ++i) {
      Op o(K[rng.weighted(w)]);
      o.a = rng.below(1 << 20); o.b = rng.below(1 << 20); o.c = rng.below(5000); o.d = rng.below(18);
      o.x = rng.unit();
      if (o.k == "read") { o.a = rng.below(9); if (rng.chance(0.35)) o.a = 5 + rng.below(2); o.b = rng.below(2); o.d = rng.below(5000); }
      if (o.k == "bp" && rng.chance(0.2)) { o.a = 0; o.b = 0; o.c = 0; }
      if (o.k == "tread" || o.k == "tset" || o.k == "tcopy" || o.k == "tassign") o.a = rng.below(6);
      p.ops.push_back(o);
    }
    return p;
  }
  void execute(const Plan& p, Ctx& ctx) const override {
    Exec e(p, ctx);
    try { e.run(); }
    catch (SimViolation&) { throw; }
    catch (bpp::Exception& ex) { ctx.fail("foreign-exception:bpp-unexpected", "foreign-exception:bpp-unexpected", ex.what()); }
    catch (std::exception& ex) { ctx.fail("foreign-exception:std", "foreign-exception:std", ex.what()); }
  }
  bool nontrivial(const Ctx& c) const override { return c.okSteps >= 3 && c.faultsFired >= 1; }
};

Registrar reg(new C13());

}  // namespace
