// Simulated storage world shared by the C16 (damaged storage) and C17 (fault-free round trip) harnesses.
// Part 1: documents, content generators (real library writers + a small documented-syntax writer for
// formats that have no library writer), storage faults, scratch directory for real files.
#ifndef DSIM_SIMSTORE_H
#define DSIM_SIMSTORE_H
#include "engine.h"
#include "simio.h"
#include <Bpp/Exceptions.h>
#include <Bpp/Io/OutputStream.h>
#include <Bpp/Io/FileTools.h>
#include <Bpp/Io/BppODiscreteDistributionFormat.h>
#include <Bpp/Io/BppOParametrizableFormat.h>
#include <Bpp/Numeric/DataTable.h>
#include <Bpp/Numeric/Parameter.h>
#include <Bpp/Numeric/ParameterList.h>
#include <Bpp/Numeric/AbstractParametrizable.h>
#include <Bpp/Numeric/Constraints.h>
#include <Bpp/Numeric/Prob/GammaDiscreteDistribution.h>
#include <Bpp/Numeric/Prob/BetaDiscreteDistribution.h>
#include <Bpp/Numeric/Prob/GaussianDiscreteDistribution.h>
#include <Bpp/Numeric/Prob/ExponentialDiscreteDistribution.h>
#include <Bpp/Numeric/Prob/TruncatedExponentialDiscreteDistribution.h>
#include <Bpp/Numeric/Prob/UniformDiscreteDistribution.h>
#include <Bpp/Numeric/Prob/ConstantDistribution.h>
#include <Bpp/Numeric/Prob/SimpleDiscreteDistribution.h>
#include <Bpp/Numeric/Prob/InvariantMixedDiscreteDistribution.h>
#include <Bpp/Numeric/Prob/MixtureOfDiscreteDistributions.h>
#include <dirent.h>
#include <fcntl.h>
#include <signal.h>
#include <sys/stat.h>
#include <unistd.h>
#include <cstdlib>
#include <fstream>
#include <iostream>
#include <memory>
#include <new>
#include <stdexcept>
#include <typeinfo>

namespace simstore {
using namespace dsim;

enum Kind { K_TABLE = 0, K_DIST, K_PFMT, K_PLIST, K_INTERVAL, K_OPT, K_CHAIN, K_KEYVAL, K_FORMULA, NKIND };
inline const char* kindName(int k) {
  static const char* N[] = {"table", "dist", "pfmt", "plist", "interval", "opt", "chain", "keyval", "formula"};
  return (k >= 0 && k < NKIND) ? N[k] : "?";
}

// ---------------------------------------------------------------- exception classification
inline const char* stdType(const std::exception& e) {
  if (dynamic_cast<const std::out_of_range*>(&e)) return "std::out_of_range";
  if (dynamic_cast<const std::length_error*>(&e)) return "std::length_error";
  if (dynamic_cast<const std::invalid_argument*>(&e)) return "std::invalid_argument";
  if (dynamic_cast<const std::domain_error*>(&e)) return "std::domain_error";
  if (dynamic_cast<const std::bad_alloc*>(&e)) return "std::bad_alloc";
  if (dynamic_cast<const std::bad_cast*>(&e)) return "std::bad_cast";
  if (dynamic_cast<const std::ios_base::failure*>(&e)) return "std::ios_base::failure";
  if (dynamic_cast<const std::logic_error*>(&e)) return "std::logic_error";
  if (dynamic_cast<const std::runtime_error*>(&e)) return "std::runtime_error";
  return "std::exception";
}

// ---------------------------------------------------------------- small helpers
struct NullBuf : std::streambuf { int_type overflow(int_type c) override { return traits_type::not_eof(c); } };
struct CoutMute {            // the option-file readers print progress lines to std::cout
  NullBuf nb; std::streambuf* old;
  CoutMute() { old = std::cout.rdbuf(&nb); }
  ~CoutMute() { std::cout.rdbuf(old); }
};

inline std::string word(Rng& r, const std::string& alpha, long lo, long hi) {
  std::string s; long n = r.range(lo, hi);
  for (long i = 0; i < n; ++i) s += alpha[static_cast<size_t>(r.below(static_cast<long>(alpha.size())))];
  return s;
}
inline std::string decimal(double v, int digits) { char b[64]; snprintf(b, sizeof b, "%.*f", digits, v); return b; }
inline double roundTo(double v, int digits) { return strtod(decimal(v, digits).c_str(), nullptr); }
inline std::vector<std::string> splitLines(const std::string& s) {   // lines without their '\n'; a trailing fragment counts
  std::vector<std::string> v; size_t b = 0;
  while (b < s.size()) { size_t e = s.find('\n', b); if (e == std::string::npos) { v.push_back(s.substr(b)); break; } v.push_back(s.substr(b, e - b)); b = e + 1; }
  return v;
}

// ---------------------------------------------------------------- storage faults (explicit operands)
// returns true when the stored bytes really changed
inline bool faultTorn(std::string& s, long d) { size_t cut = static_cast<size_t>(d) % (s.size() + 1); if (cut >= s.size()) return false; s.resize(cut); return true; }
inline bool faultLost(std::string& s) { if (s.empty()) return false; s.clear(); return true; }
inline bool faultShort(std::string& s, long d, long len) {
  if (s.empty()) return false;
  size_t off = static_cast<size_t>(d) % s.size(); size_t n = 1 + static_cast<size_t>(len < 0 ? -len : len) % 48;
  if (n > s.size() - off) n = s.size() - off;
  s.erase(off, n); return true;
}
inline bool faultFlip(std::string& s, long d, long mask) {
  if (s.empty()) return false;
  size_t off = static_cast<size_t>(d) % s.size(); unsigned char m = static_cast<unsigned char>(1 + (mask < 0 ? -mask : mask) % 255);
  s[off] = static_cast<char>(static_cast<unsigned char>(s[off]) ^ m); return true;
}
inline bool faultSet(std::string& s, long d, long byte) {     // overwrite one byte (a flip with a chosen result)
  if (s.empty()) return false;
  size_t off = static_cast<size_t>(d) % s.size(); char c = static_cast<char>(static_cast<unsigned char>(byte & 255));
  if (s[off] == c) return false;
  s[off] = c; return true;
}
inline bool faultDupLine(std::string& s, long d) {
  std::vector<std::string> L = splitLines(s); if (L.empty()) return false;
  bool nl = !s.empty() && s[s.size() - 1] == '\n';
  size_t k = static_cast<size_t>(d) % L.size(); L.insert(L.begin() + static_cast<long>(k), L[k]);
  std::string r; for (size_t i = 0; i < L.size(); ++i) { r += L[i]; if (i + 1 < L.size() || nl) r += '\n'; }
  s = r; return true;
}
inline bool faultDropLine(std::string& s, long d) {
  std::vector<std::string> L = splitLines(s); if (L.empty()) return false;
  bool nl = !s.empty() && s[s.size() - 1] == '\n';
  size_t k = static_cast<size_t>(d) % L.size(); L.erase(L.begin() + static_cast<long>(k));
  std::string r; for (size_t i = 0; i < L.size(); ++i) { r += L[i]; if (i + 1 < L.size() || nl) r += '\n'; }
  s = r; return true;
}
inline bool faultCrlf(std::string& s) {
  std::string r; bool ch = false;
  for (size_t i = 0; i < s.size(); ++i) { if (s[i] == '\n' && (i == 0 || s[i - 1] != '\r')) { r += '\r'; ch = true; } r += s[i]; }
  s = r; return ch;
}

// ---------------------------------------------------------------- scratch directory with real files
class Scratch {
  std::string dir_; int cwdFd_ = -1; std::vector<std::string> files_;
  static std::string base() { const char* e = getenv("DSIM_TMP"); return e ? std::string(e) : std::string("out/tmp"); }
  static void rmTree(const std::string& d) {
    DIR* dp = opendir(d.c_str()); if (!dp) return;
    while (struct dirent* de = readdir(dp)) { std::string n = de->d_name; if (n != "." && n != "..") unlink((d + "/" + n).c_str()); }
    closedir(dp); rmdir(d.c_str());
  }
  static void janitor() {       // once per process: remove directories left behind by processes that died inside a read
    static bool done = false; if (done) return; done = true;
    DIR* dp = opendir(base().c_str()); if (!dp) return;
    std::vector<std::string> stale;
    while (struct dirent* de = readdir(dp)) {
      std::string n = de->d_name;
      if (n.compare(0, 4, "sst-") != 0) continue;
      long pid = atol(n.c_str() + 4);
      if (pid > 0 && pid != getpid() && kill(static_cast<pid_t>(pid), 0) != 0) stale.push_back(base() + "/" + n);
    }
    closedir(dp);
    for (auto& s : stale) rmTree(s);
  }
public:
  bool ok = false;
  Scratch() {
    static long counter = 0;
    janitor();
    mkdir("out", 0755); mkdir(base().c_str(), 0755);
    dir_ = base() + "/sst-" + std::to_string(static_cast<long>(getpid())) + "-" + std::to_string(counter++);
    rmTree(dir_);
    ok = mkdir(dir_.c_str(), 0755) == 0;
  }
  void put(const std::string& name, const std::string& bytes) {
    std::ofstream f((dir_ + "/" + name).c_str(), std::ios::binary); f.write(bytes.data(), static_cast<std::streamsize>(bytes.size()));
    files_.push_back(name);
  }
  void enter() { if (cwdFd_ < 0) { cwdFd_ = open(".", O_RDONLY | O_DIRECTORY); if (chdir(dir_.c_str()) != 0) ok = false; } }
  void leave() { if (cwdFd_ >= 0) { if (fchdir(cwdFd_) != 0) {} close(cwdFd_); cwdFd_ = -1; } }
  ~Scratch() { leave(); rmTree(dir_); }
};

// ---------------------------------------------------------------- models of what was written
struct TableModel {
  bool hasCN = false, hasRN = false, align = false, viaOS = false, emptyCells = false;
  size_t nr = 0, nc = 0; int sep = 0;
  std::vector<std::string> cn, rn; std::vector<std::vector<std::string>> cells;   // row-major
  int uniqueCol = -1;        // a column whose values are unique (usable as row names on read), -1 if none
};
struct KeyvalModel { std::string name; std::map<std::string, std::string> args; bool nested2 = false; };
struct OptModel {
  std::map<std::string, std::string> map;     // as documented: whitespace-free name -> value
  bool cyclic = false, cComment = false, dupKeys = false, undefRef = false;
  bool dollarShape = false;    // a literal '$' stands directly in front of a reference whose expansion starts with '(': substitution itself forms a new reference
};
struct ParamModel { std::vector<std::string> names; std::vector<double> values; std::vector<std::string> cdesc; int prec = 6; };
struct IntervalModel { double lo = 0, hi = 0; bool il = true, ih = true; bool padded = false; int prec = 6; };

struct Doc {
  int kind = -1;
  std::vector<std::string> names, orig, stored;   // one or more files
  long faults = 0;
  TableModel t; KeyvalModel kv; OptModel opt; ParamModel pm; IntervalModel iv;
  std::shared_ptr<bpp::DiscreteDistributionInterface> dist; int distPrec = 6; bool distFree = false; long distAllow = 0; std::string distFamily;
  bool pristine() const { return faults == 0 && orig == stored; }
};

inline const std::vector<std::string>& tableSeps() { static const std::vector<std::string> S = {"\t", ",", ";", " ", "|"}; return S; }

// a harness-owned Parametrizable for BppOParametrizableFormat::write
class SimParams : public bpp::AbstractParametrizable {
public:
  explicit SimParams(const std::string& prefix) : bpp::AbstractParametrizable(prefix) {}
  SimParams* clone() const override { return new SimParams(*this); }
  void add(const std::string& n, double v) { addParameter_(new bpp::Parameter(getNamespace() + n, v)); }
};

// ---------------------------------------------------------------- writers
// Every writer returns false when the shape is not writable (-> the op is a skip).
class Writers {
public:
  // ---- table: real DataTable + DataTable::write (either overload)
  static bool table(Doc& d, uint64_t seed, long shape, bool strictDomain) {
    Rng r(seed);
    TableModel& t = d.t;
    t.nc = static_cast<size_t>(shape % 7); shape /= 7;
    t.nr = static_cast<size_t>(shape % 7); shape /= 7;
    t.hasCN = shape & 1; t.hasRN = shape & 2; t.align = shape & 4; t.viaOS = shape & 8; t.emptyCells = (shape & 16) && !strictDomain; shape >>= 5;
    t.sep = static_cast<int>(shape % static_cast<long>(tableSeps().size()));
    if (strictDomain) {
      if (t.nc == 0) t.nc = 1;
      if (t.hasRN && !t.hasCN) t.hasCN = true;
      size_t lines = t.nr + (t.hasCN ? 1 : 0);
      if (lines < 2) t.nr += 2 - lines;
    }
    if (t.hasRN && t.nr == 0) t.hasRN = false;        // the library represents "no row names" as an empty list
    if (t.hasCN && t.nc == 0) t.hasCN = false;
    const std::string& sep = tableSeps()[static_cast<size_t>(t.sep)];
    std::string alpha = "abcdXYZ0123456789._-+";
    bool spaces = sep != " " && r.chance(0.3);
    auto cell = [&]() {
      if (t.emptyCells && r.chance(0.15)) return std::string();
      std::string c = r.chance(0.3) ? decimal(r.real(-100, 100), static_cast<int>(r.below(4))) : word(r, alpha, 1, 6);
      if (spaces && r.chance(0.3)) c.insert(static_cast<size_t>(r.below(static_cast<long>(c.size()) + 1)), " ");
      return c;
    };
    try {
      bpp::DataTable dt(t.nr, t.nc);
      t.cells.assign(t.nr, std::vector<std::string>(t.nc));
      bool uniq = r.chance(0.5) && t.nc >= 2; t.uniqueCol = uniq ? static_cast<int>(r.below(static_cast<long>(t.nc))) : -1;
      for (size_t i = 0; i < t.nr; ++i) for (size_t j = 0; j < t.nc; ++j) {
        std::string c = cell();
        if (static_cast<int>(j) == t.uniqueCol) c = "u" + std::to_string(i) + word(r, "abc", 0, 2);
        t.cells[i][j] = c; dt(i, j) = c;
      }
      if (t.hasCN) { for (size_t j = 0; j < t.nc; ++j) t.cn.push_back(word(r, "ABCDEFxyz", 1, 4) + std::to_string(j)); dt.setColumnNames(t.cn); }
      if (t.hasRN) { for (size_t i = 0; i < t.nr; ++i) t.rn.push_back("r" + std::to_string(i) + word(r, "klm", 0, 3)); dt.setRowNames(t.rn); }
      SimOutBuf ob; std::ostream os(&ob);
      if (t.viaOS) { bpp::StlOutputStreamWrapper w(&os); bpp::DataTable::write(dt, w, sep, t.align); }
      else bpp::DataTable::write(dt, os, sep, t.align);
      os.flush();
      d.kind = K_TABLE; d.names = {"table.csv"}; d.orig = {ob.data};
    } catch (bpp::Exception&) { return false; }
    return true;
  }

  // ---- distribution: real objects + BppODiscreteDistributionFormat::writeDiscreteDistribution
  // allow: bit0 TruncExponential, bit1 Uniform, bit2 invariant class value 0.25 instead of the reader's built-in 1e-6
  // (each is the exact trigger of a confirmed defect; the generators set these bits only in their rare "risky" runs)
  static std::unique_ptr<bpp::DiscreteDistributionInterface> makeDist(Rng& r, long family, size_t n, int prec, bool freeValues, int depth, long allow) {
    using namespace bpp;
    family %= 10;
    if (family == 4 && !(allow & 1)) family = 3;
    if (family == 5 && !(allow & 2)) family = 0;
    switch (family) {
      case 0: return std::unique_ptr<DiscreteDistributionInterface>(new GammaDiscreteDistribution(n, roundTo(r.real(0.2, 10), 6), roundTo(r.real(0.2, 10), 6)));
      case 1: return std::unique_ptr<DiscreteDistributionInterface>(new GaussianDiscreteDistribution(n, roundTo(r.real(-5, 5), 6), roundTo(r.real(0.2, 5), 6)));
      case 2: return std::unique_ptr<DiscreteDistributionInterface>(new BetaDiscreteDistribution(n, roundTo(r.real(0.3, 8), 6), roundTo(r.real(0.3, 8), 6)));
      case 3: return std::unique_ptr<DiscreteDistributionInterface>(new ExponentialDiscreteDistribution(n, roundTo(r.real(0.2, 8), 6)));
      case 4: return std::unique_ptr<DiscreteDistributionInterface>(new TruncatedExponentialDiscreteDistribution(n, roundTo(r.real(0.2, 5), 6), roundTo(r.real(1, 20), 6)));
      case 5: { double a = roundTo(r.real(-5, 5), 3); return std::unique_ptr<DiscreteDistributionInterface>(new UniformDiscreteDistribution(static_cast<unsigned int>(n), a, a + roundTo(r.real(0.5, 10), 3))); }
      case 6: return std::unique_ptr<DiscreteDistributionInterface>(new ConstantDistribution(freeValues ? r.real(-10, 10) : roundTo(r.real(-10, 10), std::min(prec, 4))));
      case 7: {
        // Simple: values and probabilities exactly representable with `prec` decimals unless freeValues
        std::vector<double> v, p; int dg = std::min(prec, 4);
        long units = 1; for (int i = 0; i < dg; ++i) units *= 10;
        long left = units;
        for (size_t i = 0; i < n; ++i) {
          double x = roundTo(static_cast<double>(i) * 3.0 + r.real(0, 2.5), dg); v.push_back(x);
          long take = (i + 1 == n) ? left : std::max(1L, std::min(left - static_cast<long>(n - i - 1), r.range(1, std::max(1L, 2 * left / static_cast<long>(n - i)))));
          p.push_back(static_cast<double>(take) / static_cast<double>(units)); left -= take;
        }
        if (freeValues) { double s = 0; for (auto& x : p) { x = r.real(0.05, 1); s += x; } for (auto& x : p) x /= s; for (auto& x : v) x += r.real(0, 0.4); }
        return std::unique_ptr<DiscreteDistributionInterface>(new SimpleDiscreteDistribution(v, p));
      }
      case 8: {
        if (depth > 0) return makeDist(r, r.below(6), n, prec, freeValues, depth, allow);
        auto inner = makeDist(r, r.below(5), n, prec, freeValues, depth + 1, allow);
        std::unique_ptr<DiscreteDistributionInterface> d(new InvariantMixedDiscreteDistribution(std::move(inner), roundTo(r.real(0.05, 0.6), 6), (allow & 4) ? 0.25 : 0.000001));
        return d;
      }
      default: {
        if (depth > 0) return makeDist(r, r.below(6), n, prec, freeValues, depth, allow);
        size_t k = static_cast<size_t>(r.range(2, 3));
        std::vector<std::unique_ptr<DiscreteDistributionInterface>> comps; std::vector<double> pr;
        int dg = std::min(prec, 3); long units = 1; for (int i = 0; i < dg; ++i) units *= 10; long left = units;
        for (size_t i = 0; i < k; ++i) {
          comps.push_back(makeDist(r, r.below(6), std::max<size_t>(1, n / k), prec, freeValues, depth + 1, allow));
          long take = (i + 1 == k) ? left : std::max(1L, std::min(left - static_cast<long>(k - i - 1), r.range(1, left / 2 + 1)));
          pr.push_back(static_cast<double>(take) / static_cast<double>(units)); left -= take;
        }
        if (freeValues) { double s = 0; for (auto& x : pr) { x = r.real(0.1, 1); s += x; } for (auto& x : pr) x /= s; }
        return std::unique_ptr<DiscreteDistributionInterface>(new MixtureOfDiscreteDistributions(comps, pr));
      }
    }
  }
  static bool dist(Doc& d, uint64_t seed, long shape, long prec) {
    Rng r(seed);
    long family = shape % 10; size_t n = 1 + static_cast<size_t>((shape / 10) % 8); bool freeV = (shape / 80) & 1; long allow = (shape / 160) & 15;
    d.distAllow = allow;
    d.distPrec = static_cast<int>(3 + (prec < 0 ? -prec : prec) % 13);
    d.distFree = freeV;
    try {
      std::unique_ptr<bpp::DiscreteDistributionInterface> obj = makeDist(r, family, n, d.distPrec, freeV, 0, allow);
      SimOutBuf ob; std::ostream os(&ob); bpp::StlOutputStreamWrapper w(&os);
      w.setPrecision(d.distPrec);
      std::map<std::string, std::string> aliases; std::vector<std::string> written;
      bpp::BppODiscreteDistributionFormat fmt(false);
      fmt.writeDiscreteDistribution(*obj, w, aliases, written);
      w.endLine(); os.flush();
      d.distFamily = obj->getName();
      d.dist = std::move(obj);
      d.kind = K_DIST; d.names = {"dist.txt"}; d.orig = {ob.data};
    } catch (bpp::Exception&) { return false; }
    return true;
  }

  // ---- parameter lists: BppOParametrizableFormat::write and ParameterList::printParameters
  static bool pfmt(Doc& d, uint64_t seed, long shape) {
    Rng r(seed);
    size_t k = static_cast<size_t>(shape % 7); bool ns = (shape / 7) & 1; bool comma = (shape / 14) & 1;
    try {
      SimParams sp(ns ? "ns." : "");
      for (size_t i = 0; i < k; ++i) {
        std::string nm = word(r, "abcdkt", 1, 4) + std::to_string(i);
        double v = r.chance(0.2) ? static_cast<double>(r.range(-5, 5)) : (r.chance(0.15) ? r.logUniform(1e-15, 1e-9) : r.real(-1000, 1000));
        sp.add(nm, v); d.pm.names.push_back(nm); d.pm.values.push_back(v);
      }
      d.pm.prec = 12;
      SimOutBuf ob; std::ostream os(&ob); bpp::StlOutputStreamWrapper w(&os);
      std::vector<std::string> written; bpp::BppOParametrizableFormat f;
      if (comma) w << "head=1";
      f.write(sp, w, written, comma);
      w.endLine(); os.flush();
      if (comma) { d.pm.names.insert(d.pm.names.begin(), "head"); d.pm.values.insert(d.pm.values.begin(), 1.0); }
      d.kind = K_PFMT; d.names = {"params.txt"}; d.orig = {ob.data};
    } catch (bpp::Exception&) { return false; }
    return true;
  }
  static bool plist(Doc& d, uint64_t seed, long shape, long prec) {
    Rng r(seed);
    size_t k = static_cast<size_t>(shape % 7);
    d.pm.prec = static_cast<int>(3 + (prec < 0 ? -prec : prec) % 10);
    try {
      bpp::ParameterList pl;
      for (size_t i = 0; i < k; ++i) {
        std::string nm = word(r, "abcdkt.", 1, 5) + std::to_string(i);
        double v = roundTo(r.real(-50, 50), 3); std::string cd;
        std::shared_ptr<bpp::ConstraintInterface> c;
        if (r.chance(0.5)) {
          long kind = r.below(4);
          if (kind == 0) c.reset(new bpp::IntervalConstraint(v - 1, v + 2, r.chance(0.5), r.chance(0.5)));
          else if (kind == 1) c.reset(new bpp::IntervalConstraint(true, v - 1, r.chance(0.5)));
          else if (kind == 2) c.reset(new bpp::IntervalConstraint(false, v + 1, r.chance(0.5)));
          else c.reset(new bpp::IntervalConstraint(-100, 100, true, true));
          cd = c->getDescription();
        }
        pl.addParameter(bpp::Parameter(nm, v, c));
        d.pm.names.push_back(nm); d.pm.values.push_back(v); d.pm.cdesc.push_back(cd);
      }
      SimOutBuf ob; std::ostream os(&ob); bpp::StlOutputStreamWrapper w(&os);
      w.setPrecision(d.pm.prec);
      pl.printParameters(w); os.flush();
      d.kind = K_PLIST; d.names = {"plist.txt"}; d.orig = {ob.data};
    } catch (bpp::Exception&) { return false; }
    return true;
  }
  static bool interval(Doc& d, uint64_t seed, long shape) {
    Rng r(seed);
    IntervalModel& m = d.iv;
    m.il = shape & 1; m.ih = shape & 2; m.padded = shape & 4; long inf = (shape >> 3) % 4;
    m.lo = roundTo(r.real(-20, 20), 3); m.hi = m.lo + roundTo(r.real(0.5, 30), 3);
    std::string text;
    if (m.padded) {      // the library's own rendering
      std::unique_ptr<bpp::IntervalConstraint> c;
      if (inf == 1) c.reset(new bpp::IntervalConstraint(true, m.lo, m.il));
      else if (inf == 2) c.reset(new bpp::IntervalConstraint(false, m.hi, m.ih));
      else c.reset(new bpp::IntervalConstraint(m.lo, m.hi, m.il, m.ih));
      text = c->getDescription();
    } else {             // the documented compact syntax
      std::string lo = inf == 2 ? "-inf" : decimal(m.lo, 3), hi = inf == 1 ? ((shape & 64) ? "+inf" : "inf") : decimal(m.hi, 3);
      text = std::string(m.il ? "[" : "]") + lo + ";" + hi + (m.ih ? "]" : "[");
    }
    d.kind = K_INTERVAL; d.names = {"interval.txt"}; d.orig = {text + "\n"};
    return true;
  }

  // ---- key=value procedure (documented KeyvalTools syntax); one level of nesting (two when deep)
  static std::string kvValue(Rng& r, int depth, int maxDepth) {
    if (depth < maxDepth && r.chance(0.35)) {
      std::string s = word(r, "GHKTNabc", 1, 5) + "(";
      long n = r.below(4);
      for (long i = 0; i < n; ++i) { if (i) s += ","; s += word(r, "abcknp", 1, 3) + std::to_string(i) + "=" + kvValue(r, depth + 1, maxDepth); }
      return s + ")";
    }
    switch (r.below(4)) {
      case 0: return decimal(r.real(-10, 10), static_cast<int>(r.below(5)));
      case 1: return std::to_string(r.range(0, 999));
      case 2: return word(r, "abcxyz._-", 1, 6);
      default: return word(r, "abc", 1, 2) + "/" + word(r, "def.", 1, 4);
    }
  }
  static bool keyval(Doc& d, uint64_t seed, long shape) {
    Rng r(seed);
    KeyvalModel& m = d.kv;
    // bit 20 (set by no earlier plan): blanks around '=' as in hand-written descriptions, drawn from an own stream
    bool blanks = (shape >> 20) & 1; shape &= (1L << 20) - 1; Rng rb(seed ^ 0x626c616e6b73ULL);
    size_t n = static_cast<size_t>(shape % 7); bool sp = (shape / 7) & 1; m.nested2 = (shape / 14) & 1; bool bare = n == 0 && ((shape / 28) & 1);
    m.name = word(r, "GammaHKYTNx", 1, 6) + std::to_string(r.below(90));
    std::string text = m.name;
    if (!bare) {
      text += "(";
      for (size_t i = 0; i < n; ++i) {
        std::string k = word(r, "abcknpq", 1, 4) + std::to_string(i), v = kvValue(r, 0, m.nested2 ? 2 : 1);
        m.args[k] = v;
        if (i) text += sp ? ", " : ",";
        if (blanks) { static const char* EQ[] = {"=", " = ", " =", "= "}; text += k + EQ[rb.below(4)] + v; }
        else text += k + "=" + v;
      }
      text += ")";
    }
    d.kind = K_KEYVAL; d.names = {"proc.txt"}; d.orig = {text + "\n"};
    return true;
  }

  // ---- formula (ComputationTree documentation: + - * /, parentheses, exp, log, unary minus, constants)
  static std::string expr(Rng& r, int depth) {
    if (depth >= 3 || r.chance(0.3)) return r.chance(0.5) ? std::to_string(r.range(0, 20)) : decimal(r.real(0.1, 9), static_cast<int>(r.range(1, 3)));
    switch (r.below(7)) {
      case 0: return "(" + expr(r, depth + 1) + ")";
      case 1: return "exp(" + expr(r, depth + 1) + ")";
      case 2: return "log(" + expr(r, depth + 1) + ")";
      case 3: return "-" + expr(r, depth + 1);
      default: { static const char* O[] = {"+", "-", "*", "/"}; std::string sp = r.chance(0.3) ? " " : ""; return expr(r, depth + 1) + sp + O[r.below(4)] + sp + expr(r, depth + 1); }
    }
  }
  static bool formula(Doc& d, uint64_t seed, long) {
    Rng r(seed);
    d.kind = K_FORMULA; d.names = {"formula.txt"}; d.orig = {expr(r, 0) + "\n"};
    return true;
  }

  // ---- option file (AttributesTools documentation): name = value lines, #, // and /* */ comments,
  //      continuation lines, $(name) references
  static std::string optValue(Rng& r) {
    switch (r.below(9)) {
      case 0: return std::to_string(r.range(-50, 500));
      case 1: return decimal(r.real(-10, 10), static_cast<int>(r.range(1, 5)));
      case 2: { static const char* B[] = {"true", "false", "yes", "no", "T", "F", "1", "0", "Y", "n"}; return B[r.below(10)]; }
      case 3: { std::string s = "("; long n = r.below(5); for (long i = 0; i < n; ++i) { if (i) s += ","; s += std::to_string(r.range(0, 99)); } return s + ")"; }
      case 4: { std::string s; long n = r.range(1, 3); for (long i = 0; i < n; ++i) { if (i) s += ","; long a = r.range(0, 30); s += r.chance(0.6) ? std::to_string(a) + "-" + std::to_string(a + r.range(0, 9)) : std::to_string(a); } return r.chance(0.5) ? "(" + s + ")" : s; }
      case 5: { std::string s = "("; long n = r.range(1, 3); for (long i = 0; i < n; ++i) { if (i) s += ","; s += "("; long m = r.below(4); for (long j = 0; j < m; ++j) { if (j) s += ","; s += decimal(r.real(0, 5), 2); } s += ")"; } return s + ")"; }
      case 6: return word(r, "abc", 1, 3) + "/" + word(r, "defg", 1, 4) + "." + word(r, "tx", 1, 3);
      case 7: return kvValue(r, 0, 1);
      default: return word(r, "abcdefXYZ_*", 1, 8);
    }
  }
  // renders entries into text; the model map follows the documented reading (all blanks removed, later line wins)
  static std::string renderOpt(Rng& r, const std::vector<std::pair<std::string, std::string>>& entries, bool comments, bool cComment, bool continuations, const std::string& delim) {
    std::string text;
    if (comments && r.chance(0.5)) text += "# options written by the harness\n";
    for (auto& e : entries) {
      if (comments && r.chance(0.15)) text += r.chance(0.5) ? "\n" : "// a comment line\n";
      std::string v = e.second, line;
      std::string pre = r.chance(0.2) ? " " : "", mid1 = r.chance(0.3) ? " " : "", mid2 = r.chance(0.3) ? " " : "";
      if (continuations && v.size() >= 2 && r.chance(0.35)) {
        size_t cut = static_cast<size_t>(r.range(1, static_cast<long>(v.size()) - 1));
        line = pre + e.first + mid1 + delim + mid2 + v.substr(0, cut) + "\\\n" + (r.chance(0.6) ? "    " : "") + v.substr(cut);
      } else line = pre + e.first + mid1 + delim + mid2 + v;
      if (comments && r.chance(0.2)) line += r.chance(0.5) ? " # trailing" : " // trailing";
      else if (cComment && r.chance(0.3)) line += " /* block */";
      text += line + "\n";
    }
    return text;
  }
  static void optEntries(Rng& r, OptModel& m, std::vector<std::pair<std::string, std::string>>& entries, size_t n, bool refs, bool cyclic, bool undef, bool dup, const std::string& prefix) {
    std::vector<std::string> keys;
    for (size_t i = 0; i < n; ++i) keys.push_back(prefix + word(r, "abcdmnop._", 1, 5) + std::to_string(i));
    for (size_t i = 0; i < n; ++i) {
      std::string v = optValue(r);
      if (refs && r.chance(0.4)) {
        // references: acyclic = only to lower-numbered keys; cyclic = to any key, one or two references
        long nref = (cyclic && r.chance(0.4)) ? 2 : 1; std::string refsTxt;
        for (long q = 0; q < nref; ++q) {
          std::string target;
          if (undef && r.chance(0.3)) target = "nosuch" + std::to_string(r.below(3));
          else if (cyclic) target = keys[static_cast<size_t>(r.below(static_cast<long>(n)))];
          else if (i > 0) target = keys[static_cast<size_t>(r.below(static_cast<long>(i)))];
          if (!target.empty()) refsTxt += "$(" + target + ")";
        }
        if (!refsTxt.empty()) { long where = r.below(3); v = where == 0 ? refsTxt : (where == 1 ? word(r, "pq", 1, 2) + refsTxt : refsTxt + "." + word(r, "st", 1, 2)); if (refsTxt.find("nosuch") != std::string::npos) m.undefRef = true; }
      }
      entries.push_back(std::make_pair(keys[i], v));
      if (refs && !cyclic && !undef && i >= 2 && r.chance(0.12)) {
        // x = [text]$$(p)[text] with p = (b): replacing $(p) by "(b)" spells the new reference $(b) together with the literal '$'
        size_t j = static_cast<size_t>(r.range(1, static_cast<long>(i) - 1)), k = static_cast<size_t>(r.below(static_cast<long>(j)));
        entries[j].second = "(" + keys[k] + ")";
        std::string pre = r.chance(0.5) ? word(r, "pq", 1, 2) : "", post = r.chance(0.5) ? "." + word(r, "st", 1, 2) : "";
        entries[i].second = pre + "$$(" + keys[j] + ")" + post;
        m.dollarShape = true;
      }
    }
    if (dup && n >= 2) { entries.push_back(std::make_pair(keys[0], optValue(r))); m.dupKeys = true; }
    // file order is independent of the dependency order
    size_t lim = entries.size() - (m.dupKeys ? 1 : 0);    // the duplicate stays last so that "later line wins" is unambiguous
    for (size_t i = lim; i > 1; --i) { size_t j = static_cast<size_t>(r.below(static_cast<long>(i))); std::swap(entries[i - 1], entries[j]); }
    for (auto& e : entries) m.map[e.first] = e.second;
  }
  // ---- vector / sequence descriptions and a parameter grid (NumCalcApplicationTools): extra entries of an option file whose shape
  //      carries bit 20 (a bit no earlier plan sets; own generator stream, so the other entries are what they were without it)
  static std::string vecDesc(Rng& r) {
    auto num = [&](double lo, double hi) { return decimal(r.real(lo, hi), static_cast<int>(r.range(0, 2))); };
    long k = r.below(100);
    if (k < 30) { std::string s; long n = r.range(1, 5); for (long i = 0; i < n; ++i) { if (i) s += ","; s += num(-20, 20); } return s; }
    if (k < 88) {
      double from = r.real(-5, 5), span = r.real(0, 10);
      std::string s = "seq(from=" + decimal(from, 1) + ",to=" + decimal(from + span, 1);
      if (r.chance(0.55)) { static const char* ST[] = {"0.5", "1", "2", "0.25", "0.1", "3"}; s += std::string(",step=") + ST[r.below(6)]; }
      else s += ",size=" + std::to_string(r.range(1, 20));
      if (r.chance(0.3)) { static const char* SC[] = {"log", "exp", "10^"}; s += std::string(",scale=") + SC[r.below(3)]; }
      return s + ")";
    }
    // unusual but legal byte strings
    static const char* U[] = {"seq(from=0,to=1,step=0)", "seq(from=0,to=3,step=-1)", "seq(from=2,to=1,step=0.5)", "seq(from=0,to=1,size=0)", "seq(from=0,to=1,size=1)",
                              "seq", "seq(", "seq()", "se", "seq(from=1,to=2)", "seq(to=2,step=1)", "seq(from=1,step=1)", "seq(from=0,to=1,step=0.5,scale=sqrt)", "", ",", "1,,2", "seq(from=a,to=b,step=c)"};
    return U[r.below(17)];
  }
  static std::string intSeqDesc(Rng& r) {
    std::string s; long n = r.range(1, 4);
    for (long i = 0; i < n; ++i) { if (i) s += ","; long a = r.range(-5, 40); s += r.chance(0.5) ? std::to_string(a) + "-" + std::to_string(a + r.range(-3, 12)) : std::to_string(a); }
    if (r.chance(0.2)) { static const char* U[] = {"-", "3-", "-4", "1--2", "a-b", "1-2-3", ",", "", "1,-,2", "--", "7,-"}; s = U[r.below(11)]; }
    return s;
  }
  static void numcalcEntries(uint64_t seed, OptModel& m, std::vector<std::pair<std::string, std::string>>& entries) {
    Rng r(seed ^ 0x6e756d63616c63ULL);
    long k = r.range(1, 3);
    if (!r.chance(0.1)) entries.push_back(std::make_pair(std::string("grid.number_of_parameters"), r.chance(0.06) ? std::string("0") : std::to_string(k + (r.chance(0.1) ? 1 : 0))));
    for (long i = 1; i <= k; ++i) {
      if (!r.chance(0.08)) entries.push_back(std::make_pair("grid.parameter" + std::to_string(i) + ".name", word(r, "abcxyz.", 1, 5)));
      if (!r.chance(0.08)) entries.push_back(std::make_pair("grid.parameter" + std::to_string(i) + ".values", vecDesc(r)));
    }
    long extra = r.range(0, 2);
    for (long i = 0; i < extra; ++i) entries.push_back(std::make_pair("vec" + std::to_string(i), r.chance(0.5) ? vecDesc(r) : intSeqDesc(r)));
    for (auto& e : entries) m.map[e.first] = e.second;
  }
  static bool opt(Doc& d, uint64_t seed, long shape) {
    Rng r(seed);
    OptModel& m = d.opt;
    bool numcalc = (shape >> 20) & 1; shape &= (1L << 20) - 1;
    size_t n = static_cast<size_t>(shape % 9); shape /= 9;
    bool refs = shape & 1, comments = shape & 2, cont = shape & 4; m.cyclic = (shape & 8) && refs; m.cComment = shape & 16; bool undef = shape & 32, dup = shape & 64;
    std::vector<std::pair<std::string, std::string>> entries;
    optEntries(r, m, entries, n, refs, m.cyclic, undef, dup, "");
    if (numcalc) numcalcEntries(seed, m, entries);
    d.kind = K_OPT; d.names = {"main.opt"}; d.orig = {renderOpt(r, entries, comments, m.cComment, cont, "=")};
    return true;
  }
  // ---- include chain: main.opt -> inc1.opt -> inc2.opt ..., with optional cycle / multiple includes / missing file
  static bool chain(Doc& d, uint64_t seed, long shape) {
    Rng r(seed);
    size_t nf = 2 + static_cast<size_t>(shape % 3); shape /= 3;
    long topo = shape % 6; shape /= 6;       // 0 linear 1 cycle back to main 2 self include 3 fan-out from main 4 missing file 5 duplicate include
    bool refs = shape & 1, comments = shape & 2;
    d.kind = K_CHAIN; d.names.clear(); d.orig.clear();
    for (size_t f = 0; f < nf; ++f) d.names.push_back(f == 0 ? "main.opt" : "inc" + std::to_string(f) + ".opt");
    for (size_t f = 0; f < nf; ++f) {
      OptModel tmp; std::vector<std::pair<std::string, std::string>> entries;
      optEntries(r, tmp, entries, static_cast<size_t>(r.range(1, 4)), refs, false, false, false, "f" + std::to_string(f));
      for (auto& e : tmp.map) if (!d.opt.map.count(e.first)) d.opt.map[e.first] = e.second;
      std::string inc;
      if (topo == 3) { if (f == 0) for (size_t g = 1; g < nf; ++g) inc += (g > 1 ? "," : "") + d.names[g]; }
      else if (f + 1 < nf) inc = d.names[f + 1];
      else if (topo == 1) inc = d.names[0];
      else if (topo == 2) inc = d.names[f];
      else if (topo == 4) inc = "absent.opt";
      else if (topo == 5) inc = d.names[nf - 1] + "," + d.names[0];
      if (!inc.empty()) entries.insert(entries.begin() + r.below(static_cast<long>(entries.size()) + 1), std::make_pair(std::string("param"), inc));
      d.orig.push_back(renderOpt(r, entries, comments, false, false, "="));
    }
    d.opt.cyclic = (topo == 1 || topo == 2 || topo == 5); d.opt.undefRef = topo == 4;
    return true;
  }
};

}  // namespace simstore
#endif
