// C01 — a constrained parameter never holds a value its constraint rejects.
// World (real code): Parameter, AutoParameter, IntervalConstraint, ParameterList, AbstractParametrizable,
// plus library-created parameters of distributions audited through hook H1.
// Stub: SimOutBuf behind the AutoParameter message handler.
// Actors: a pool of parameter objects ("cells") reached directly, through two lists (cloned or shared entries)
// and through an owning object; a pool of constraint objects shared between cells.
#include "engine.h"
#include "simio.h"
#include <Bpp/Numeric/Parameter.h>
#include <Bpp/Numeric/AutoParameter.h>
#include <Bpp/Numeric/ParameterList.h>
#include <Bpp/Numeric/AbstractParametrizable.h>
#include <Bpp/Numeric/Prob/GammaDiscreteDistribution.h>
#include <Bpp/Numeric/Prob/BetaDiscreteDistribution.h>
#include <Bpp/Numeric/Prob/GaussianDiscreteDistribution.h>
#include <Bpp/Numeric/Prob/ExponentialDiscreteDistribution.h>
#include <Bpp/Numeric/Prob/TruncatedExponentialDiscreteDistribution.h>
#include <Bpp/Numeric/Prob/UniformDiscreteDistribution.h>
#include <Bpp/Numeric/Prob/Simplex.h>
#include <Bpp/Io/OutputStream.h>
#include <limits>
#include <memory>
#include <ostream>

using namespace dsim;

namespace {

const double INF = std::numeric_limits<double>::infinity();

struct MInt {                       // mathematical interval
  double lo = -INF, hi = INF; bool il = true, ih = true;
  bool accepts(double x) const { return (il ? x >= lo : x > lo) && (ih ? x <= hi : x < hi); }
  bool empty() const { return lo > hi || (lo == hi && !(il && ih)); }
  bool includes(double a, double b) const { return (il ? a >= lo : a > lo) && (ih ? b <= hi : b < hi); }
  double width() const { return hi - lo; }
  std::string str() const { return std::string(il ? "[" : "]") + fmtd(lo) + ";" + fmtd(hi) + (ih ? "]" : "["); }
};
MInt meet(const MInt& a, const MInt& b) {
  MInt r;
  if (a.lo > b.lo) { r.lo = a.lo; r.il = a.il; } else if (b.lo > a.lo) { r.lo = b.lo; r.il = b.il; } else { r.lo = a.lo; r.il = a.il && b.il; }
  if (a.hi < b.hi) { r.hi = a.hi; r.ih = a.ih; } else if (b.hi < a.hi) { r.hi = b.hi; r.ih = b.ih; } else { r.hi = a.hi; r.ih = a.ih && b.ih; }
  return r;
}

struct PoolC { std::shared_ptr<bpp::IntervalConstraint> obj; MInt m; };
struct Cell {
  std::shared_ptr<bpp::Parameter> obj; bool isAuto = false; std::string name; double v = 0; int c = -1; double prec = 0;
};

class SimOwner : public bpp::AbstractParametrizable {
public:
  long fired = 0;
  SimOwner() : bpp::AbstractParametrizable("") {}
  SimOwner* clone() const override { return new SimOwner(*this); }
  void share(const std::shared_ptr<bpp::Parameter>& p) { shareParameter_(p); }
  void fireParameterChanged(const bpp::ParameterList&) override { ++fired; }
  bpp::ParameterList& plist() { return getParameters_(); }
};

const size_t MAXCELLS = 10, MAXPOOL = 8;

struct World {
  std::vector<PoolC> pool;
  std::vector<Cell> cells;
  std::vector<std::unique_ptr<bpp::ParameterList>> lists;   // lists[0], lists[1]; the owner's list is modelled as index 2
  std::vector<std::vector<int>> entries;                     // cell index per position, for lists 0,1 and owner (2)
  SimOwner owner;
  SimOutBuf msgBuf; std::ostream msgStream; std::shared_ptr<bpp::OutputStream> msgHandler;
  long nameCounter = 0;
  World() : msgStream(&msgBuf), msgHandler(new bpp::StlOutputStreamWrapper(&msgStream)) {
    lists.emplace_back(new bpp::ParameterList()); lists.emplace_back(new bpp::ParameterList());
    entries.resize(3);
  }
  bpp::ParameterList& L(size_t l) { return l < 2 ? *lists[l] : owner.plist(); }
  bool attached(int c) const { for (auto& x : cells) if (x.c == c) return true; return false; }
};

// value alphabet relative to an interval: every order type of {bounds, value}
double alphabetValue(const MInt* m, long code, double raw) {
  double lo = m ? m->lo : -1, hi = m ? m->hi : 1;
  bool flo = std::isfinite(lo), fhi = std::isfinite(hi);
  double w = (flo && fhi && hi > lo) ? hi - lo : 1.0;
  double d = 0.25 * w;
  switch (code % 14) {
    case 0: return raw;
    case 1: return flo ? lo - d : -1e3;
    case 2: return flo ? lo : -999.5;
    case 3: return flo ? lo + d : (fhi ? hi - 3 : 0.5);
    case 4: return (flo && fhi) ? 0.5 * (lo + hi) : (flo ? lo + 1 : (fhi ? hi - 1 : 0.25));
    case 5: return fhi ? hi - d : (flo ? lo + 3 : -0.5);
    case 6: return fhi ? hi : 999.5;
    case 7: return fhi ? hi + d : 1e3;
    case 8: return 0;
    case 9: return 1e3;
    case 10: return -1e3;
    case 11: return flo ? lo + 1e-12 : raw;
    case 12: return fhi ? hi - 1e-12 : raw;
    default: return flo ? lo - 1e-12 : (fhi ? hi + 1e-12 : raw);
  }
}
const double BOUNDS[] = {-INF, -2, -1, -0.5, 0, 0.5, 1, 2, 1000, INF};
const char* BOUNDLIT[] = {"-inf", "-2", "-1", "-0.5", "0", "0.5", "1", "2", "1000", "inf"};

class Exec {
  const Plan& p; Ctx& ctx; World w;
public:
  Exec(const Plan& pl, Ctx& c) : p(pl), ctx(c), w() {}

  void fail(const std::string& cls, const std::string& d) { ctx.fail(cls, cls, d); }

  void checkConstraintObj(const PoolC& pc, const std::string& what) {
    // membership on the alphabet of its own bounds
    for (long code = 1; code < 14; ++code) {
      double x = alphabetValue(&pc.m, code, 0.3);
      if (pc.obj->isCorrect(x) != pc.m.accepts(x)) fail("model-mismatch:isCorrect", what + " " + pc.m.str() + " isCorrect(" + fmtd(x) + ")=" + (pc.obj->isCorrect(x) ? "true" : "false"));
    }
    bool infEq = pc.m.lo == pc.m.hi && !std::isfinite(pc.m.lo);
    if (!infEq && pc.obj->isEmpty() != pc.m.empty()) fail("model-mismatch:isEmpty", what + " " + pc.m.str() + " isEmpty()=" + (pc.obj->isEmpty() ? "true" : "false"));
  }

  void invariants() {
    if (g_audit.offences) ctx.fail("invariant:audit", "invariant:audit:" + g_audit.first.substr(0, g_audit.first.find(' ')), "hook H1: a parameter holds a value its constraint rejects after " + g_audit.first);
    uint64_t sh = 0x51;
    for (size_t i = 0; i < w.cells.size(); ++i) {
      Cell& c = w.cells[i];
      std::string nm = "cell" + std::to_string(i);
      double v = c.obj->getValue();
      if (c.obj->hasConstraint() && !c.obj->getConstraint()->isCorrect(v)) fail("invariant:value-in-constraint", nm + " holds " + fmtd(v) + " rejected by its constraint " + c.obj->getConstraint()->getDescription());
      if (c.c >= 0 && !w.pool[static_cast<size_t>(c.c)].m.accepts(v)) fail("invariant:value-in-model-constraint", nm + " holds " + fmtd(v) + " outside " + w.pool[static_cast<size_t>(c.c)].m.str());
      if (!(v == c.v)) fail("model-mismatch:value", nm + " value " + fmtd(v) + " model " + fmtd(c.v));
      const bpp::ConstraintInterface* have = c.obj->getConstraint().get();
      const bpp::ConstraintInterface* want = c.c >= 0 ? w.pool[static_cast<size_t>(c.c)].obj.get() : nullptr;
      if (have != want) fail("model-mismatch:constraint-identity", nm + " carries a different constraint object than the model (model " + (c.c >= 0 ? w.pool[static_cast<size_t>(c.c)].m.str() : std::string("none")) + ")");
      if (c.obj->getName() != c.name) fail("model-mismatch:name", nm + " name " + c.obj->getName() + " model " + c.name);
      sh = sh * 1099511628211ULL ^ strHash(hexfloat(v)) ^ static_cast<uint64_t>(c.c + 7);
    }
    for (size_t l = 0; l < 3; ++l) {
      bpp::ParameterList& L = w.L(l);
      if (L.size() != w.entries[l].size()) fail("model-mismatch:list-size", "list" + std::to_string(l) + " size " + std::to_string(L.size()) + " model " + std::to_string(w.entries[l].size()));
      for (size_t i = 0; i < L.size(); ++i)
        if (L.getParameter(i).get() != w.cells[static_cast<size_t>(w.entries[l][i])].obj.get()) fail("model-mismatch:list-entry", "list" + std::to_string(l) + " entry " + std::to_string(i) + " is not the modelled parameter object");
    }
    ctx.state(sh);
  }

  int newCell(const std::shared_ptr<bpp::Parameter>& obj, bool isAuto, const std::string& name, double v, int c, double prec) {
    Cell x; x.obj = obj; x.isAuto = isAuto; x.name = name; x.v = v; x.c = c; x.prec = prec;
    w.cells.push_back(x);
    return static_cast<int>(w.cells.size() - 1);
  }
  bool okForAuto(int c) const { if (c < 0) return true; const MInt& m = w.pool[static_cast<size_t>(c)].m; return !m.empty() && m.width() >= 1e-9; }

  // model of Parameter::setValue on a cell (documented behaviour); returns expected outcome: 0 accepted/no-op, 1 ConstraintException
  int modelSet(Cell& c, double x, double& newV) {
    newV = c.v;
    if (!(std::abs(x - c.v) > c.prec / 2)) return 0;            // inside the precision: ignored
    if (c.c < 0 || w.pool[static_cast<size_t>(c.c)].m.accepts(x)) { newV = x; return 0; }
    return 1;
  }

  // executes `call`, classifies the outcome; expect: 0 returns, 1 ConstraintException, 2 ParameterNotFoundException, 3 ParameterException (other bpp), 4 = 1 or 2
  template <class F> int attempt(F call) {
    try { call(); return 0; }
    catch (bpp::ConstraintException&) { return 1; }
    catch (bpp::ParameterNotFoundException&) { return 2; }
    catch (bpp::Exception&) { return 3; }
    catch (std::exception& e) { ctx.fail("foreign-exception:std", "foreign-exception:std", e.what()); }
    return -1;
  }
  void expectOutcome(int got, int want, const std::string& op) {
    static const char* N[] = {"returns", "ConstraintException", "ParameterNotFoundException", "bpp::Exception", "Constraint-or-NotFound"};
    bool ok = got == want || (want == 4 && (got == 1 || got == 2));
    if (!ok) ctx.fail("model-mismatch:" + op, "model-mismatch:" + op + ":" + N[want] + "-expected", op + ": expected " + N[want] + ", observed " + N[got]);
    if (got == 0) ctx.ok(); else { ctx.rejected(); ctx.fault("reject@k"); }
  }

  void autoCheck(Cell& c, double x) {
    // AutoParameter: accepted value nearest to the request
    double v = c.obj->getValue();
    if (c.prec > 0) {
      // a precision window (inherited through assignment) makes small moves documented no-ops: only acceptance is asserted
      if (c.c >= 0 && !w.pool[static_cast<size_t>(c.c)].m.accepts(v)) fail("invariant:value-in-model-constraint", "auto parameter ended on " + fmtd(v) + " outside its constraint");
      c.v = v; return;
    }
    if (c.c < 0) { if (v != x) fail("model-mismatch:auto-unconstrained", "auto parameter without constraint did not take the request"); c.v = v; return; }
    const MInt& m = w.pool[static_cast<size_t>(c.c)].m;
    if (!m.accepts(v)) fail("invariant:value-in-model-constraint", "auto parameter ended on " + fmtd(v) + " outside " + m.str());
    if (m.accepts(x)) { if (v != x) fail("model-mismatch:auto-accepted-request", "request " + fmtd(x) + " accepted by " + m.str() + " but value is " + fmtd(v)); }
    else {
      double nearest = x <= m.lo ? m.lo : m.hi;
      double prec = w.pool[static_cast<size_t>(c.c)].obj->getPrecision();
      if (!(std::abs(v - nearest) <= 2 * prec + 1e-15)) fail("model-mismatch:auto-nearest", "request " + fmtd(x) + " on " + m.str() + " ended on " + fmtd(v) + ", nearest accepted is about " + fmtd(nearest));
      bool open = x <= m.lo ? !m.il : !m.ih;
      if (!open && v != nearest) fail("model-mismatch:auto-nearest", "closed bound " + fmtd(nearest) + " not taken exactly: " + fmtd(v));
      ctx.probe("auto-corrected"); ctx.fault("reject@k");
    }
    c.v = v;
  }

  void run() {
    // initial constraint pool: a few canonical intervals
    for (int i = 0; i < 3; ++i) {
      PoolC pc; static const MInt init[3] = {{0, INF, false, false}, {0, 1, true, true}, {-1, 2, false, true}};
      pc.m = init[i]; pc.obj.reset(new bpp::IntervalConstraint(pc.m.lo, pc.m.hi, pc.m.il, pc.m.ih));
      w.pool.push_back(pc);
    }
    int streamMode = static_cast<int>(p.geti("stream"));    // 0 recording, 1 null handler, 2 failing after k bytes
    if (streamMode == 2) { w.msgBuf.failAfter = p.geti("failAfter", 10); }
    for (size_t i = 0; i < p.ops.size(); ++i) {
      const Op& o = p.ops[i];
      ctx.beginStep(static_cast<long>(i), o);
      step(o, streamMode);
      invariants();
    }
    if (w.msgBuf.refused) ctx.fault("stream-fail");
  }

  void step(const Op& o, int streamMode) {
    size_t nc = w.cells.size(), np = w.pool.size();
    if (o.k == "new") {
      if (nc >= MAXCELLS) { ctx.outcome("skip"); return; }
      int c = static_cast<int>(o.b % static_cast<long>(np + 1)) - 1;
      bool isAuto = o.c % 3 == 0;
      if (isAuto && !okForAuto(c)) c = -1;
      const MInt* m = c >= 0 ? &w.pool[static_cast<size_t>(c)].m : nullptr;
      double x = alphabetValue(m, o.d, o.x);
      double prec = isAuto ? 0 : o.y;
      std::string name = "p" + std::to_string(w.nameCounter++);
      std::shared_ptr<bpp::ConstraintInterface> cobj; if (c >= 0) cobj = w.pool[static_cast<size_t>(c)].obj;
      std::shared_ptr<bpp::Parameter> obj;
      int got = attempt([&] { if (isAuto) { auto ap = std::make_shared<bpp::AutoParameter>(name, x, cobj); if (streamMode == 1) ap->setMessageHandler(nullptr); else ap->setMessageHandler(w.msgHandler); obj = ap; } else obj = std::make_shared<bpp::Parameter>(name, x, cobj, prec); });
      int want = (m && !m->accepts(x)) ? 1 : 0;
      if (x == 0 && want == 1) ctx.probe("construct-zero-excluded");
      if (got == 0 && want == 1) {
        // constructed although the constraint rejects the value
        ctx.fail("model-mismatch:construct", std::string("model-mismatch:construct:accepted-rejected-value") + (x == 0 ? ":zero" : ""), "Parameter(" + name + ", " + fmtd(x) + ", " + m->str() + ") was constructed");
      }
      expectOutcome(got, want, "construct");
      if (got == 0) newCell(obj, isAuto, name, x, c, prec < 0 ? 0 : prec);
    } else if (o.k == "copy") {
      if (nc == 0 || nc >= MAXCELLS) { ctx.outcome("skip"); return; }
      Cell& s = w.cells[static_cast<size_t>(o.a) % nc];
      std::shared_ptr<bpp::Parameter> obj(s.obj->clone());
      std::string name = "p" + std::to_string(w.nameCounter++);
      obj->setName(name);
      newCell(obj, s.isAuto, name, s.v, s.c, s.prec);
      ctx.ok();
    } else if (o.k == "assign") {
      if (nc < 2) { ctx.outcome("skip"); return; }
      size_t a = static_cast<size_t>(o.a) % nc, b = static_cast<size_t>(o.b) % nc;
      Cell& d = w.cells[a]; Cell& s = w.cells[b];
      if (d.isAuto && !okForAuto(s.c)) { ctx.outcome("skip"); return; }
      bpp::AutoParameter* da = dynamic_cast<bpp::AutoParameter*>(d.obj.get()); bpp::AutoParameter* sa = dynamic_cast<bpp::AutoParameter*>(s.obj.get());
      if (da && sa && (o.c & 1)) { *da = *sa; ctx.probe("auto-parameter-assignment"); }     // the auto-correcting variant's own assignment (also carries the message handler)
      else *d.obj = *s.obj;            // copies name, value, precision, constraint
      invariantsAfterAssignName(d, s);
      d.v = s.v; d.c = s.c; d.prec = s.prec;
      ctx.ok();
    } else if (o.k == "set") {
      if (nc == 0) { ctx.outcome("skip"); return; }
      Cell& c = w.cells[static_cast<size_t>(o.a) % nc];
      const MInt* m = c.c >= 0 ? &w.pool[static_cast<size_t>(c.c)].m : nullptr;
      double x = alphabetValue(m, o.b, o.x);
      if (c.isAuto) {
        int got = attempt([&] { c.obj->setValue(x); });
        if (got != 0) ctx.fail("model-mismatch:auto-raised", "model-mismatch:auto-raised", "AutoParameter::setValue(" + fmtd(x) + ") raised on " + (m ? m->str() : std::string("none")));
        autoCheck(c, x);
        ctx.ok();
      } else {
        double nv; int want = modelSet(c, x, nv);
        int got = attempt([&] { c.obj->setValue(x); });
        expectOutcome(got, want, "setValue");
        c.v = nv;
      }
    } else if (o.k == "setc") {
      if (nc == 0) { ctx.outcome("skip"); return; }
      Cell& c = w.cells[static_cast<size_t>(o.a) % nc];
      int k = static_cast<int>(o.b % static_cast<long>(np + 1)) - 1;
      if (c.isAuto && !okForAuto(k)) { ctx.outcome("skip"); return; }
      std::shared_ptr<bpp::ConstraintInterface> cobj; if (k >= 0) cobj = w.pool[static_cast<size_t>(k)].obj;
      int want = (k >= 0 && !w.pool[static_cast<size_t>(k)].m.accepts(c.v)) ? 1 : 0;
      int got = attempt([&] { c.obj->setConstraint(cobj); });
      expectOutcome(got, want, "setConstraint");
      if (got == 0) c.c = k;
    } else if (o.k == "rmc") {
      if (nc == 0) { ctx.outcome("skip"); return; }
      Cell& c = w.cells[static_cast<size_t>(o.a) % nc];
      std::shared_ptr<bpp::ConstraintInterface> old = c.obj->removeConstraint();
      const bpp::ConstraintInterface* want = c.c >= 0 ? w.pool[static_cast<size_t>(c.c)].obj.get() : nullptr;
      if (old.get() != want) fail("model-mismatch:removeConstraint", "removeConstraint returned a different object");
      c.c = -1;
      ctx.ok();
    } else if (o.k == "prec") {
      if (nc == 0) { ctx.outcome("skip"); return; }
      Cell& c = w.cells[static_cast<size_t>(o.a) % nc];
      if (c.isAuto) { ctx.outcome("skip"); return; }
      c.obj->setPrecision(o.y); c.prec = o.y < 0 ? 0 : o.y;
      if (c.obj->getPrecision() != c.prec) fail("model-mismatch:precision", "precision");
      ctx.ok();
    } else if (o.k == "ladd" || o.k == "lshare") {
      if (nc == 0) { ctx.outcome("skip"); return; }
      size_t l = static_cast<size_t>(o.b) % 3, a = static_cast<size_t>(o.a) % nc;
      Cell& c = w.cells[a];
      bool has = false; int hasIdx = -1;
      for (int e : w.entries[l]) if (w.cells[static_cast<size_t>(e)].name == c.name) { has = true; hasIdx = e; }
      if (o.k == "ladd") {
        if (l == 2 || nc >= MAXCELLS) { ctx.outcome("skip"); return; }
        int got = attempt([&] { w.L(l).addParameter(*c.obj); });
        expectOutcome(got, has ? 3 : 0, "addParameter");
        if (got == 0) { int ni = newCell(w.L(l).getParameter(w.L(l).size() - 1), c.isAuto, c.name, c.v, c.c, c.prec); w.entries[l].push_back(ni); }
      } else {
        if (has) {
          // sharing a name already present turns into a value update of the present entry
          Cell& t = w.cells[static_cast<size_t>(hasIdx)];
          if (t.isAuto) {
            int got = attempt([&] { if (l == 2) w.owner.share(c.obj); else w.L(l).shareParameter(c.obj); });
            if (got != 0) ctx.fail("model-mismatch:auto-raised", "model-mismatch:auto-raised", "share onto auto parameter raised");
            autoCheck(t, c.v); ctx.ok();
          } else {
            double nv; int want = modelSet(t, c.v, nv);
            int got = attempt([&] { if (l == 2) w.owner.share(c.obj); else w.L(l).shareParameter(c.obj); });
            expectOutcome(got, want, "shareParameter-update");
            t.v = nv;
          }
          ctx.probe("share-became-update");
        } else {
          if (l == 2) w.owner.share(c.obj); else w.L(l).shareParameter(c.obj);
          w.entries[l].push_back(static_cast<int>(a));
          ctx.ok();
        }
      }
    } else if (o.k == "lsetv") {
      size_t l = static_cast<size_t>(o.a) % 3;
      if (w.entries[l].empty()) {
        int got = attempt([&] { w.L(l).setParameterValue("nosuch", o.x); });
        expectOutcome(got, 2, "list-setParameterValue-absent");
        return;
      }
      Cell& c = w.cells[static_cast<size_t>(w.entries[l][static_cast<size_t>(o.b) % w.entries[l].size()])];
      const MInt* m = c.c >= 0 ? &w.pool[static_cast<size_t>(c.c)].m : nullptr;
      double x = alphabetValue(m, o.c, o.x);
      auto call = [&] { if (l == 2) w.owner.setParameterValue(c.name, x); else w.L(l).setParameterValue(c.name, x); };
      if (c.isAuto) {
        int got = attempt(call);
        if (got != 0) ctx.fail("model-mismatch:auto-raised", "model-mismatch:auto-raised", "list-level set on auto parameter raised");
        autoCheck(c, x); ctx.ok();
      } else {
        double nv; int want = modelSet(c, x, nv);
        int got = attempt(call);
        expectOutcome(got, want, l == 2 ? "owner-setParameterValue" : "list-setParameterValue");
        c.v = nv;
      }
    } else if (o.k == "lbulk") {
      bulkValues(o);
    } else if (o.k == "lsetp") {
      bulkObjects(o);
    } else if (o.k == "osetc") {
      if (w.entries[2].empty()) { int got = attempt([&] { w.owner.removeConstraint("nosuch"); }); expectOutcome(got, 2, "owner-removeConstraint-absent"); return; }
      Cell& c = w.cells[static_cast<size_t>(w.entries[2][static_cast<size_t>(o.a) % w.entries[2].size()])];
      int k = static_cast<int>(o.b % static_cast<long>(np + 1)) - 1;
      if (c.isAuto && !okForAuto(k)) { ctx.outcome("skip"); return; }
      if (k < 0) { w.owner.removeConstraint(c.name); c.c = -1; ctx.ok(); return; }
      int want = w.pool[static_cast<size_t>(k)].m.accepts(c.v) ? 0 : 1;
      int got = attempt([&] { w.owner.setConstraint(c.name, w.pool[static_cast<size_t>(k)].obj); });
      expectOutcome(got, want, "owner-setConstraint");
      if (got == 0) c.c = k;
    } else if (o.k == "cnew") {
      constraintNew(o);
    } else if (o.k == "cand") {
      constraintAnd(o);
    } else if (o.k == "cread") {
      constraintRead(o);
    } else if (o.k == "cquery") {
      constraintQuery(o);
    } else if (o.k == "lib") {
      libraryObject(o);
    } else {
      ctx.fail("harness", "harness:unknown-op", o.k);
    }
  }

  void invariantsAfterAssignName(Cell& d, Cell& s) {
    // operator= also copies the name; the harness restores the cell's own name so that name-addressed list routes stay unambiguous
    if (d.obj->getName() != s.name) fail("model-mismatch:assign-name", "operator= did not copy the name");
    d.obj->setName(d.name);
  }

  int slotForNewConstraint(long hint) {
    if (w.pool.size() < MAXPOOL) { w.pool.emplace_back(); return static_cast<int>(w.pool.size() - 1); }
    for (size_t t = 0; t < w.pool.size(); ++t) { int k = static_cast<int>((static_cast<size_t>(hint) + t) % w.pool.size()); if (k >= 3 && !w.attached(k)) return k; }
    return -1;
  }

  void constraintNew(const Op& o) {
    int k = slotForNewConstraint(o.d); if (k < 0) { ctx.outcome("skip"); return; }
    MInt m; m.lo = BOUNDS[static_cast<size_t>(o.a) % 9]; m.hi = BOUNDS[1 + static_cast<size_t>(o.b) % 9]; m.il = o.c & 1; m.ih = o.c & 2;
    if (o.x != 0) { m.lo = std::isfinite(m.lo) ? m.lo + o.x : m.lo; }
    if (o.y != 0) { m.hi = std::isfinite(m.hi) ? m.hi + o.y : m.hi; }
    PoolC& pc = w.pool[static_cast<size_t>(k)];
    pc.m = m;
    if (!std::isfinite(m.lo) && (o.c & 4)) { pc.obj.reset(new bpp::IntervalConstraint(false, m.hi, m.ih)); pc.m.il = false; }          // half-line constructors
    else if (!std::isfinite(m.hi) && (o.c & 4)) { pc.obj.reset(new bpp::IntervalConstraint(true, m.lo, m.il)); pc.m.ih = false; }
    else pc.obj.reset(new bpp::IntervalConstraint(m.lo, m.hi, m.il, m.ih));
    if (m.lo == m.hi) ctx.probe("equal-bounds-constraint");
    if (m.lo > m.hi) ctx.probe("reversed-bounds-constraint");
    checkConstraintObj(pc, "new constraint");
    ctx.ok();
  }

  void constraintAnd(const Op& o) {
    size_t np = w.pool.size();
    size_t a = static_cast<size_t>(o.a) % np, b = static_cast<size_t>(o.b) % np;
    MInt ma = w.pool[a].m, mb = w.pool[b].m;
    MInt want = meet(ma, mb);
    bool inplace = (o.c & 1) && a >= 3 && !w.attached(static_cast<int>(a));
    std::shared_ptr<bpp::IntervalConstraint> res;
    int k;
    if (inplace) { *w.pool[a].obj &= *w.pool[b].obj; res = w.pool[a].obj; k = static_cast<int>(a); }
    else {
      k = slotForNewConstraint(o.d); if (k < 0) { ctx.outcome("skip"); return; }
      bpp::ConstraintInterface* r = *w.pool[a].obj & *w.pool[b].obj;
      bpp::IntervalConstraint* ri = dynamic_cast<bpp::IntervalConstraint*>(r);
      if (!ri) { delete r; fail("model-mismatch:intersection-null", "operator& of two intervals returned no interval"); }
      res.reset(ri);
    }
    // the intersection accepts exactly the values both accept: every order type of the four bounds
    for (int which = 0; which < 2; ++which) for (long code = 1; code < 14; ++code) {
      double x = alphabetValue(which ? &mb : &ma, code, 0.3);
      bool both = ma.accepts(x) && mb.accepts(x);
      if (res->isCorrect(x) != both) {
        bool eq = (ma.lo == mb.lo && x == ma.lo) || (ma.hi == mb.hi && x == ma.hi);
        ctx.fail("model-mismatch:intersection", std::string("model-mismatch:intersection") + (eq ? ":equal-bounds-flag" : ""), ma.str() + " & " + mb.str() + " accepts(" + fmtd(x) + ")=" + (res->isCorrect(x) ? "true" : "false") + (inplace ? " (operator&=)" : " (operator&)"));
      }
    }
    if (ma.lo == mb.lo || ma.hi == mb.hi) ctx.probe("intersection-equal-bounds");
    w.pool[static_cast<size_t>(k)].obj = res; w.pool[static_cast<size_t>(k)].m = want;
    checkConstraintObj(w.pool[static_cast<size_t>(k)], "intersection");
    ctx.ok();
  }

  void constraintRead(const Op& o) {
    int k = slotForNewConstraint(o.d); if (k < 0) { ctx.outcome("skip"); return; }
    size_t ia = static_cast<size_t>(o.a) % 9, ib = 1 + static_cast<size_t>(o.b) % 9;
    MInt m; m.lo = BOUNDS[ia]; m.hi = BOUNDS[ib]; m.il = o.c & 1; m.ih = o.c & 2;
    std::string hi = BOUNDLIT[ib]; if (hi == "inf" && (o.c & 4)) hi = "+inf";
    std::string desc = std::string(m.il ? "[" : "]") + BOUNDLIT[ia] + ";" + hi + (m.ih ? "]" : "[");
    PoolC& pc = w.pool[static_cast<size_t>(k)];
    pc.obj.reset(new bpp::IntervalConstraint());
    int got = attempt([&] { if (o.c & 8) pc.obj.reset(new bpp::IntervalConstraint(desc)); else pc.obj->readDescription(desc); });
    if (got != 0) fail("model-mismatch:readDescription-raised", "readDescription(" + desc + ") raised");
    pc.m = m;
    if (pc.obj->getLowerBound() != m.lo || pc.obj->getUpperBound() != m.hi || pc.obj->strictLowerBound() == m.il || pc.obj->strictUpperBound() == m.ih)
      fail("model-mismatch:readDescription", "readDescription(" + desc + ") gave " + pc.obj->getDescription());
    checkConstraintObj(pc, "parsed constraint");
    // malformed description (storage fault on the text): must raise bpp::Exception
    if (o.y != 0) {
      std::string bad = desc; size_t pos = static_cast<size_t>(std::abs(o.y)) % bad.size();
      if (o.y > 0) bad.erase(pos, 1); else bad[pos] = 'x';
      bpp::IntervalConstraint tmp;
      attempt([&] { tmp.readDescription(bad); });     // either outcome is allowed; only foreign exceptions / memory errors are violations
      ctx.fault("storage-flip");
    }
    ctx.ok();
  }

  void constraintQuery(const Op& o) {
    PoolC& pc = w.pool[static_cast<size_t>(o.a) % w.pool.size()];
    double x = alphabetValue(&pc.m, o.b, o.x), y = alphabetValue(&pc.m, o.c, o.y);
    if (pc.obj->isCorrect(x) != pc.m.accepts(x)) fail("model-mismatch:isCorrect", pc.m.str() + " isCorrect(" + fmtd(x) + ")");
    double lo = std::min(x, y), hi = std::max(x, y);
    if (pc.obj->includes(lo, hi) != pc.m.includes(lo, hi)) fail("model-mismatch:includes", pc.m.str() + " includes(" + fmtd(lo) + "," + fmtd(hi) + ")");
    if (!pc.m.empty() && std::isfinite(x)) {
      double lim = pc.obj->getLimit(x), acc = pc.obj->getAcceptedLimit(x);
      if (pc.m.accepts(x)) { if (lim != x || acc != x) fail("model-mismatch:getLimit", "accepted value not returned unchanged"); }
      else {
        double nearest = x <= pc.m.lo ? pc.m.lo : pc.m.hi;
        if (lim != nearest) fail("model-mismatch:getLimit", pc.m.str() + " getLimit(" + fmtd(x) + ")=" + fmtd(lim));
        bool open = x <= pc.m.lo ? !pc.m.il : !pc.m.ih;
        double want = open ? (x <= pc.m.lo ? nearest + pc.obj->getPrecision() : nearest - pc.obj->getPrecision()) : nearest;
        if (acc != want) fail("model-mismatch:getAcceptedLimit", pc.m.str() + " getAcceptedLimit(" + fmtd(x) + ")=" + fmtd(acc) + " expected " + fmtd(want));
        if (pc.m.width() >= 1e-9 && !pc.m.accepts(acc)) fail("model-mismatch:getAcceptedLimit", "accepted limit " + fmtd(acc) + " is not accepted by " + pc.m.str());
      }
    }
    ctx.outcome("read");
  }

  // bulk value updates through a list or the owner; the generator places the offending entry (reject@k)
  void bulkValues(const Op& o) {
    size_t l = static_cast<size_t>(o.a) % 3;
    std::vector<int>& ent = w.entries[l];
    long kind = o.d % 3;     // 0 setParametersValues 1 matchParametersValues 2 setAllParametersValues
    bpp::ParameterList src;
    std::vector<int> tgt; std::vector<double> vals; std::vector<std::string> srcNames; size_t dropIdx = static_cast<size_t>(-1);
    size_t m = ent.size();
    long badPos = o.c % static_cast<long>(m + 2) - 1;      // -1: none ; m: none as well (keeps "none" frequent)
    for (size_t i = 0; i < m; ++i) {
      if (kind != 2 && !((o.b >> i) & 1)) continue;
      Cell& c = w.cells[static_cast<size_t>(ent[i])];
      const MInt* mi = c.c >= 0 ? &w.pool[static_cast<size_t>(c.c)].m : nullptr;
      double x;
      if (static_cast<long>(i) == badPos && mi && !mi->empty()) { x = alphabetValue(mi, (i & 1) ? 1 : 7, 0); if (mi->accepts(x)) x = alphabetValue(mi, (i & 1) ? 7 : 1, 0); }
      else if (mi) { x = alphabetValue(mi, 3 + static_cast<long>((i + static_cast<size_t>(o.x)) % 3), 0); if (!mi->accepts(x)) x = c.v; }
      else x = c.v + static_cast<double>(i % 2) * o.y;
      srcNames.push_back(c.name);
      tgt.push_back(ent[i]); vals.push_back(x);
    }
    {
      // a name the target does not have, at a plan-chosen position of the source (before or after the offending entry)
      if (kind == 2 && ((o.b >> 13) & 1) && !srcNames.empty()) dropIdx = static_cast<size_t>(o.x) % srcNames.size();   // setAll with a target name missing from the source
      size_t fpos = ((o.b >> 12) & 1) ? static_cast<size_t>(o.b >> 14) % (srcNames.size() + 1) : srcNames.size() + 1;
      for (size_t i = 0; i <= srcNames.size(); ++i) {
        if (i == fpos) { src.addParameter(bpp::Parameter("foreign", 1.0)); if (badPos >= 0 && i < srcNames.size()) ctx.probe("foreign-name-before-later-entries"); }
        if (i < srcNames.size() && i != dropIdx) src.addParameter(bpp::Parameter(srcNames[i], vals[i]));
      }
    }
    bool missing = dropIdx < srcNames.size();
    if (missing) { tgt.erase(tgt.begin() + static_cast<long>(dropIdx)); vals.erase(vals.begin() + static_cast<long>(dropIdx)); }
    bool anyReject = false;
    for (size_t i = 0; i < tgt.size(); ++i) { Cell& c = w.cells[static_cast<size_t>(tgt[i])]; if (c.c >= 0 && !w.pool[static_cast<size_t>(c.c)].m.accepts(vals[i])) anyReject = true; }
    int want = missing ? (anyReject ? 4 : 2) : (anyReject ? 1 : 0);
    std::vector<double> before; for (auto& c : w.cells) before.push_back(c.obj->getValue());
    int got = attempt([&] {
      if (l == 2) { if (kind == 0) w.owner.setParametersValues(src); else if (kind == 1) w.owner.matchParametersValues(src); else w.owner.setAllParametersValues(src); }
      else { if (kind == 0) w.L(l).setParametersValues(src); else if (kind == 1) w.L(l).matchParametersValues(src); else w.L(l).setAllParametersValues(src); }
    });
    static const char* KN[] = {"setParametersValues", "matchParametersValues", "setAllParametersValues"};
    if (got != 0) {
      for (size_t i = 0; i < w.cells.size(); ++i) if (w.cells[i].obj->getValue() != before[i]) ctx.fail("invariant:rejected-update-changed-state", std::string("invariant:rejected-update-changed-state:") + KN[kind], std::string(KN[kind]) + " raised but cell" + std::to_string(i) + " changed");
      if (anyReject && tgt.size() > 1) ctx.probe("bulk-rejected-with-other-entries");
    }
    expectOutcome(got, want, std::string(l == 2 ? "owner-" : "list-") + KN[kind]);
    if (got == 0) {
      for (size_t i = 0; i < tgt.size(); ++i) {
        Cell& c = w.cells[static_cast<size_t>(tgt[i])];
        if (c.isAuto && c.prec == 0) { c.v = vals[i]; continue; }        // accepted values only reach here
        double nv; modelSet(c, vals[i], nv); c.v = nv;
      }
    }
  }

  // object-level bulk updates (setParameters / matchParameters / setAllParameters copy value AND constraint)
  void bulkObjects(const Op& o) {
    size_t l = static_cast<size_t>(o.a) % 2;
    std::vector<int>& ent = w.entries[l];
    if (ent.empty() || w.cells.empty()) { ctx.outcome("skip"); return; }
    long kind = o.d % 3;     // 0 setParameters 1 matchParameters 2 setAllParameters
    bpp::ParameterList src; std::vector<int> tgt, from;
    for (size_t i = 0; i < ent.size(); ++i) {
      if (kind != 2 && !((o.b >> i) & 1)) continue;
      Cell& t = w.cells[static_cast<size_t>(ent[i])];
      Cell& s = w.cells[(static_cast<size_t>(o.c) + i) % w.cells.size()];
      if (t.isAuto && !okForAuto(s.c)) { if (kind == 2) { ctx.outcome("skip"); return; } continue; }
      std::unique_ptr<bpp::Parameter> cp(s.obj->clone()); cp->setName(t.name);
      src.addParameter(*cp);
      tgt.push_back(ent[i]); from.push_back(static_cast<int>((static_cast<size_t>(o.c) + i) % w.cells.size()));
    }
    if (kind == 1 && ((o.b >> 12) & 1)) src.addParameter(bpp::Parameter("foreign", 1.0));
    int got = attempt([&] { if (kind == 0) w.L(l).setParameters(src); else if (kind == 1) w.L(l).matchParameters(src); else w.L(l).setAllParameters(src); });
    static const char* KN[] = {"setParameters", "matchParameters", "setAllParameters"};
    expectOutcome(got, 0, KN[kind]);
    // sources were snapshotted before the call; a target may also be a later source, so apply from the snapshot
    std::vector<Cell> snap = w.cells;
    for (size_t i = 0; i < tgt.size(); ++i) { Cell& t = w.cells[static_cast<size_t>(tgt[i])]; const Cell& s = snap[static_cast<size_t>(from[i])]; t.v = s.v; t.c = s.c; t.prec = s.prec; }
  }

  // parameters the library creates internally, audited through H1
  void libraryObject(const Op& o) {
    std::unique_ptr<bpp::Parametrizable> obj;
    double a = 0.1 + std::abs(o.x), b = 0.1 + std::abs(o.y);
    size_t n = 1 + static_cast<size_t>(o.b) % 6;
    try {
      switch (o.a % 7) {
        case 0: obj.reset(new bpp::GammaDiscreteDistribution(n, a, b)); break;
        case 1: obj.reset(new bpp::BetaDiscreteDistribution(n, a, b)); break;
        case 2: obj.reset(new bpp::GaussianDiscreteDistribution(n, o.x, b)); break;
        case 3: obj.reset(new bpp::ExponentialDiscreteDistribution(n, a)); break;
        case 4: obj.reset(new bpp::TruncatedExponentialDiscreteDistribution(n, a, b + 0.5)); break;
        case 5: obj.reset(new bpp::UniformDiscreteDistribution(n, -a, b)); break;
        default: obj.reset(new bpp::Simplex(n + 1, static_cast<unsigned short>(1 + o.c % 3), false, "s."));
      }
      const bpp::ParameterList& pl = obj->getParameters();
      if (pl.size() > 0) {
        const bpp::Parameter& q = pl[static_cast<size_t>(o.c) % pl.size()];
        MInt mi; bool has = false;
        if (q.hasConstraint()) { auto ic = std::dynamic_pointer_cast<const bpp::IntervalConstraint>(q.getConstraint()); if (ic) { has = true; mi.lo = ic->getLowerBound(); mi.hi = ic->getUpperBound(); mi.il = !ic->strictLowerBound(); mi.ih = !ic->strictUpperBound(); } }
        // only clearly rejected or clearly regular requests: degenerate-but-accepted values (a rate of exactly 0 ...) are outside every property's domain
        static const long CODES[] = {1, 3, 4, 5, 7, 13, 4, 1};
        double x = alphabetValue(has ? &mi : nullptr, CODES[o.d % 8], 0.5);
        if (has && mi.accepts(x) && (x == mi.lo || x == mi.hi)) x = alphabetValue(&mi, 4, 0.5);
        std::string nm = obj->getParameterNameWithoutNamespace(q.getName());
        try { obj->setParameterValue(nm, x); } catch (bpp::Exception&) { ctx.fault("reject@k"); }
      }
      ctx.probe("library-internal-parameters-audited");
    } catch (bpp::Exception&) {}
    catch (std::exception& e) { ctx.fail("foreign-exception:std", "foreign-exception:std", e.what()); }
    ctx.outcome("lib");
  }
};

class C01 : public Harness {
public:
  const char* id() const override { return "C01"; }
  HarnessInfo info() const override {
    HarnessInfo i;
    i.real = {"bpp::Parameter", "bpp::AutoParameter", "bpp::IntervalConstraint", "bpp::ParameterList", "bpp::AbstractParametrizable", "ConstraintException/ParameterNotFoundException", "discrete distributions + Simplex (library-internal parameters, audited through hook H1)", "bpp::StlOutputStreamWrapper"};
    i.stub = {"SimOutBuf (message stream: recording / null handler / refuses bytes after offset k)", "SimOwner (AbstractParametrizable subclass exposing shareParameter_)"};
    i.rule = "plans: seeded histories over <=10 parameter objects reached directly, through two lists (cloned/shared entries) and an owning object, with a pool of <=8 shared constraint objects; values are drawn from the order-type alphabet of the target's current bounds; non-trivial = >=3 accepted state-changing steps and >=1 rejected update or auto-correction fired; distinct = distinct fingerprint of the executed op-kind/outcome sequence";
    i.simTime = "steps (no clock in this component)";
    i.faultKinds = {"reject@k", "stream-fail", "storage-flip"};
    i.probeNames = {"construct-zero-excluded", "auto-parameter-assignment", "auto-corrected", "share-became-update", "equal-bounds-constraint", "intersection-equal-bounds", "bulk-rejected-with-other-entries", "foreign-name-before-later-entries", "library-internal-parameters-audited"};
    i.assumptions = {"constraint objects are never mutated while attached to a parameter (operator&= only on unattached pool entries): external mutation through getConstraint() is not a constraint update in the statement's sense",
                     "equal infinite bounds: isEmpty not asserted",
                     "auto-correcting parameters only carry non-empty constraints at least 1e-9 wide (the property's quantifier)",
                     "a value update inside a parameter's precision window is a documented no-op, not a rejected update",
                     "descriptions are rendered without blanks, as documented for readDescription (getDescription's own padded output is not fed back)"};
    i.tolerances["auto-nearest"] = "|final - nearest bound| <= 2 * constraint precision (1e-12) + 1e-15; closed bounds exact";
    return i;
  }
  long defaultRuns(Tier t) const override { return t == QUICK ? 250000 : 3000000; }

  // systematic prefix: every order type x flag combination x {construct, setValue, setConstraint}
  long enumCount(Tier) const override { return 14 * 4 * 3 * 3; }
  Plan enumPlan(long idx, Tier) const override {
    Plan p; p.cfg["stream"] = 0; p.cfg["enumerated"] = 1;
    long code = idx % 14; idx /= 14; long flags = idx % 4; idx /= 4; long what = idx % 3; idx /= 3; long shape = idx % 3;
    // constraint: shape 0: (0,1) finite ; 1: half line from 0 ; 2: equal bounds at 0
    Op cn("cnew"); cn.c = flags; cn.d = 0;
    if (shape == 0) { cn.a = 4; cn.b = 5; } else if (shape == 1) { cn.a = 4; cn.b = 8; } else { cn.a = 4; cn.b = 3; }
    p.ops.push_back(cn);      // becomes pool index 3
    if (what == 0) { Op o("new"); o.b = 4; o.c = 1; o.d = code; o.x = 0.3; p.ops.push_back(o); }
    else if (what == 1) { Op o("new"); o.b = 4; o.c = 1; o.d = 4; p.ops.push_back(o); Op s("set"); s.a = 0; s.b = code; s.x = 0.3; p.ops.push_back(s); Op n2("new"); n2.b = 4; n2.c = 0; n2.d = 4; p.ops.push_back(n2); Op s2("set"); s2.a = 1; s2.b = code; s2.x = 0.3; p.ops.push_back(s2); }
    else { Op o("new"); o.b = 0; o.c = 1; o.d = 0; o.x = alphabetValue(nullptr, 0, 0); MInt m; m.lo = 0; m.hi = shape == 0 ? 1 : (shape == 1 ? INF : 0); o.x = alphabetValue(&m, code, 0.3); p.ops.push_back(o); Op s("setc"); s.a = 0; s.b = 4; p.ops.push_back(s); }
    return p;
  }

  Plan generate(Rng& rng, Tier) const override {
    Plan p;
    p.cfg["stream"] = rng.below(3);
    p.cfg["failAfter"] = rng.below(40);
    long n = rng.range(5, 40);
    static const char* K[] = {"new", "copy", "assign", "set", "setc", "rmc", "prec", "ladd", "lshare", "lsetv", "lbulk", "lsetp", "osetc", "cnew", "cand", "cread", "cquery", "lib"};
    std::vector<double> w = {5, 1.5, 1.5, 6, 3, 1, 0.5, 2, 2.5, 3, 3, 1.5, 1, 2.5, 2, 1, 2, 0.4};
    for (auto& x : w) if (rng.chance(0.25)) x *= rng.chance(0.5) ? 0 : 3;     // swarm: switch kinds off or boost them
    w[0] = std::max(w[0], 2.0);
    bool precOn = rng.chance(0.3);
    for (long i = 0; i < n; ++i) {
      size_t k = i < 2 ? 0 : rng.weighted(w);
      Op o(K[k]);
      o.a = rng.below(12); o.b = rng.below(1 << 10); o.c = rng.below(16); o.d = rng.below(28);
      o.x = rng.chance(0.5) ? rng.real(-3, 3) : rng.real(-1e3, 1e3);
      o.y = 0;
      std::string kk = K[k];
      if (kk == "new") { o.b = rng.below(9); o.y = (precOn && rng.chance(0.3)) ? rng.pick(std::vector<double>{0.5, 0.01, -1.0}) : 0; if (rng.chance(0.15)) { o.d = 0; o.x = 0; } }
      if (kk == "set" || kk == "lsetv") { o.b = rng.chance(0.8) ? rng.below(14) : 0; if (kk == "lsetv") { o.c = o.b; o.b = rng.below(8); } }
      if (kk == "setc" || kk == "osetc") o.b = rng.below(9);
      if (kk == "prec") o.y = rng.pick(std::vector<double>{0, 0.5, 0.01, -1.0, 2.0});
      if (kk == "lbulk") { o.b = rng.below(1 << 10) | (rng.chance(0.3) ? 1 << 12 : 0) | (rng.chance(0.15) ? 1 << 13 : 0) | (rng.below(16) << 14); o.c = rng.below(12); o.d = rng.below(3); o.x = static_cast<double>(rng.below(3)); o.y = rng.real(-1, 1); }
      if (kk == "lsetp") { o.b = rng.below(1 << 10) | (rng.chance(0.2) ? 1 << 12 : 0); o.d = rng.below(3); }
      if (kk == "cnew") { o.a = rng.below(9); o.b = rng.below(9); o.c = rng.below(8); o.x = rng.chance(0.2) ? rng.real(-0.5, 0.5) : 0; o.y = rng.chance(0.2) ? rng.real(-0.5, 0.5) : 0; if (rng.chance(0.2)) o.b = (o.a + 8) % 9; /* equal bounds */ }
      if (kk == "cand") { o.a = rng.below(8); o.b = rng.below(8); o.c = rng.below(2); }
      if (kk == "cread") { o.a = rng.below(9); o.b = rng.below(9); o.c = rng.below(16); o.y = rng.chance(0.3) ? static_cast<double>(rng.range(-12, 12)) : 0; }
      if (kk == "cquery") { o.b = rng.below(14); o.c = rng.below(14); o.y = rng.real(-3, 3); }
      if (kk == "lib") { o.a = rng.below(7); o.b = rng.below(6); o.x = rng.logUniform(0.01, 20); o.y = rng.logUniform(0.01, 20); }
      p.ops.push_back(o);
    }
    return p;
  }
  void execute(const Plan& p, Ctx& ctx) const override {
    Exec e(p, ctx);
    try { e.run(); }
    catch (SimViolation&) { throw; }
    catch (bpp::Exception& ex) { ctx.fail("foreign-exception:bpp-unexpected", "foreign-exception:bpp-unexpected", ex.what()); }
    catch (std::exception& ex) { ctx.fail("foreign-exception:std", "foreign-exception:std", ex.what()); }
  }
};

Registrar reg(new C01());

}  // namespace
