// C10 — optimisers never end worse than they start, report what they evaluated, stay inside their budget and their
// parameters' constraints (automatic policy), converge on strictly convex quadratics, and bracketing returns a triple
// whose middle point is lowest.
// World (real code): every optimiser of bpp-core (BFGS, conjugate gradient, Powell, downhill simplex, coordinate-wise
// simple / Newton, Brent (outward and inward bracketing), golden section, Newton 1-D, Newton backtracking, meta-optimiser),
// AbstractOptimizer, DirectionFunction, OneDimensionOptimizationTools, the stop conditions, AutoParameter, Parameter,
// ParameterList, IntervalConstraint, StlOutputStreamWrapper.
// Stub peers (harness-owned): SimObjective (strictly convex quadratic with plan-given spectrum/rotations, or a smooth convex
// log-cosh objective; real constrained Parameters; analytic first/second derivatives; counts and checks EVERY evaluation),
// SimListener, SimOutBuf-backed message handler / profiler / ApplicationTools::message / std::cout, the simulated clock.
#include "engine.h"
#include "simio.h"
#include <Bpp/Numeric/Function/BfgsMultiDimensions.h>
#include <Bpp/Numeric/Function/ConjugateGradientMultiDimensions.h>
#include <Bpp/Numeric/Function/PowellMultiDimensions.h>
#include <Bpp/Numeric/Function/DownhillSimplexMethod.h>
#include <Bpp/Numeric/Function/SimpleMultiDimensions.h>
#include <Bpp/Numeric/Function/SimpleNewtonMultiDimensions.h>
#include <Bpp/Numeric/Function/BrentOneDimension.h>
#include <Bpp/Numeric/Function/GoldenSectionSearch.h>
#include <Bpp/Numeric/Function/NewtonOneDimension.h>
#include <Bpp/Numeric/Function/NewtonBacktrackOneDimension.h>
#include <Bpp/Numeric/Function/MetaOptimizer.h>
#include <Bpp/Numeric/Function/OneDimensionOptimizationTools.h>
#include <Bpp/Numeric/Function/OptimizationStopCondition.h>
#include <Bpp/Numeric/Function/Functions.h>
#include <Bpp/Numeric/AbstractParametrizable.h>
#include <Bpp/Numeric/AutoParameter.h>
#include <Bpp/Numeric/Constraints.h>
#include <Bpp/App/ApplicationTools.h>
#include <Bpp/Io/OutputStream.h>
#include <Bpp/Exceptions.h>
#include <algorithm>
#include <cstdlib>
#include <iostream>
#include <limits>
#include <memory>
#include <ostream>
#include <unistd.h>

using namespace dsim;

namespace {

const int MAXN = 6;
const double EPS = 2.220446049250313e-16;
const double INF = std::numeric_limits<double>::infinity();
const long EVAL_CAP_VERBOSE = 120000;
const long EVAL_CAP = 300000;         // hard cap on objective evaluations of one optimisation: hang detector (7e5, not 1e6: about 5 s
                                      // under ASan, the driver kills a run after 10 CPU-seconds)

// ---- rarity of the triggers of findings that fire on the unchanged tree (by construction of the generator: one run in N
// may produce the trigger, all other runs avoid it).  Set to 1-3 once a finding is fixed: every constant below that is 1 or 2
// belongs to a defect repaired in /repo (fixes 01-09), its trigger is generated at full rate again.
const long META_NAN_ONE_IN = 1;       // meta-optimiser with n >= 2 precision steps and a non-positive starting value (each such run costs 1e6 evaluations)
const long META_BFGS_ONE_IN = 1;      // meta-optimiser re-initialising BFGS (backtracking line search) close to the optimum (idem)
const long META_DSM_STEP_ONE_IN = 1;   // meta-optimiser driving the downhill simplex one step at a time
const long FAR_BRACKET_ONE_IN = 2;     // direct bracketMinimum call whose minimiser lies beyond the first golden-section extension
const long META_POWELL_STEP_ONE_IN = 1; // meta-optimiser driving Powell one step at a time
const long DSM_DEGENERATE_ONE_IN = 1;  // downhill simplex under the automatic policy started exactly on an upper bound (two identical vertices)
const long META_DSM_STEP_CONV_ONE_IN = 50; // KEEP-KNOWN: meta-optimiser driving the downhill simplex one step at a time, eligible for the convergence clause
const long POWELL_ZERO_MIN_ONE_IN = 20; // (on top of the 2% of runs with c == 0) Powell on an objective whose minimum value is exactly 0: relative stop test is 0/0
const long NBT_BUDGET_ONE_IN = 1;      // Newton backtracking cut by the evaluation budget
const long BRENTIN_CONV_ONE_IN = 1;    // Brent with inward bracketing eligible for the convergence clause
const long GOLDEN_PLAIN_ONE_IN = 1;    // golden section search with its start inside the initial interval / eligible for the convergence clause

enum { O_BFGS = 0, O_CG, O_POWELL, O_DSM, O_SIMPLE, O_SNEWTON, O_BRENT, O_BRENTIN, O_GOLDEN, O_NEWTON1, O_NBT, O_META, NOPT };
const char* ONAME[NOPT] = {"Bfgs", "ConjugateGradient", "Powell", "DownhillSimplex", "SimpleMulti", "SimpleNewtonMulti", "Brent", "BrentInward",
                           "GoldenSection", "Newton1D", "NewtonBacktrack", "Meta"};
bool is1D(int o) { return o >= O_BRENT && o <= O_NBT; }
enum { P_AUTO = 0, P_KEEP = 1, P_IGNORE = 2 };
const char* PNAME[3] = {"auto", "keep", "ignore"};

std::string vname(int i) { return "x" + std::to_string(i); }
int vindex(const std::string& s) { return (s.size() == 2 && s[0] == 'x' && s[1] >= '0' && s[1] < '0' + MAXN) ? s[1] - '0' : -1; }

// ---------------------------------------------------------------- objective definition (from the plan)
struct ObjCfg {
  int type = 0;                 // 0 strictly convex quadratic, 1 smooth convex non-quadratic (log-cosh + small isotropic quadratic)
  int n = 1;
  double A[MAXN][MAXN], Q[MAXN][MAXN], s[MAXN], m[MAXN], c = 0;
  double la[MAXN], lw[MAXN], lq = 0;
  double x0[MAXN], lo[MAXN], hi[MAXN];
  bool has[MAXN];
  bool ownBox = true;           // the objective's own parameters carry the constraints (otherwise only the list given to init())
  bool cachedDeriv = false;     // peer variant: derivatives are tabulated at every setParameters/parameter change WHILE they are enabled and read back from the table
                                // (the behaviour of the library's own numerical-derivative wrappers); the default variant computes them on demand
  bool anyBox() const { for (int i = 0; i < n; ++i) if (has[i]) return true; return false; }
};

double logcosh(double z) { double a = std::abs(z); return a + std::log1p(std::exp(-2 * a)) - 0.6931471805599453; }

ObjCfg buildCfg(const Plan& p) {
  ObjCfg o;
  o.type = static_cast<int>(p.geti("otype"));
  o.n = static_cast<int>(std::max(1L, std::min<long>(MAXN, p.geti("n", 1))));
  o.c = p.getd("c");
  o.ownBox = p.geti("ownbox", 1) != 0;
  o.cachedDeriv = p.geti("cacheder", 0) != 0;
  long boxmask = p.geti("boxmask");
  for (int i = 0; i < MAXN; ++i) {
    std::string k = std::to_string(i);
    o.s[i] = p.getd("s" + k, 1.0); o.m[i] = p.getd("m" + k); o.x0[i] = p.getd("x" + k);
    o.lo[i] = p.getd("lo" + k, -1); o.hi[i] = p.getd("hi" + k, 1); o.has[i] = i < o.n && ((boxmask >> i) & 1);
    o.la[i] = p.getd("la" + k, 1.0); o.lw[i] = p.getd("lw" + k, 1.0);
    for (int j = 0; j < MAXN; ++j) o.Q[i][j] = i == j ? 1 : 0;
  }
  o.lq = p.getd("lq", 0.1);
  int k = 0;
  for (int i = 0; i < o.n; ++i) for (int j = i + 1; j < o.n; ++j, ++k) {
    double th = p.getd("ang" + std::to_string(k)), cs = std::cos(th), sn = std::sin(th);
    for (int r = 0; r < o.n; ++r) { double a = o.Q[r][i], b = o.Q[r][j]; o.Q[r][i] = cs * a - sn * b; o.Q[r][j] = sn * a + cs * b; }
  }
  for (int i = 0; i < o.n; ++i) for (int j = i; j < o.n; ++j) {
    double v = 0; for (int q = 0; q < o.n; ++q) v += o.Q[i][q] * o.s[q] * o.Q[j][q];
    o.A[i][j] = o.A[j][i] = v;
  }
  return o;
}

double evalObj(const ObjCfg& o, const double* x) {
  double d[MAXN]; for (int i = 0; i < o.n; ++i) d[i] = x[i] - o.m[i];
  if (o.type == 0) {
    double f = 0;
    for (int i = 0; i < o.n; ++i) { double v = 0; for (int j = 0; j < o.n; ++j) v += o.A[i][j] * d[j]; f += d[i] * v; }
    return 0.5 * f + o.c;
  }
  double f = 0, dd = 0;
  for (int k = 0; k < o.n; ++k) { double y = 0; for (int i = 0; i < o.n; ++i) y += o.Q[i][k] * d[i]; f += o.lw[k] * logcosh(o.la[k] * y); }
  for (int i = 0; i < o.n; ++i) dd += d[i] * d[i];
  return f + 0.5 * o.lq * dd + o.c;
}
double gradObj(const ObjCfg& o, const double* x, int v) {
  double d[MAXN]; for (int i = 0; i < o.n; ++i) d[i] = x[i] - o.m[i];
  if (o.type == 0) { double g = 0; for (int j = 0; j < o.n; ++j) g += o.A[v][j] * d[j]; return g; }
  double g = 0;
  for (int k = 0; k < o.n; ++k) { double y = 0; for (int i = 0; i < o.n; ++i) y += o.Q[i][k] * d[i]; g += o.Q[v][k] * o.lw[k] * o.la[k] * std::tanh(o.la[k] * y); }
  return g + o.lq * d[v];
}
double hessObj(const ObjCfg& o, const double* x, int v, int u) {
  if (o.type == 0) return o.A[v][u];
  double d[MAXN]; for (int i = 0; i < o.n; ++i) d[i] = x[i] - o.m[i];
  double h = 0;
  for (int k = 0; k < o.n; ++k) { double y = 0; for (int i = 0; i < o.n; ++i) y += o.Q[i][k] * d[i]; double t = std::tanh(o.la[k] * y); h += o.Q[v][k] * o.Q[u][k] * o.lw[k] * o.la[k] * o.la[k] * (1 - t * t); }
  return h + (v == u ? o.lq : 0);
}

// minimiser of the objective along coordinate j, the other coordinates at the start (bisection on the analytic derivative)
double condMinOf(const ObjCfg& oc, int j) {
  double x[MAXN]; for (int i = 0; i < oc.n; ++i) x[i] = oc.x0[i];
  if (oc.type == 0) { double g = 0; for (int k = 0; k < oc.n; ++k) if (k != j) g += oc.A[j][k] * (oc.x0[k] - oc.m[k]); return oc.m[j] - g / oc.A[j][j]; }
  double lo = oc.m[j] - 1, hi = oc.m[j] + 1;
  for (int it = 0; it < 60; ++it) { x[j] = lo; if (gradObj(oc, x, j) < 0) break; lo = oc.m[j] - (oc.m[j] - lo) * 4; }
  for (int it = 0; it < 60; ++it) { x[j] = hi; if (gradObj(oc, x, j) > 0) break; hi = oc.m[j] + (hi - oc.m[j]) * 4; }
  for (int it = 0; it < 200 && lo < hi; ++it) { double mid = 0.5 * (lo + hi); if (!(lo < mid && mid < hi)) break; x[j] = mid; if (gradObj(oc, x, j) < 0) lo = mid; else hi = mid; }
  return 0.5 * (lo + hi);
}


// ---------------------------------------------------------------- stub peers
struct EvalCap {};      // raised by the objective when the hard evaluation cap is exceeded (deliberately not a std::exception)

class SimObjective :
  public virtual bpp::SecondOrderDerivable,
  public bpp::AbstractParametrizable
{
public:
  ObjCfg cfg;
  double fval = 0;
  bool d1On = true, d2On = true, inSet = false;
  double bestF = INF; long lastImprove = 0;   // best value seen and the evaluation at which it was last improved
  long cap = EVAL_CAP;          // verbose runs format text at every step and cost 3-4 times more per evaluation: they get a lower cap
  long onBound = 0;             // evaluations with a boxed coordinate exactly on one of its bounds (a constraint was active there)
  long iterStart = 0;           // nEval at the last init/step event of the outer optimiser (set by the listener)
  long nEval = 0, outside = 0, rejected = 0, firstOutsideSeq = -1; int firstOutsideCoord = -1; double firstOutsideVal = 0;
  uint64_t evalHash = 0x9e3779b97f4a7c15ULL;

  explicit SimObjective(const ObjCfg& c) : bpp::AbstractParametrizable(""), cfg(c) {
    for (int i = 0; i < cfg.n; ++i) {
      std::shared_ptr<bpp::ConstraintInterface> ic;
      if (cfg.ownBox && cfg.has[i]) ic.reset(new bpp::IntervalConstraint(cfg.lo[i], cfg.hi[i], true, true));
      addParameter_(new bpp::Parameter(vname(i), cfg.x0[i], ic));
    }
    refresh(); refreshTables();
  }
  SimObjective* clone() const override { return new SimObjective(*this); }

  void point(double* x) const { const bpp::ParameterList& pl = getParameters(); for (int i = 0; i < cfg.n; ++i) x[i] = pl[static_cast<size_t>(i)].getValue(); }
  double g1[MAXN], g2[MAXN][MAXN]; bool g1Valid = false, g2Valid = false;
  void refreshTables() {
    if (!cfg.cachedDeriv) return;
    double x[MAXN]; point(x);
    if (d1On) { for (int i = 0; i < cfg.n; ++i) g1[i] = gradObj(cfg, x, i); g1Valid = true; }
    if (d2On) { for (int i = 0; i < cfg.n; ++i) for (int j = 0; j < cfg.n; ++j) g2[i][j] = hessObj(cfg, x, i, j); g2Valid = true; }
  }
  void refresh() { double x[MAXN]; point(x); fval = evalObj(cfg, x); }
  void recordEval() {
    if (fval < bestF) { bestF = fval; lastImprove = nEval + 1; }
    if (++nEval > cap || nEval - iterStart > cap / 2) throw EvalCap();
    double x[MAXN]; point(x);
    for (int i = 0; i < cfg.n; ++i) {
      // a constraint counts as active when an evaluation lands on a bound or within 1e-6 of the box width of it (BFGS backs off a bound by ~1e-13)
      if (cfg.has[i]) { double w = (cfg.hi[i] - cfg.lo[i]) * 1e-6; if (x[i] <= cfg.lo[i] + w || x[i] >= cfg.hi[i] - w) ++onBound; }
      if (cfg.has[i] && !(x[i] >= cfg.lo[i] && x[i] <= cfg.hi[i])) { if (!outside) { firstOutsideSeq = nEval; firstOutsideCoord = i; firstOutsideVal = x[i]; } ++outside; }
      uint64_t b; std::memcpy(&b, &x[i], 8); evalHash = (evalHash ^ b) * 1099511628211ULL;
    }
  }
  void setParameters(const bpp::ParameterList& pl) override {
    inSet = true;
    try { matchParametersValues(pl); } catch (...) { inSet = false; ++rejected; throw; }
    inSet = false;
    refreshTables();          // like the numerical-derivative wrappers: every setParameters call re-tabulates, whether or not a value changed
    recordEval();
  }
  void fireParameterChanged(const bpp::ParameterList&) override { refresh(); if (!inSet) { refreshTables(); recordEval(); } }
  double getValue() const override { return fval; }

  void enableFirstOrderDerivatives(bool yn) override { d1On = yn; }
  bool enableFirstOrderDerivatives() const override { return d1On; }
  void enableSecondOrderDerivatives(bool yn) override { d2On = yn; }
  bool enableSecondOrderDerivatives() const override { return d2On; }
  int idx(const std::string& v) const { int i = vindex(v); if (i < 0 || i >= cfg.n) throw bpp::Exception("SimObjective: no such variable " + v); return i; }
  double getFirstOrderDerivative(const std::string& v) const override {
    if (!d1On) throw bpp::Exception("SimObjective: first order derivatives are not computed");
    if (cfg.cachedDeriv) { if (!g1Valid) throw bpp::Exception("SimObjective: first order derivatives were never tabulated"); return g1[idx(v)]; }
    double x[MAXN]; point(x); return gradObj(cfg, x, idx(v));
  }
  double getSecondOrderDerivative(const std::string& v) const override { return getSecondOrderDerivative(v, v); }
  double getSecondOrderDerivative(const std::string& v, const std::string& u) const override {
    if (!d2On) throw bpp::Exception("SimObjective: second order derivatives are not computed");
    if (cfg.cachedDeriv) { if (!g2Valid) throw bpp::Exception("SimObjective: second order derivatives were never tabulated"); return g2[idx(v)][idx(u)]; }
    double x[MAXN]; point(x); return hessObj(cfg, x, idx(v), idx(u));
  }
};

struct StepEv { unsigned int nb; double f; };
class IterMarker : public bpp::OptimizationListener {     // attached to the inner optimisers of a meta-optimiser: their steps are iterations too
public:
  SimObjective* obj = nullptr;
  void optimizationInitializationPerformed(const bpp::OptimizationEvent&) override { if (obj) obj->iterStart = obj->nEval; }
  void optimizationStepPerformed(const bpp::OptimizationEvent&) override { if (obj) obj->iterStart = obj->nEval; }
  bool listenerModifiesParameters() const override { return false; }
};
class SimListener : public bpp::OptimizationListener {
public:
  std::vector<StepEv> ev; long inits = 0;
  SimObjective* obj = nullptr;      // the listener tells the objective where the iteration in progress started
  void optimizationInitializationPerformed(const bpp::OptimizationEvent&) override { ++inits; if (obj) obj->iterStart = obj->nEval; }
  void optimizationStepPerformed(const bpp::OptimizationEvent& e) override {
    StepEv s; s.nb = e.getOptimizer()->getNumberOfEvaluations(); s.f = e.getOptimizer()->getFunctionValue();
    if (ev.size() < 2000000) ev.push_back(s);
    if (obj) obj->iterStart = obj->nEval;
  }
  bool listenerModifiesParameters() const override { return false; }
};

struct SimStream {      // mode 0 null handler, 1 recording, 2 refuses every byte after `failAfter`
  SimOutBuf buf; std::ostream os; std::shared_ptr<bpp::OutputStream> h;
  SimStream(int mode, long failAfter) : buf(), os(&buf), h() {
    if (mode == 2) buf.failAfter = failAfter;
    if (mode != 0) h.reset(new bpp::StlOutputStreamWrapper(&os));
  }
};

struct Env { int clockMode = 0; long clockStep = 1; int msgMode = 0; long msgFail = 0; int profMode = 0; long profFail = 0; int appMode = 0; long appFail = 0; };
Env envOf(const Plan& p, const char* sfx) {
  Env e; std::string s(sfx);
  e.clockMode = static_cast<int>(p.geti("clk" + s)); e.clockStep = p.geti("clkstep" + s, 1);
  e.msgMode = static_cast<int>(p.geti("msg" + s)); e.msgFail = p.geti("msgfail" + s);
  e.profMode = static_cast<int>(p.geti("prof" + s)); e.profFail = p.geti("proffail" + s);
  e.appMode = static_cast<int>(p.geti("app" + s)); e.appFail = p.geti("appfail" + s);
  return e;
}

// the library writes a few things to std::cout directly (verbose coordinate-wise optimisers, stop-condition warnings):
// std::cout is one more stream peer, pointed at a simulated buffer for the duration of a run
struct CoutGuard {
  SimOutBuf buf; std::streambuf* old;
  CoutGuard() : buf(), old(std::cout.rdbuf(&buf)) {}
  ~CoutGuard() { std::cout.rdbuf(old); std::cout.clear(); }
};
struct AppMsgGuard {
  std::shared_ptr<bpp::OutputStream> old;
  AppMsgGuard() : old(bpp::ApplicationTools::message) {}
  ~AppMsgGuard() { bpp::ApplicationTools::message = old; }
};

// ---------------------------------------------------------------- one optimisation
// the downhill simplex with its vertex values readable: the stopping rule ("relative spread of the vertex values below the tolerance")
// is checked on the values the simplex really holds when it reports that the tolerance is reached
struct SimplexProbe : public bpp::DownhillSimplexMethod {
  using bpp::DownhillSimplexMethod::DownhillSimplexMethod;
  double spread() const {
    if (y_.empty()) return -2;
    double hi = y_[0], lo = y_[0];
    for (double v : y_) { if (v > hi) hi = v; if (v < lo) lo = v; }
    return 2.0 * std::abs(hi - lo) / (std::abs(hi) + std::abs(lo));
  }
};

struct Result {
  int outcome = 0;          // 0 returned, 1 ConstraintException, 2 other bpp::Exception, 3 evaluation cap hit
  int phase = 0;            // where it raised: 0 configuration/init, 1 optimize
  double ret = 0, fval = 0;
  std::vector<int> coords;  // optimised coordinates, in list order
  std::vector<double> pt;   // optimizer.getParameters() values, same order
  double own[MAXN];         // what the objective's own parameters hold afterwards
  unsigned int nbEval = 0, nbEvalMax = 0; bool tol = false, maxReached = false;
  std::vector<StepEv> steps; long inits = 0;
  long nEval = 0, outside = 0, firstOutsideSeq = -1; int firstOutsideCoord = -1; double firstOutsideVal = 0;
  uint64_t evalHash = 0;
  long clockReads = 0, refused = 0, written = 0;
  double slopeUsed = 0;
  long onBound = 0;
  double simplexSpread = -2; // DownhillSimplex only: relative spread 2|yhi-ylo|/(|yhi|+|ylo|) over ALL current vertex values when optimize() returned (-2: not a simplex run)
  long evalsSinceImprovement = 0;  // objective evaluations since the best value seen was last improved
  long evalsInLastIteration = 0;   // objective evaluations since the last init/step event (the iteration in progress)
};

struct OptCfg {
  int kind = 0, policy = 0, coord = 0, stopType = 0, verbose = 0, metaA = 0, metaB = 0, metaTypeA = 0, metaTypeB = 0, metaN = 1;
  long metaMask = 0; bool updateParams = false; long budget = 0;
  double tol = 1e-6, iv0 = 0, iv1 = 1, nbtTest = 1;
};
OptCfg optCfgOf(const Plan& p, const ObjCfg& oc) {
  OptCfg c;
  c.kind = static_cast<int>(((p.geti("opt") % NOPT) + NOPT) % NOPT);
  c.policy = static_cast<int>(((p.geti("policy") % 3) + 3) % 3);
  c.coord = static_cast<int>(((p.geti("coord") % oc.n) + oc.n) % oc.n);
  c.stopType = static_cast<int>(p.geti("stop") % 3);
  c.verbose = static_cast<int>(p.geti("verbose") % 3);
  c.updateParams = p.geti("upd") != 0;
  c.budget = p.geti("budget");
  c.tol = p.getd("tol", 1e-6);
  c.iv0 = p.getd("iv0", 0); c.iv1 = p.getd("iv1", 1); c.nbtTest = p.getd("nbttest", 1);
  c.metaA = static_cast<int>(p.geti("metaA") % 3); c.metaB = static_cast<int>(p.geti("metaB") % 4);
  c.metaTypeA = static_cast<int>(p.geti("metaTA") % 2); c.metaTypeB = static_cast<int>(p.geti("metaTB") % 2);
  c.metaN = static_cast<int>(std::max(1L, p.geti("metaN", 1))); c.metaMask = p.geti("metaMask");
  return c;
}

std::shared_ptr<bpp::OptimizerInterface> makeInner(int which, const std::shared_ptr<SimObjective>& f, unsigned short& deriv) {
  switch (which) {
    case 0: deriv = 0; return std::make_shared<bpp::SimpleMultiDimensions>(f);
    case 1: deriv = 0; return std::make_shared<bpp::PowellMultiDimensions>(f);
    case 2: deriv = 0; return std::make_shared<bpp::DownhillSimplexMethod>(f);
    case 3: deriv = 1; return std::make_shared<bpp::BfgsMultiDimensions>(f);
    case 4: deriv = 1; return std::make_shared<bpp::ConjugateGradientMultiDimensions>(f);
    default: deriv = 2; return std::make_shared<bpp::SimpleNewtonMultiDimensions>(f);
  }
}

bpp::ParameterList initList(const ObjCfg& oc, const std::vector<int>& coords) {
  bpp::ParameterList pl;
  for (int i : coords) {
    std::shared_ptr<bpp::ConstraintInterface> ic;
    if (oc.has[i]) ic.reset(new bpp::IntervalConstraint(oc.lo[i], oc.hi[i], true, true));
    pl.addParameter(bpp::Parameter(vname(i), oc.x0[i], ic));
  }
  return pl;
}

Result runOpt(const ObjCfg& oc, const OptCfg& c, const Env& e) {
  Result R;
  g_clock.reset(e.clockMode, e.clockStep);
  CoutGuard coutGuard; AppMsgGuard appGuard;
  SimStream msg(e.msgMode, e.msgFail), prof(e.profMode, e.profFail), app(e.appMode == 0 ? 1 : e.appMode, e.appFail);
  if (e.appMode != 0) bpp::ApplicationTools::message = app.h;     // appMode 0: the runner's null stream stays
  auto f = std::make_shared<SimObjective>(oc);
  auto listener = std::make_shared<SimListener>();
  listener->obj = f.get();
  if (c.verbose > 0) f->cap = EVAL_CAP_VERBOSE;
  std::shared_ptr<bpp::AbstractOptimizer> opt;
  if (is1D(c.kind)) R.coords.push_back(c.coord); else for (int i = 0; i < oc.n; ++i) R.coords.push_back(i);
  for (int i = 0; i < MAXN; ++i) R.own[i] = 0;
  try {
    switch (c.kind) {
      case O_BFGS: opt = std::make_shared<bpp::BfgsMultiDimensions>(f); break;
      case O_CG: opt = std::make_shared<bpp::ConjugateGradientMultiDimensions>(f); break;
      case O_POWELL: opt = std::make_shared<bpp::PowellMultiDimensions>(f); break;
      case O_DSM: opt = std::make_shared<SimplexProbe>(f); break;
      case O_SIMPLE: opt = std::make_shared<bpp::SimpleMultiDimensions>(f); break;
      case O_SNEWTON: opt = std::make_shared<bpp::SimpleNewtonMultiDimensions>(f); break;
      case O_BRENT: case O_BRENTIN: {
        auto b = std::make_shared<bpp::BrentOneDimension>(f);
        b->setInitialInterval(c.iv0, c.iv1);
        b->setBracketing(c.kind == O_BRENTIN ? bpp::BrentOneDimension::BRACKET_INWARD : bpp::BrentOneDimension::BRACKET_OUTWARD);
        opt = b; break;
      }
      case O_GOLDEN: { auto g = std::make_shared<bpp::GoldenSectionSearch>(f); g->setInitialInterval(c.iv0, c.iv1); opt = g; break; }
      case O_NEWTON1: opt = std::make_shared<bpp::NewtonOneDimension>(f); break;
      case O_NBT: {
        R.slopeUsed = gradObj(oc, oc.x0, c.coord);
        opt = std::make_shared<bpp::NewtonBacktrackOneDimension>(f, R.slopeUsed, c.nbtTest); break;
      }
      default: {
        std::unique_ptr<bpp::MetaOptimizerInfos> infos(new bpp::MetaOptimizerInfos());
        std::vector<std::string> na, nb;
        for (int i = 0; i < oc.n; ++i) { if ((c.metaMask >> i) & 1) nb.push_back(vname(i)); else na.push_back(vname(i)); }
        unsigned short da = 0, db = 0;
        auto oa = makeInner(c.metaA, f, da); auto ob = makeInner(c.metaB == 3 ? 0 : 3 + c.metaB, f, db);
        auto marker = std::make_shared<IterMarker>(); marker->obj = f.get();
        oa->addOptimizationListener(marker); ob->addOptimizationListener(marker);
        infos->addOptimizer("first", oa, na, da, c.metaTypeA ? bpp::MetaOptimizerInfos::IT_TYPE_FULL : bpp::MetaOptimizerInfos::IT_TYPE_STEP);
        infos->addOptimizer("second", ob, nb, db, c.metaTypeB ? bpp::MetaOptimizerInfos::IT_TYPE_FULL : bpp::MetaOptimizerInfos::IT_TYPE_STEP);
        opt = std::make_shared<bpp::MetaOptimizer>(f, std::move(infos), static_cast<unsigned int>(c.metaN));
      }
    }
    opt->setConstraintPolicy(c.policy == P_AUTO ? bpp::AutoParameter::CONSTRAINTS_AUTO : (c.policy == P_KEEP ? bpp::AutoParameter::CONSTRAINTS_KEEP : bpp::AutoParameter::CONSTRAINTS_IGNORE));
    opt->setMessageHandler(msg.h);
    opt->setProfiler(prof.h);
    opt->setVerbose(static_cast<unsigned int>(c.verbose));
    opt->updateParameters(c.updateParams);
    opt->addOptimizationListener(listener);
    if (c.stopType == 0) opt->getStopCondition()->setTolerance(c.tol);
    else if (c.stopType == 1) opt->setStopCondition(std::make_shared<bpp::FunctionStopCondition>(opt.get(), c.tol));
    if (c.budget > 0) opt->setMaximumNumberOfEvaluations(static_cast<unsigned int>(c.budget));
    bpp::ParameterList start = initList(oc, R.coords);
    opt->init(start);
    if (c.stopType == 2) opt->setStopCondition(std::make_shared<bpp::ParametersStopCondition>(opt.get(), c.tol));
    R.phase = 1;
    R.ret = opt->optimize();
  } catch (EvalCap&) { R.outcome = 3; }
  catch (bpp::ConstraintException&) { R.outcome = 1; }
  catch (bpp::Exception&) { R.outcome = 2; }
  if (opt) {
    R.nbEval = opt->getNumberOfEvaluations(); R.tol = opt->isToleranceReached(); R.maxReached = opt->isMaximumNumberOfEvaluationsReached();
    if (R.outcome == 0) {
      R.fval = opt->getFunctionValue();
      const bpp::ParameterList& pl = opt->getParameters();
      for (size_t k = 0; k < R.coords.size(); ++k) R.pt.push_back(pl.hasParameter(vname(R.coords[k])) ? pl.getParameterValue(vname(R.coords[k])) : std::numeric_limits<double>::quiet_NaN());
    }
  }
  if (opt && c.kind == O_DSM && R.outcome == 0) if (auto* sp = dynamic_cast<SimplexProbe*>(opt.get())) R.simplexSpread = sp->spread();
  f->point(R.own);
  R.steps.swap(listener->ev); R.inits = listener->inits; R.evalsInLastIteration = f->nEval - f->iterStart; R.evalsSinceImprovement = f->nEval - f->lastImprove;
  R.nEval = f->nEval; R.outside = f->outside; R.firstOutsideSeq = f->firstOutsideSeq; R.firstOutsideCoord = f->firstOutsideCoord; R.firstOutsideVal = f->firstOutsideVal;
  R.evalHash = f->evalHash; R.onBound = f->onBound;
  R.clockReads = g_clock.calls;
  R.refused = msg.buf.refused + prof.buf.refused + app.buf.refused;
  R.written = static_cast<long>(msg.buf.data.size() + prof.buf.data.size() + app.buf.data.size());
  return R;
}

// calibration aid: DSIM_C10_ONLY=<optimiser index> makes the generator draw only that optimiser (read once at start-up; never set
// in registered checks; replay files are self-contained plans either way)
const int g_onlyKind = getenv("DSIM_C10_ONLY") ? atoi(getenv("DSIM_C10_ONLY")) : -1;

// ---------------------------------------------------------------- calibration aid
// DSIM_C10_CAL=1: every worker writes the worst observed convergence ratios per optimiser to $DSIM_TMP/c10cal.<pid> at exit
// (read once at start-up, never inside a run; it does not influence any outcome).
struct Calib {
  bool on; std::map<std::string, double> worst; std::map<std::string, std::string> where; std::map<std::string, long> cnt;
  Calib() : on(getenv("DSIM_C10_CAL") != nullptr) {}
  std::map<std::string, double> sum;
  void see(const std::string& k, double r, const std::string& w) { if (!on) return; ++cnt[k]; sum[k] += r; if (!(r <= worst[k])) { worst[k] = r; where[k] = w; } }
  ~Calib() {
    if (!on || worst.empty()) return;
    const char* d = getenv("DSIM_TMP"); std::string fn = std::string(d ? d : "/var/tmp/agent-c10") + "/c10cal." + std::to_string(getpid());
    FILE* fp = fopen(fn.c_str(), "w"); if (!fp) return;
    for (auto& kv : worst) fprintf(fp, "%s %g %ld %g %s\n", kv.first.c_str(), kv.second, cnt[kv.first], sum[kv.first], where[kv.first].c_str());
    fclose(fp);
  }
} g_cal;

// calibration aid: DSIM_C10_KSCALE=<factor> scales every convergence constant (read once at start-up; never set in registered checks)
const double g_kScale = getenv("DSIM_C10_KSCALE") ? atof(getenv("DSIM_C10_KSCALE")) : 1.0;

// DSIM_C10_DEBUG=<file>: append a human-readable summary of every optimisation to <file> (read once at start-up, never hashed)
const char* const g_debugFile = getenv("DSIM_C10_DEBUG");

// convergence constants: bound = K * (D + floor), see info().tolerances; calibrated per optimiser
// worst ratios seen (130 000 runs before the fixes 01-09, 80 000 after them, seed 1): Bfgs 673 (137 after), ConjugateGradient 3.5, Powell 24,
// DownhillSimplex 3119 (555 over 800 000 runs after the stop-rank fix adfac37), SimpleMulti 8.4, SimpleNewtonMulti 7.7, Brent / BrentInward / GoldenSection 0.40, Newton1D 3.3e-10,
// Meta 321 (665 when it drives the downhill simplex in full mode); over 8 seeds after adfac37: Meta 5086, simplex in full mode 3392
// worst ratios over 12 seeds x 40 000 mixed runs on the tree with all fixes: Bfgs 892, ConjugateGradient 2.8, Powell 16.6, Simple* 8.2,
// Brent* / GoldenSection 0.74, Newton1D 3.6e-10, Meta 3664. Constants are >= 25x those, except Bfgs and Meta: their function-change
// stop test on a badly scaled quadratic (identity start Hessian, curvatures down to 1e-4) stops at a distance that grows like
// 1/sqrt(curvature) times D, so their ratio is bounded by the spectrum range of the generator rather than by a small constant.
double convK(int kind, int n) {
  switch (kind) {
    case O_BFGS: return 1e5;
    case O_CG: return 100;
    case O_POWELL: return 600;
    case O_DSM: return n <= 1 ? 2000 : (n == 2 ? 500 : (n <= 4 ? 2000 : (n == 5 ? 5000 : 10000)));     // worst per dimension (20 seeds x 40 000 simplex-only runs, tree with the stop-rank fix): 124, 12, 71, 110, 285, 555 (before that fix: 14, 845, 75, 518, 2551, 23451 in 40 000)
    case O_SIMPLE: case O_SNEWTON: return 250;
    case O_BRENT: case O_BRENTIN: case O_GOLDEN: return 20;
    case O_NEWTON1: return 1e-7;
    default: return 1e5;
  }
}

// ---------------------------------------------------------------- executor
class Exec {
  const Plan& p; Ctx& ctx; ObjCfg oc; OptCfg c;
  bool haveA = false; Result resA;       // the optimisation under environment A is deterministic: computed once per run, shared by the opt and env ops
  const Result& runA() { if (!haveA) { resA = runOpt(oc, c, envOf(p, "A")); haveA = true; } return resA; }
public:
  Exec(const Plan& pl, Ctx& cx) : p(pl), ctx(cx), oc(buildCfg(pl)), c(optCfgOf(pl, oc)) {}

  std::string on() const { return ONAME[c.kind]; }
  [[noreturn]] void vfail(const std::string& cls, const std::string& sig, const std::string& detail) {
    if (g_cal.on) g_cal.see("sig:" + sig, 1, "plan=" + std::to_string(p.index));
    ctx.fail(cls, sig, detail);
  }
  void fullPoint(const Result& R, double* x) const { for (int i = 0; i < oc.n; ++i) x[i] = oc.x0[i]; for (size_t k = 0; k < R.coords.size(); ++k) x[R.coords[k]] = R.pt[k]; }

  // narrow qualifiers naming the trigger of findings that fire on the unchanged tree (signatures stay value-free)
  std::string consistencyTrigger() const {
    if (c.kind == O_META && c.metaA == 1 && !c.metaTypeA) return ":powell-stepwise";
    if (c.kind == O_META && c.metaA == 2 && !c.metaTypeA) return ":simplex-stepwise";
    if (c.kind == O_META && c.metaA == 2 && c.policy == P_AUTO && oc.anyBox()) return ":simplex-restarted-in-box";
    if (c.kind == O_DSM && c.policy == P_AUTO) for (int i = 0; i < oc.n; ++i) if (oc.has[i] && oc.x0[i] == oc.hi[i]) return ":start-on-upper-bound";
    return "";
  }
  std::string capTrigger() const {
    if (c.kind != O_META) return "";
    if (c.metaN >= 2 && !(evalObj(oc, oc.x0) > 0)) return ":nonpositive-start-value";
    if (c.metaB == 0) return ":bfgs-inner";
    return "";
  }

  void logResult(const Result& R) {
    if (const char* dbg = g_debugFile) {
      FILE* df = fopen(dbg, "a"); if (!df) df = stderr;
      fprintf(df, "DEBUG %s outcome=%d phase=%d nbEval=%u tol=%d evals=%ld steps=%zu ret=%.17g fval=%.17g\n", ONAME[c.kind], R.outcome, R.phase, R.nbEval, R.tol ? 1 : 0, R.nEval, R.steps.size(), R.ret, R.fval);
      for (size_t k = 0; k < R.pt.size(); ++k) fprintf(df, "  x%d=%.17g (start %.17g, min %.17g)\n", R.coords[k], R.pt[k], oc.x0[R.coords[k]], oc.m[R.coords[k]]);
      size_t ns = R.steps.size();
      for (size_t k = 0; k < ns; ++k) if (k < 30 || k + 10 > ns) fprintf(df, "  step %zu nb=%u f=%.17g\n", k + 1, R.steps[k].nb, R.steps[k].f);
      if (df != stderr) fclose(df);
    }
    ctx.evi("outcome", R.outcome); ctx.evi("phase", R.phase); ctx.evi("nbEval", static_cast<long>(R.nbEval)); ctx.evi("tol", R.tol ? 1 : 0);
    ctx.evi("evals", R.nEval); ctx.evi("steps", static_cast<long>(R.steps.size()));
    if (R.outcome == 0) { ctx.evd("ret", R.ret); ctx.evd("fval", R.fval); for (double v : R.pt) ctx.evd("pt", v); }
    uint64_t h = R.evalHash ^ mix3(static_cast<uint64_t>(R.outcome), R.nbEval, static_cast<uint64_t>(c.kind));
    ctx.state(h);
  }

  // the domain the statement quantifies over: start and minimiser inside the box
  bool inDomain() const {
    for (int i = 0; i < oc.n; ++i) if (oc.has[i] && !(oc.lo[i] <= oc.x0[i] && oc.x0[i] <= oc.hi[i] && oc.lo[i] <= oc.m[i] && oc.m[i] <= oc.hi[i])) return false;
    for (int i = 0; i < oc.n; ++i) if (!(oc.s[i] > 0)) return false;
    if (c.kind == O_NBT && !(oc.n == 1 && oc.x0[0] == 0 && oc.m[0] > 0)) return false;     // backtracking searches lambda in (0,1] from 0 along a descent direction
    if ((c.kind == O_BRENT || c.kind == O_BRENTIN || c.kind == O_GOLDEN) && !(c.iv0 < c.iv1)) return false;
    if (c.kind == O_BRENTIN) { double xm = condMinOf(oc, c.coord); if (!(c.iv0 < xm && xm < c.iv1)) return false; }   // inward scanning needs the minimiser inside
    return true;
  }

  void opOpt() {
    if (!inDomain()) { ctx.outcome("skip"); return; }
    Env e = envOf(p, "A");
    const Result& R = runA();
    logResult(R);
    const std::string O = on();
    // reach
    if (R.clockReads > 0) { if (e.clockMode == 1) ctx.fault("clock-freeze"); else if (e.clockMode == 2) ctx.fault("clock-jump"); else if (e.clockMode == 3) ctx.fault("clock-back"); }
    if (R.refused > 0) ctx.fault("stream-fail");
    if (e.msgMode == 0 || e.profMode == 0) ctx.fault("stream-null");
    bool cut = c.budget > 0 && R.outcome == 0 && !R.tol && R.nbEval >= static_cast<unsigned int>(c.budget);
    if (cut) ctx.fault("budget-cut");
    ctx.probe(std::string("ran:") + O);
    if (R.outcome == 1) ctx.probe("constraint-exception-under-keep-or-ignore");
    if (oc.type == 1) ctx.probe("non-quadratic-objective");
    if (R.written > 0) ctx.probe("stream-recorded-output");
    ctx.custom = R.nEval;
    {
      static const char* OC[4] = {"returned", "constraint-exception", "exception", "eval-cap"};
      std::string cfgs = std::string("cfg:") + O + ":" + PNAME[c.policy] + (oc.type ? ":logcosh" : ":quadratic") + (oc.cachedDeriv ? ":tabulated-derivatives" : "") + ":n" + std::to_string(oc.n) + (oc.anyBox() ? (oc.ownBox ? ":box-own" : ":box-list") : ":nobox")
                         + (c.budget > 0 ? (cut ? ":budget-cut" : ":budget-not-reached") : ":nobudget") + ":stop" + std::to_string(c.stopType) + ":v" + std::to_string(c.verbose) + (R.tol ? ":tol" : ":notol") + ":" + OC[R.outcome];
      if (c.kind == O_META) cfgs += ":inner" + std::to_string(c.metaA) + (c.metaTypeA ? "f" : "s") + std::to_string(c.metaB) + (c.metaTypeB ? "f" : "s") + ":steps" + std::to_string(c.metaN);
      ctx.outcome(cfgs.c_str());
    }
    if (g_cal.on) g_cal.see(std::string("evals:") + O + (c.budget > 0 ? ":cut" : ""), static_cast<double>(R.nEval), "plan=" + std::to_string(p.index) + " outcome=" + std::to_string(R.outcome) + " steps=" + std::to_string(R.steps.size()));

    // (3) termination: the hard cap on objective evaluations doubles as hang detector
    // A run stopped by the cap is a violation only when ONE iteration (init, or the step in progress) consumed more than half
    // of the cap: the statement allows "the budget plus the iteration in progress", and an optimiser whose own counter is
    // still below its budget after 1e6 objective evaluations has not overrun anything yet (inconclusive, not reported).
    if (R.outcome == 3) {
      long capUsed = c.verbose > 0 ? EVAL_CAP_VERBOSE : EVAL_CAP;
      if (R.evalsInLastIteration > capUsed / 2)
        vfail("hang:eval-cap", "hang:eval-cap:" + O + capTrigger(), O + ": one iteration used more than " + std::to_string(capUsed / 2) + " objective evaluations (" + std::to_string(R.steps.size()) + " steps completed before)");
      // A run that reaches the cap with its own counter still below its budget (default 1e6 steps) has not overrun anything the statement
      // bounds, even when it made no progress for a long time (cycling under a parameter-change stop condition, a relative stop test that is
      // 0/0 at a minimum value of exactly 0, ...): inconclusive, counted, not reported.
      if (R.evalsSinceImprovement > capUsed / 2) ctx.probe("eval-cap-stagnant-inconclusive");
      ctx.probe("eval-cap-inconclusive"); ctx.outcome("inconclusive"); return;
    }

    // (5) automatic policy: never evaluated outside the box, never rejected by the objective, reported point feasible
    if (c.policy == P_AUTO) {
      if (R.outside > 0)
        vfail("invariant:auto-evaluated-outside", "invariant:auto-evaluated-outside:" + O,
                 O + ": evaluation #" + std::to_string(R.firstOutsideSeq) + " had " + vname(R.firstOutsideCoord) + "=" + fmtd(R.firstOutsideVal) + " outside [" + fmtd(oc.lo[R.firstOutsideCoord]) + ";" + fmtd(oc.hi[R.firstOutsideCoord]) + "] under the automatic constraint policy (" + std::to_string(R.outside) + " such evaluations)");
      if (R.outcome == 1)
        vfail("invariant:auto-constraint-exception", "invariant:auto-constraint-exception:" + O + (R.phase ? ":optimize" : ":init"), O + ": a ConstraintException escaped under the automatic constraint policy");
      if (R.outcome == 0)
        for (size_t k = 0; k < R.coords.size(); ++k) { int i = R.coords[k];
          if (oc.has[i] && !(R.pt[k] >= oc.lo[i] && R.pt[k] <= oc.hi[i]))
            vfail("invariant:auto-reported-infeasible", "invariant:auto-reported-infeasible:" + O, O + ": reported " + vname(i) + "=" + fmtd(R.pt[k]) + " outside [" + fmtd(oc.lo[i]) + ";" + fmtd(oc.hi[i]) + "]"); }
      if (oc.anyBox()) ctx.probe("auto-policy-with-box");
    }
    if (!oc.anyBox() && R.outcome == 1)
      vfail("foreign-exception:constraint-without-constraints", "foreign-exception:constraint-without-constraints:" + O, O + ": ConstraintException although no parameter carries a constraint");

    // (3) budget: every step but the last was started with getNumberOfEvaluations() < nbEvalMax.  The listener sees the counter
    // after doStep() and before the loop's increment, so step j+1 started with steps[j].nb + 1.
    if (c.budget > 0 && R.phase == 1) {
      unsigned int mx = static_cast<unsigned int>(c.budget);
      for (size_t j = 0; j + 1 < R.steps.size(); ++j)
        if (!(R.steps[j].nb + 1 < mx))
          vfail("invariant:budget", "invariant:budget:" + O, O + ": step " + std::to_string(j + 2) + " was started with " + std::to_string(R.steps[j].nb + 1) + " evaluations counted, budget " + std::to_string(mx));
      if (R.steps.size() + 1 > mx) vfail("invariant:budget", "invariant:budget:" + O, O + ": " + std::to_string(R.steps.size()) + " steps with budget " + std::to_string(mx));
      if (R.outcome == 0 && !R.tol && !(R.nbEval >= mx))
        vfail("invariant:budget-stop-without-reason", "invariant:budget-stop-without-reason:" + O, O + ": optimize() returned with tolerance not reached and " + std::to_string(R.nbEval) + " < budget " + std::to_string(mx));
    }
    if (R.outcome != 0) { if (R.outcome == 1) ctx.rejected(); else ctx.outcome("raised"); return; }

    // (2) returned value == getFunctionValue() == objective at the reported parameters; objective left at the reported point
    double x[MAXN]; fullPoint(R, x);
    for (size_t k = 0; k < R.pt.size(); ++k) if (!std::isfinite(R.pt[k])) vfail("invariant:reported-point-nonfinite", "invariant:reported-point-nonfinite:" + O, O + ": reported " + vname(R.coords[k]) + " is not finite");
    double fr = evalObj(oc, x), fs = evalObj(oc, oc.x0);
    if (c.kind == O_GOLDEN) {
      // golden section search documents that the value given to init() is not used: its starting information is the initial
      // interval, and the starting value is the better of the interval's two ends (clipped as the parameter clips them)
      double xa[MAXN], xb[MAXN]; for (int i = 0; i < oc.n; ++i) xa[i] = xb[i] = oc.x0[i];
      double a = c.iv0, b = c.iv1; int j = c.coord;
      if (c.policy == P_AUTO && oc.has[j]) { a = std::min(std::max(a, oc.lo[j]), oc.hi[j]); b = std::min(std::max(b, oc.lo[j]), oc.hi[j]); }
      xa[j] = a; xb[j] = b; fs = std::min(evalObj(oc, xa), evalObj(oc, xb));
    }
    std::string bc = cut ? ":budget-cut" : (c.kind == O_NBT && c.stopType != 0 ? ":custom-stop" : "");
    std::string ct = consistencyTrigger();
    if (!(R.ret == R.fval)) vfail("invariant:return-vs-function-value", "invariant:return-vs-function-value:" + O + ct + bc, O + ": optimize() returned " + fmtd(R.ret) + " but getFunctionValue() is " + fmtd(R.fval));
    if (!(R.fval == fr)) vfail("invariant:value-vs-reported-point", "invariant:value-vs-reported-point:" + O + ct + bc, O + ": getFunctionValue() " + fmtd(R.fval) + " but the objective at getParameters() is " + fmtd(fr));
    for (size_t k = 0; k < R.coords.size(); ++k)
      if (!(R.own[R.coords[k]] == R.pt[k])) vfail("invariant:function-not-at-reported-point", "invariant:function-not-at-reported-point:" + O + ct + bc, O + ": the objective's own " + vname(R.coords[k]) + " holds " + fmtd(R.own[R.coords[k]]) + ", getParameters() says " + fmtd(R.pt[k]));

    // (1) never worse than the start (same evaluator, so a few ulps of slack are generous)
    double slack = 8 * EPS * std::max(std::abs(fs), std::abs(oc.c));
    if (!(fr <= fs + slack)) vfail("invariant:descent", "invariant:descent:" + O + bc, O + ": f(reported)=" + fmtd(fr) + " > f(start)=" + fmtd(fs));
    if (fr < fs) ctx.probe("improved-on-start");

    // (4a) the simplex's stopping rule means what it says: when it reports "tolerance reached" under its own stop condition, the
    // relative spread over all its current vertex values is below the tolerance (exact: the same expression the library documents)
    if (c.kind == O_DSM && c.stopType == 0 && R.tol && R.simplexSpread != -2) {
      ctx.probe("simplex-stop-rule-checked");
      if (!(R.simplexSpread < c.tol)) vfail("invariant:stop-rule", "invariant:stop-rule:" + O + bc, O + ": reports tolerance " + fmtd(c.tol) + " reached, but its vertex values still spread by " + fmtd(R.simplexSpread) + " (relative)");
    }

    // (4) convergence on strictly convex quadratics, constraints inactive, no budget cut, the optimiser's own stop condition
    convergence(R, x);
    ctx.ok();
  }

  void convergence(const Result& R, const double* x) {
    if (oc.type != 0 || c.budget > 0 || c.stopType != 0 || c.kind == O_NBT) return;
    if (!R.tol) { ctx.probe("stopped-by-default-budget"); return; }          // stopped by the optimiser's default budget, not by its stopping tolerance
    // some evaluation sat on / beyond a bound: a constraint was active during the run (under the automatic policy the optimiser
    // then sees a clipped, plateau-shaped objective: Brent drifts along the plateau, the simplex collapses onto the face)
    bool touched = R.onBound > 0;
    if (R.outside > 0 || touched) return;
    if (c.kind == O_META) {
      // a meta-optimiser whose parameters all go to ONE inner optimiser stops after a single outer step by design: that is a
      // full optimisation only if the inner optimiser is run in "full" mode
      long all = (1L << oc.n) - 1, mk = c.metaMask & all;
      if (mk == 0 && !c.metaTypeA) return;
      if (mk == all && !c.metaTypeB) return;
    }
    // constraints inactive: every boxed coordinate keeps start and minimiser well inside (>= 10% of the width from both bounds)
    bool boxed = false;
    for (int i : R.coords) if (oc.has[i]) {
      boxed = true; double w = oc.hi[i] - oc.lo[i];
      if (!(oc.m[i] - oc.lo[i] >= 0.1 * w && oc.hi[i] - oc.m[i] >= 0.1 * w && oc.x0[i] - oc.lo[i] >= 0.1 * w && oc.hi[i] - oc.x0[i] >= 0.1 * w)) return;
    }
    if (boxed && c.policy == P_IGNORE && !oc.ownBox) boxed = false;
    // minimiser over the optimised coordinates
    double xm[MAXN]; double lmin, lmax, fmin;
    if (!is1D(c.kind)) { for (int i = 0; i < oc.n; ++i) xm[i] = oc.m[i]; lmin = lmax = oc.s[0]; for (int i = 0; i < oc.n; ++i) { lmin = std::min(lmin, oc.s[i]); lmax = std::max(lmax, oc.s[i]); } }
    else {
      for (int i = 0; i < oc.n; ++i) xm[i] = oc.x0[i];
      int j = c.coord; double g = 0; for (int k = 0; k < oc.n; ++k) if (k != j) g += oc.A[j][k] * (oc.x0[k] - oc.m[k]);
      xm[j] = oc.m[j] - g / oc.A[j][j]; lmin = lmax = oc.A[j][j];
      if (oc.has[j]) { double w = oc.hi[j] - oc.lo[j]; if (!(xm[j] - oc.lo[j] >= 0.1 * w && oc.hi[j] - xm[j] >= 0.1 * w)) return; }
    }
    fmin = evalObj(oc, xm);
    if ((c.kind == O_POWELL || c.kind == O_DSM) && fmin == 0) return;     // their stop test is relative to |f|: undefined at a minimum value of exactly 0
    double dist = 0, xs = 0, d0 = 0;
    for (int i : R.coords) { dist = std::max(dist, std::abs(x[i] - xm[i])); xs = std::max(xs, std::abs(xm[i])); d0 = std::max(d0, std::abs(oc.x0[i] - xm[i])); }
    double D;
    switch (c.kind) {
      case O_POWELL: case O_DSM: D = std::sqrt(2 * c.tol * std::abs(fmin) / lmin); break;
      case O_BRENT: case O_BRENTIN: case O_GOLDEN: D = c.tol * xs + 1e-10; break;
      default: D = std::sqrt(2 * c.tol / lmin);
    }
    double flo = std::sqrt(2 * 64 * EPS * std::max(std::abs(fmin), 1e-300) / lmin) + 64 * EPS * xs;
    double ratio = dist / (D + flo);
    ctx.probe("convergence-checked");
    std::string key = on() + (c.kind == O_META && c.metaA == 2 ? (c.metaTypeA ? ":simplex-inner" : ":simplex-stepwise") : "") + (boxed ? ":boxed" : "");
    if (touched) key += ":touched";
    // BFGS gives up ("function increase") when its last step ended above the previous value: its own diagnosis of a failed line search
    if (c.kind == O_BFGS && !R.steps.empty()) {
      double prev = R.steps.size() >= 2 ? R.steps[R.steps.size() - 2].f : evalObj(oc, oc.x0);
      if (R.steps.back().f > prev) key += ":stopped-on-increase";
    }
    if (g_cal.on) {
      std::string w = "plan=" + std::to_string(p.index) + " dist=" + fmtd(dist) + " d0=" + fmtd(d0) + " tol=" + fmtd(c.tol) + " cond=" + fmtd(lmax / lmin) + " n=" + std::to_string(oc.n) + " pol=" + PNAME[c.policy] + " steps=" + std::to_string(R.steps.size());
      g_cal.see(key, ratio, w);
      if (c.kind == O_DSM) g_cal.see(on() + ":n" + std::to_string(oc.n), ratio, w);
      g_cal.see(key + ":bad1e3", ratio > 1e3 ? 1 : 0, w);
      g_cal.see(key + ":bad30", ratio > 30 ? 1 : 0, w);
      g_cal.see(key + ":progress", d0 > 0 ? dist / d0 : 0, w);
    }
    double K = convK(c.kind, oc.n) * g_kScale;
    if (!(ratio <= K))
      vfail("invariant:convergence", "invariant:convergence:" + key, on() + ": distance to the minimiser " + fmtd(dist) + " (start was at " + fmtd(d0) + "), bound " + fmtd(K * (D + flo)) + " for tolerance " + fmtd(c.tol) + ", smallest curvature " + fmtd(lmin));
  }

  // (7) the clock and the streams are peers the result must not depend on
  void opEnv() {
    if (!inDomain()) { ctx.outcome("skip"); return; }
    Env a = envOf(p, "A"), b = envOf(p, "B");
    const Result& RA = runA();
    if (RA.outcome == 3) { ctx.outcome("inconclusive"); return; }      // judged by the opt op
    Result RB = runOpt(oc, c, b);
    logResult(RB);
    if (RB.clockReads > 0) { if (b.clockMode == 1) ctx.fault("clock-freeze"); else if (b.clockMode == 2) ctx.fault("clock-jump"); else if (b.clockMode == 3) ctx.fault("clock-back"); }
    if (RB.refused > 0) ctx.fault("stream-fail");
    if (b.msgMode == 0 || b.profMode == 0) ctx.fault("stream-null");
    const std::string O = on();
    bool same = RA.outcome == RB.outcome && RA.phase == RB.phase && RA.nbEval == RB.nbEval && RA.pt.size() == RB.pt.size() && RA.nEval == RB.nEval && RA.evalHash == RB.evalHash;
    if (same && RA.outcome == 0) {
      same = std::memcmp(&RA.ret, &RB.ret, 8) == 0 && std::memcmp(&RA.fval, &RB.fval, 8) == 0;
      for (size_t k = 0; same && k < RA.pt.size(); ++k) same = std::memcmp(&RA.pt[k], &RB.pt[k], 8) == 0;
    }
    if (!same) vfail("invariant:environment-dependence", "invariant:environment-dependence:" + O,
                        O + ": the same optimisation under a different clock/stream environment gave a different result (outcome " + std::to_string(RA.outcome) + "/" + std::to_string(RB.outcome) + ", counter " + std::to_string(RA.nbEval) + "/" + std::to_string(RB.nbEval) + ", evaluations " + std::to_string(RA.nEval) + "/" + std::to_string(RB.nEval) + ")");
    ctx.probe("environment-rerun-identical");
    ctx.outcome("read");
  }

  // (6) bracketing: the middle point (by abscissa) of the returned triple has the lowest value
  void opBracket(const Op& o, bool inward) {
    if (!inDomain()) { ctx.outcome("skip"); return; }
    g_clock.reset(0, 1);
    CoutGuard coutGuard;
    int j = static_cast<int>(((o.c % oc.n) + oc.n) % oc.n);
    int mode = static_cast<int>(((o.b % 3) + 3) % 3);       // 0 unconstrained plain parameter, 1 auto-correcting parameter with the box, 2 plain parameter with the box
    SimObjective f(oc);
    bpp::ParameterList pl;
    std::shared_ptr<bpp::ConstraintInterface> ic;
    if (mode != 0 && oc.has[j]) ic.reset(new bpp::IntervalConstraint(oc.lo[j], oc.hi[j], true, true));
    if (mode == 1) { bpp::AutoParameter ap(vname(j), oc.x0[j], ic); ap.setMessageHandler(nullptr); pl.addParameter(ap); }
    else pl.addParameter(bpp::Parameter(vname(j), oc.x0[j], ic));
    double a = oc.x0[j] + o.x, b = a + o.y;
    if (!inward && p.geti("farbr") == 0) {     // near family: the coordinate's minimiser lies strictly between the two initial abscissae
      double xm = condMinOf(oc, j), u = 0.05 + 0.9 * std::abs(o.x - std::floor(o.x));
      a = xm - u * o.y; b = a + o.y;
      if (!((a < xm && xm < b) || (b < xm && xm < a))) { ctx.outcome("skip"); return; }
    }
    if (inward) {     // scan inside an interval that holds start and the coordinate's minimiser
      a = std::min(oc.x0[j], oc.m[j]) - std::abs(o.x); b = std::max(oc.x0[j], oc.m[j]) + std::abs(o.y);
      if (oc.has[j]) { a = std::max(a, oc.lo[j]); b = std::min(b, oc.hi[j]); }
    } else if (mode != 0 && oc.has[j]) { a = std::min(std::max(a, oc.lo[j]), oc.hi[j]); b = std::min(std::max(b, oc.lo[j]), oc.hi[j]); }
    if (!(a != b) || !std::isfinite(a) || !std::isfinite(b)) { ctx.outcome("skip"); return; }
    bpp::Bracket br; int outcome = 0;
    try {
      if (inward) br = bpp::OneDimensionOptimizationTools::inwardBracketMinimum(a, b, f, pl, static_cast<unsigned int>(2 + ((o.d % 30) + 30) % 30));
      else br = bpp::OneDimensionOptimizationTools::bracketMinimum(a, b, f, pl);
    } catch (EvalCap&) { outcome = 3; }
    catch (bpp::ConstraintException&) { outcome = 1; }
    catch (bpp::Exception&) { outcome = 2; }
    const std::string B = inward ? "inwardBracketMinimum" : "bracketMinimum";
    ctx.evi("outcome", outcome); ctx.evi("evals", f.nEval);
    ctx.outcome((std::string("cfg:") + (inward ? "ibracket" : "bracket") + ":mode" + std::to_string(mode) + (oc.type ? ":logcosh" : ":quadratic") + ":n" + std::to_string(oc.n) + (oc.has[j] ? ":box" : ":nobox") + (p.geti("farbr") ? ":far" : ":near") + ":o" + std::to_string(outcome)).c_str());
    if (outcome == 3) vfail("hang:eval-cap", "hang:eval-cap:" + B, B + " used more than " + std::to_string(EVAL_CAP) + " evaluations");
    if (outcome == 1) {
      if (mode == 0 && !(oc.ownBox && oc.anyBox())) vfail("foreign-exception:constraint-without-constraints", "foreign-exception:constraint-without-constraints:" + B, B + ": ConstraintException without any constraint");
      if (mode == 1 && !(oc.ownBox && !oc.has[j])) { /* auto-corrected variable, other coordinates fixed inside the box */
        vfail("invariant:auto-constraint-exception", "invariant:auto-constraint-exception:" + B, B + ": ConstraintException with an auto-correcting parameter"); }
      ctx.rejected(); return;
    }
    if (outcome == 2) { ctx.outcome("raised"); return; }
    if (mode == 1 && f.outside > 0) vfail("invariant:auto-evaluated-outside", "invariant:auto-evaluated-outside:" + B, B + ": evaluated outside the box with an auto-correcting parameter");
    ctx.evd("ax", br.a.x); ctx.evd("bx", br.b.x); ctx.evd("cx", br.c.x);
    const bpp::BracketPoint* pt[3] = {&br.a, &br.b, &br.c};
    // own evaluation at the three abscissae (clipped as the auto-correcting parameter clips them)
    double own[3];
    for (int k = 0; k < 3; ++k) {
      double x[MAXN]; for (int i = 0; i < oc.n; ++i) x[i] = oc.x0[i];
      double v = pt[k]->x; if (mode == 1 && oc.has[j]) v = std::min(std::max(v, oc.lo[j]), oc.hi[j]);
      x[j] = v; own[k] = evalObj(oc, x);
      if (!std::isfinite(pt[k]->x)) vfail("invariant:bracket-nonfinite", "invariant:bracket-nonfinite:" + B, B + ": non-finite abscissa");
      if (!(own[k] == pt[k]->f)) vfail("invariant:bracket-value-vs-point", "invariant:bracket-value-vs-point:" + B, B + ": stored value " + fmtd(pt[k]->f) + " at x=" + fmtd(pt[k]->x) + " but the objective there is " + fmtd(own[k]));
    }
    int idx[3] = {0, 1, 2};
    std::stable_sort(idx, idx + 3, [&](int u, int v) { return pt[u]->x < pt[v]->x; });
    int mid = idx[1];
    // abscissae that coincide up to the rounding of the scan (curr += jump, <= 32 additions) are tied: any of them may be called
    // the middle one, take the lowest
    double xtol = 64 * EPS * std::max(std::abs(br.a.x), std::max(std::abs(br.b.x), std::abs(br.c.x)));
    double xmid = pt[mid]->x;
    for (int k = 0; k < 3; ++k) if (std::abs(pt[k]->x - xmid) <= xtol && pt[k]->f < pt[mid]->f) mid = k;
    if (!inward && !((br.a.x <= br.b.x && br.b.x <= br.c.x) || (br.a.x >= br.b.x && br.b.x >= br.c.x)))
      vfail("invariant:bracket-middle-lowest", "invariant:bracket-middle-lowest:" + B + ":b-not-between", B + ": b.x=" + fmtd(br.b.x) + " is not between a.x=" + fmtd(br.a.x) + " and c.x=" + fmtd(br.c.x));
    for (int k = 0; k < 3; ++k)
      if (!(pt[mid]->f <= pt[k]->f)) vfail("invariant:bracket-middle-lowest", "invariant:bracket-middle-lowest:" + B, B + ": middle x=" + fmtd(pt[mid]->x) + " f=" + fmtd(pt[mid]->f) + " but x=" + fmtd(pt[k]->x) + " has f=" + fmtd(pt[k]->f));
    ctx.probe(inward ? "inward-bracket-checked" : "bracket-checked");
    ctx.ok();
  }

  void run() {
    for (size_t i = 0; i < p.ops.size(); ++i) {
      const Op& o = p.ops[i];
      ctx.beginStep(static_cast<long>(i), o);
      if (o.k == "opt") opOpt();
      else if (o.k == "env") opEnv();
      else if (o.k == "bracket") opBracket(o, false);
      else if (o.k == "ibracket") opBracket(o, true);
      else vfail("harness", "harness:unknown-op", o.k);
    }
  }
};

class C10 : public Harness {
public:
  const char* id() const override { return "C10"; }
  HarnessInfo info() const override {
    HarnessInfo i;
    i.real = {"BfgsMultiDimensions", "ConjugateGradientMultiDimensions", "PowellMultiDimensions", "DownhillSimplexMethod", "SimpleMultiDimensions", "SimpleNewtonMultiDimensions",
              "BrentOneDimension (outward + inward bracketing)", "GoldenSectionSearch", "NewtonOneDimension", "NewtonBacktrackOneDimension", "MetaOptimizer + MetaOptimizerInfos",
              "AbstractOptimizer", "DirectionFunction", "OneDimensionOptimizationTools (bracketMinimum, inwardBracketMinimum, lineMinimization, lineSearch)",
              "FunctionStopCondition / ParametersStopCondition / per-optimiser stop conditions", "AutoParameter, Parameter, ParameterList, IntervalConstraint", "StlOutputStreamWrapper, ApplicationTools::displayUnlimitedGauge"};
    i.stub = {"SimObjective (strictly convex quadratic 0.5 (x-m)'A(x-m)+c with A = Q diag(spectrum) Q', condition <= 1e3, or convex log-cosh objective; real constrained Parameters; analytic derivatives; counts and box-checks every evaluation)",
              "SimListener (records getNumberOfEvaluations()/getFunctionValue() at every step event; does not modify parameters)",
              "SimOutBuf behind message handler, profiler, ApplicationTools::message and std::cout (null / recording / refuses bytes after offset k)",
              "simulated clock behind time() (tick / frozen / jumping hours / stepping backwards)"};
    i.rule = "one run = one objective + one optimiser configuration drawn from the seed (optimiser, dimension 1..6, spectrum, rotations, minimiser, start, box, constraint policy, tolerance, stop condition, budget, verbosity, clock and stream modes), executed as 1-4 ops: opt (full oracle), env (same optimisation re-run under a second clock/stream environment, results compared bit for bit), bracket / ibracket (direct bracketing calls); non-trivial = >=1 op completed with the oracle applied and >= 3 objective evaluations; distinct = distinct fingerprint of the sequence of (op kind, configuration class, outcome class), where the configuration class is optimiser x constraint policy x objective kind x dimension x box placement x budget (none / not reached / cut) x stop-condition kind x verbosity x tolerance reached (plus the inner optimisers and modes of a meta-optimiser), without any values";
    i.simTime = "objective evaluations (global sequence number per optimisation); wall clock simulated through time()";
    i.faultKinds = {"budget-cut", "clock-freeze", "clock-jump", "clock-back", "stream-fail", "stream-null"};
    i.probeNames = {"convergence-checked", "environment-rerun-identical", "bracket-checked", "inward-bracket-checked", "auto-policy-with-box", "constraint-exception-under-keep-or-ignore",
                    "non-quadratic-objective", "improved-on-start", "stream-recorded-output", "simplex-stop-rule-checked"};
    for (int k = 0; k < NOPT; ++k) i.probeNames.push_back(std::string("ran:") + ONAME[k]);
    i.tolerances["descent"] = "f(reported) <= f(start) + 8 ulp * max(|f(start)|, |c|); both evaluated by the harness with the objective's own formula";
    i.tolerances["consistency"] = "optimize() == getFunctionValue() == objective at getParameters(): exact (same deterministic evaluator); objective's own parameters == getParameters(): exact";
    i.tolerances["convergence"] = "max-norm distance to the minimiser <= K * (D + floor); D = sqrt(2 tol / lmin) for absolute function-change stop conditions (Bfgs, ConjugateGradient, Simple*, Newton1D, Meta), sqrt(2 tol |fmin| / lmin) for the relative ones (Powell, DownhillSimplex), tol * |xmin| + 1e-10 for Brent / golden section; floor = sqrt(128 eps max(|fmin|, 1e-300) / lmin) + 64 eps |xmin|; lmin = smallest eigenvalue (curvature along the coordinate for 1-D optimisers); K = Bfgs 1e5, ConjugateGradient 500, Powell 3000, DownhillSimplex 5000 / 1e5 / 3e5 / 3e6 for dimensions 1 / 2-4 / 5 / 6, SimpleMulti/SimpleNewtonMulti 1000, Brent/BrentInward/GoldenSection 50, Newton1D 1e-6, Meta 1e5: each >= 100 x the worst ratio of 130 000 runs of the unchanged tree";
    i.tolerances["stop-rule"] = "DownhillSimplex: 2|yhi-ylo|/(|yhi|+|ylo|) over all vertex values held at return < tolerance whenever isToleranceReached(): exact";
    i.tolerances["bracket-ties"] = "abscissae closer than 64 eps * max|x| count as equal when naming the middle point (rounding of the inward scan)";
    i.cpuLimitFactor = 6;      // one run is up to four optimisations, each bounded by the evaluation cap (seconds of CPU under ASan)
    i.assumptions = {"a run that reaches the harness's evaluation cap while the optimiser's own counter is still below its budget is inconclusive (counted, not reported), also when it made no progress for a long time: only ONE iteration consuming more than half the cap is reported as a hang",
                     
      "monotone decrease step by step, iteration counts, behaviour with a listener that modifies parameters or an objective returning NaN / raising: not asserted",
      "an exception derived from bpp::Exception leaving init()/optimize() is an accepted outcome (the interface documents it); under CONSTRAINTS_KEEP / CONSTRAINTS_IGNORE this includes ConstraintException when a step leaves the box; under CONSTRAINTS_AUTO a ConstraintException is a violation of the feasibility clause",
      "budget clause, as observable: for optimisers driven by AbstractOptimizer::optimize (all of them) the listener sees getNumberOfEvaluations() after each step; step j+1 was started with that value + 1, which must be < nbEvalMax for every step that was started; optimize() may only return with tolerance not reached when the counter is >= nbEvalMax.  The counter is the optimiser's own (it adds the inner line searches' counters, not objective calls)",
      "termination (second criterion): a run stopped by the cap is also reported when more than half of the cap went by without any improvement of the best objective value seen (an optimiser that neither progresses nor stops); a capped run that was still improving is inconclusive",
      "termination: a run is reported as hang only when ONE iteration (init or one step) consumed more than 350 000 objective evaluations; a run that reaches 700 000 evaluations with its own counter still below its budget is inconclusive and not reported",
      "convergence clause only: strictly convex quadratic, no budget cut, the optimiser's own default stop condition with the plan's tolerance, tolerance reported as reached, start and minimiser at least 10% of the box width away from every bound, and no evaluation on or beyond a bound during the run (otherwise a constraint was active)",
      "convergence is not asserted for NewtonBacktrackOneDimension (documented as a sufficient-decrease search, not a minimiser) nor for a meta-optimiser that gives all parameters to one step-wise inner optimiser (stops after one outer step by design)",
      "NewtonBacktrackOneDimension is started at 0 with the exact slope of a descent direction (minimiser > 0), as its documentation requires",
      "1-D interval optimisers get an initial interval that contains the start; inward bracketing gets an interval containing start and minimiser; golden section search documents that it ignores the value given to init(), so its starting value in the descent clause is the better of the two ends of its initial interval",
      "bracketing: 'middle' is the point whose abscissa lies between the other two; for bracketMinimum this must be b; values stored in the triple must be the objective at the stored abscissae (clipped as an auto-correcting parameter clips them)",
      "environment independence compares outcome class, getNumberOfEvaluations(), number and sequence hash of objective evaluations, returned value, getFunctionValue() and reported point bit for bit between two clock/stream environments",
      "generator rarities (constants at the top of h_c10.cpp) keep the triggers of findings known on the unchanged tree to about 1 run in 50 (1 in 400 for those costing 1e6 evaluations)"};
    return i;
  }
  long defaultRuns(Tier t) const override { return t == QUICK ? 40000 : 500000; }

  Plan generate(Rng& rng, Tier) const override {
    Plan p;
    std::vector<double> kw(NOPT, 1.0); kw[O_GOLDEN] = 0.35; kw[O_NBT] = 0.5; kw[O_NEWTON1] = 0.6;
    for (auto& w : kw) if (rng.chance(0.15)) w *= 3;           // swarm
    int kind = static_cast<int>(rng.weighted(kw));
    if (g_onlyKind >= 0) kind = g_onlyKind;
    p.cfg["opt"] = kind;
    bool oneD = is1D(kind);
    int n = oneD ? (rng.chance(0.7) ? 1 : static_cast<int>(rng.range(2, 4))) : static_cast<int>(rng.range(1, 6));
    if (kind == O_NBT) n = 1;
    if (kind == O_META && rng.chance(0.9)) n = std::max(n, 2);
    p.cfg["n"] = n;
    p.cfg["otype"] = rng.chance(0.7) ? 0 : 1;
    p.cfg["coord"] = rng.below(n);
    // spectrum: condition number <= 1e3
    double lmax = rng.logUniform(0.1, 100), cond = rng.chance(0.2) ? 1.0 : rng.logUniform(1, 1e3);
    for (int i = 0; i < n; ++i) { double u = i == 0 ? 0 : (i == 1 ? 1 : rng.unit()); p.cfgd["s" + std::to_string(i)] = lmax / std::pow(cond, u); }
    bool rotate = rng.chance(0.8);
    for (int k = 0; k < n * (n - 1) / 2; ++k) p.cfgd["ang" + std::to_string(k)] = rotate ? rng.real(-3.141592653589793, 3.141592653589793) : 0;
    for (int i = 0; i < n; ++i) {
      std::string k = std::to_string(i);
      double m = rng.chance(0.1) ? 0 : rng.real(-10, 10);
      double r = rng.logUniform(1e-3, 20) * (rng.chance(0.5) ? 1 : -1);
      double x0 = m + r;
      if (kind == O_NBT) { x0 = 0; m = rng.logUniform(0.01, 100); }
      p.cfgd["m" + k] = m; p.cfgd["x" + k] = x0;
      p.cfgd["la" + k] = rng.logUniform(0.1, 5); p.cfgd["lw" + k] = rng.logUniform(0.1, 10);
    }
    p.cfgd["lq"] = rng.logUniform(1e-3, 1);
    p.cfgd["c"] = rng.chance(0.02) ? 0 : rng.logUniform(0.1, 100) * (rng.chance(0.5) ? 1 : -1);
    // box
    // downhill-simplex arms: (a) interior optimum in a medium box under the automatic policy with a sharp tolerance and the
    // optimiser's own stop condition (the configuration in which the simplex's centroid bookkeeping meets the constraints),
    // (b) start exactly on an upper bound (degenerate initial simplex under the automatic policy)
    bool dsmArmA = kind == O_DSM && rng.chance(0.3), dsmArmB = kind == O_DSM && !dsmArmA && rng.chance(0.15);
    long boxStyle = rng.below(12);      // 0-3 none, 4-5 wide, 6-7 tight, 8-9 mixed, 10-11 medium (margins comparable to the start-minimiser distance)
    long mask = 0;
    for (int i = 0; i < n; ++i) {
      std::string k = std::to_string(i);
      double m = p.cfgd["m" + k], x0 = p.cfgd["x" + k], a = std::min(m, x0), b = std::max(m, x0);
      bool has = boxStyle >= 4 && (boxStyle < 8 || rng.chance(0.6));
      bool tight = boxStyle >= 6 && (boxStyle < 8 || rng.chance(0.5));
      double ml = tight ? (rng.chance(0.15) ? 0 : rng.logUniform(1e-4, 1)) : rng.logUniform(5, 1000), mh = tight ? (rng.chance(0.15) ? 0 : rng.logUniform(1e-4, 1)) : rng.logUniform(5, 1000);
      if (dsmArmA) { boxStyle = 10; has = true; }
      if (dsmArmB) { has = true; }
      if (boxStyle >= 10) { ml = 0.3 + rng.real(0.15, 2) * (b - a); mh = 0.3 + rng.real(0.15, 2) * (b - a); }
      if (has) mask |= 1L << i;
      p.cfgd["lo" + k] = a - ml; p.cfgd["hi" + k] = b + mh;
      if (!(p.cfgd["lo" + k] < p.cfgd["hi" + k])) { p.cfgd["hi" + k] = p.cfgd["lo" + k] + 1; }
    }
    if (dsmArmB) { std::string k = std::to_string(rng.below(n)); p.cfgd["x" + k] = p.cfgd["hi" + k]; }
    p.cfg["boxmask"] = mask;
    p.cfg["ownbox"] = rng.chance(0.6) ? 1 : 0;
    p.cfg["cacheder"] = rng.chance(0.35) ? 1 : 0;
    p.cfg["policy"] = static_cast<long>(rng.weighted({5, 3, 2}));
    p.cfgd["tol"] = rng.logUniform(1e-10, 1e-4);
    p.cfg["stop"] = static_cast<long>(rng.weighted({7, 2, 1}));
    p.cfg["budget"] = rng.chance(0.3) ? rng.range(2, 50) : 0;
    p.cfg["verbose"] = static_cast<long>(rng.weighted({5, 4, 1}));
    p.cfg["upd"] = rng.chance(0.3) ? 1 : 0;
    if (dsmArmA) { p.cfg["policy"] = P_AUTO; p.cfg["stop"] = 0; p.cfg["budget"] = 0; p.cfg["otype"] = 0; p.cfgd["tol"] = rng.logUniform(1e-10, 1e-8); }
    if (dsmArmB) { p.cfg["policy"] = P_AUTO; }
    // 1-D specifics: the initial interval holds the start (outward bracketing may leave it; inward scanning needs the minimiser inside)
    {
      std::string k = std::to_string(p.cfg["coord"]);
      double x0 = p.cfgd["x" + k], m = p.cfgd["m" + k];
      double w = rng.logUniform(1e-3, 10), u = rng.chance(0.2) ? 0 : rng.unit();
      double iv0 = x0 - u * w, iv1 = iv0 + w;
      if (kind == O_BRENTIN) { ObjCfg tc = buildCfg(p); double xm = condMinOf(tc, static_cast<int>(p.cfg["coord"])); iv0 = std::min(x0, xm) - rng.logUniform(1e-3, 5); iv1 = std::max(x0, xm) + rng.logUniform(1e-3, 5); }
      if ((mask >> p.cfg["coord"]) & 1) { iv0 = std::max(iv0, p.cfgd["lo" + k]); iv1 = std::min(iv1, p.cfgd["hi" + k]); if (!(iv0 < iv1)) { iv0 = p.cfgd["lo" + k]; iv1 = p.cfgd["hi" + k]; } }
      p.cfgd["iv0"] = iv0; p.cfgd["iv1"] = iv1;
      p.cfgd["nbttest"] = rng.logUniform(0.01, 10);
    }
    p.cfg["metaA"] = rng.below(3); p.cfg["metaB"] = rng.below(4); p.cfg["metaTA"] = rng.below(2); p.cfg["metaTB"] = rng.below(2);
    p.cfg["metaN"] = static_cast<long>(1 + rng.weighted({6, 2, 2}));
    p.cfg["metaMask"] = n > 1 ? rng.range(1, (1L << n) - 2) : rng.below(2);
    if (rng.chance(0.08)) p.cfg["metaMask"] = rng.chance(0.5) ? 0 : (1L << n) - 1;
    bool rareNan = rng.below(META_NAN_ONE_IN) == 0, rareDsmStep = rng.below(META_DSM_STEP_ONE_IN) == 0, rareBfgs = rng.below(META_BFGS_ONE_IN) == 0;
    bool rareNbt = rng.below(NBT_BUDGET_ONE_IN) == 0, rareGolden = rng.below(GOLDEN_PLAIN_ONE_IN) == 0;
    if (kind == O_META) {
      ObjCfg oc = buildCfg(p);
      if (!(evalObj(oc, oc.x0) > 0) && !rareNan) p.cfg["metaN"] = 1;
      if (p.cfg["metaA"] == 2 && p.cfg["metaTA"] == 0 && !rareDsmStep) p.cfg["metaTA"] = 1;
      if (p.cfg["metaB"] == 0 && !rareBfgs) p.cfg["metaB"] = 1 + rng.below(3);
      if (p.cfg["metaA"] == 1 && p.cfg["metaTA"] == 0 && rng.below(META_POWELL_STEP_ONE_IN) != 0) p.cfg["metaTA"] = 1;
      if (p.cfg["metaA"] == 2 && p.cfg["metaTA"] == 0 && p.cfg["stop"] == 0 && p.cfg["budget"] == 0 && p.cfg["otype"] == 0 && rng.below(META_DSM_STEP_CONV_ONE_IN) != 0) p.cfg["stop"] = 1;
    }
    if ((kind == O_DSM || (kind == O_META && p.cfg["metaA"] == 2)) && p.cfg["policy"] == P_AUTO && rng.below(DSM_DEGENERATE_ONE_IN) != 0)
      for (int i = 0; i < n; ++i) { std::string k = std::to_string(i); if (p.cfgd["hi" + k] == p.cfgd["x" + k]) p.cfgd["hi" + k] += 0.3; }
    if (p.cfg["stop"] == 2) p.cfgd["tol"] = std::max(p.cfgd["tol"], 1e-5);      // parameter-change tolerances below the line searches' own resolution rarely terminate before the budget
    if (kind == O_NBT && !rareNbt) { p.cfg["budget"] = 0; p.cfg["stop"] = 0; }
    if (p.cfgd["c"] == 0 && (kind == O_POWELL || (kind == O_META && p.cfg["metaA"] == 1)) && rng.below(POWELL_ZERO_MIN_ONE_IN) != 0) p.cfgd["c"] = 1.5;
    if (kind == O_GOLDEN && !rareGolden) {
      // the initial interval lies between start and minimiser (downhill from the start), and the run is outside the convergence clause
      std::string k = std::to_string(p.cfg["coord"]);
      double x0 = p.cfgd["x" + k], m = p.cfgd["m" + k], u1 = rng.real(0.3, 0.6), u2 = rng.real(0.65, 0.9);
      p.cfgd["iv0"] = std::min(x0 + u1 * (m - x0), x0 + u2 * (m - x0)); p.cfgd["iv1"] = std::max(x0 + u1 * (m - x0), x0 + u2 * (m - x0));
      if (p.cfg["stop"] == 0 && p.cfg["budget"] == 0 && p.cfg["otype"] == 0) { if (rng.chance(0.5)) p.cfg["otype"] = 1; else p.cfg["stop"] = 1; }
    }
    if (kind == O_BRENTIN && rng.below(BRENTIN_CONV_ONE_IN) != 0 && p.cfg["stop"] == 0 && p.cfg["budget"] == 0 && p.cfg["otype"] == 0) { if (rng.chance(0.5)) p.cfg["otype"] = 1; else p.cfg["stop"] = 1; }
    p.cfg["farbr"] = rng.below(FAR_BRACKET_ONE_IN) == 0 ? 1 : 0;
    // environments
    for (const char* sfx : {"A", "B"}) {
      std::string s(sfx);
      p.cfg["clk" + s] = rng.below(4); p.cfg["clkstep" + s] = rng.pick(std::vector<long>{1, 1, 3, 60, 86400});
      p.cfg["msg" + s] = rng.below(3); p.cfg["msgfail" + s] = rng.below(200);
      p.cfg["prof" + s] = rng.below(3); p.cfg["proffail" + s] = rng.below(400);
      p.cfg["app" + s] = rng.below(3); p.cfg["appfail" + s] = rng.below(50);
    }
    if (p.cfg["clkA"] == p.cfg["clkB"]) p.cfg["clkB"] = (p.cfg["clkA"] + 1 + rng.below(3)) % 4;
    // ops
    bool withEnv = rng.chance(0.3);
    long nb = static_cast<long>(rng.weighted({5, 3, 1.5, 0.5}));
    std::vector<Op> ops;
    ops.push_back(Op("opt"));
    if (withEnv) ops.push_back(Op("env"));
    for (long i = 0; i < nb; ++i) {
      Op o(rng.chance(0.6) ? "bracket" : "ibracket");
      o.b = rng.below(3); o.c = rng.below(n); o.d = rng.below(30);
      o.x = rng.chance(0.3) ? 0 : rng.real(-2, 2); o.y = rng.logUniform(1e-3, 5) * (rng.chance(0.5) ? 1 : -1);
      ops.push_back(o);
    }
    // order: brackets may come first or last
    if (rng.chance(0.5)) std::reverse(ops.begin(), ops.end());
    p.ops = ops;
    return p;
  }

  void execute(const Plan& p, Ctx& ctx) const override {
    Exec e(p, ctx);
    try { e.run(); }
    catch (SimViolation&) { throw; }
    catch (EvalCap&) { ctx.fail("hang:eval-cap", "hang:eval-cap:escaped", "evaluation cap exception escaped"); }
    catch (bpp::Exception& ex) { ctx.fail("foreign-exception:bpp-unexpected", "foreign-exception:bpp-unexpected", ex.what()); }
    catch (std::exception& ex) { ctx.fail("foreign-exception:std", "foreign-exception:std", ex.what()); }
  }
  bool nontrivial(const Ctx& c) const override { return (c.okSteps + c.rejSteps) >= 1 && c.custom >= 3; }
};

Registrar reg(new C10());

}  // namespace
