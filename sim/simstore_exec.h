// Simulated storage world, part 2: the executor (write -> store -> [fault] -> read through the real readers).
// One executor, two oracles: cmp=false (C16: returns-or-raises-bpp::Exception only) and cmp=true (C17: read back == written).
#ifndef DSIM_SIMSTORE_EXEC_H
#define DSIM_SIMSTORE_EXEC_H
#include "simstore.h"
#include <Bpp/App/ApplicationTools.h>
#include <Bpp/App/NumCalcApplicationTools.h>
#include <Bpp/Utils/AttributesTools.h>
#include <Bpp/Text/KeyvalTools.h>
#include <Bpp/Text/NestedStringTokenizer.h>
#include <Bpp/Text/StringTokenizer.h>
#include <Bpp/Text/TextTools.h>
#include <Bpp/Numeric/Function/Operators/ComputationTree.h>

namespace simstore {

const size_t MAXDOCS = 4;
inline const char* writerOp(int kind) { static const char* W[] = {"w.table", "w.dist", "w.pfmt", "w.plist", "w.interval", "w.opt", "w.chain", "w.keyval", "w.formula"}; return W[kind]; }
const long CROSS = 1L << 20;       // reader option bit: read whatever document the selector hits, not one of the natural kind
const long RISKY = 1L << 21;
const long NATURAL = 1L << 22;     // reader option bit: take separator / header / delimiter options from the way the document was written       // reader option bit: also make the follow-up call that a known defect lives in (rate-limited by the generator)

// Detector for an indeterminate result of TextTools::fromString<T>("") (repaired: fixes/01): the same call is made twice over
// differently painted stack memory; a pure conversion must give the same value both times.  Sound by construction: when the
// compiler happens to place the temporary elsewhere, both calls agree and nothing is reported.
__attribute__((noinline)) inline void paintStack(unsigned v) { volatile unsigned a[1536]; for (int i = 0; i < 1536; ++i) a[i] = v; }
template <class T> __attribute__((noinline)) T convertEmpty() { return bpp::TextTools::fromString<T>(std::string()); }
template <class T> __attribute__((noinline)) T toEmpty() { return bpp::TextTools::to<T>(std::string()); }

class Exec {
  const Plan& p; Ctx& ctx; bool cmp;
  std::vector<Doc> docs;
  std::map<std::string, std::string> lastMap; bool haveMap = false, mapPristine = false, mapAcyclic = false, mapResolved = false, mapDollar = false;
  std::unique_ptr<bpp::DataTable> lastTable;
  long slotCounter = 0;
public:
  Exec(const Plan& pl, Ctx& c, bool compare) : p(pl), ctx(c), cmp(compare) {}

  // ------------------------------------------------------------ outcome plumbing
  template <class F> int guard(const char* reader, F f) {
    ctx.probe(std::string("reach:") + reader);
    try { f(); return 0; }
    catch (SimViolation&) { throw; }
    catch (bpp::Exception&) { ctx.probe(std::string("raised:") + reader); return 1; }
    catch (std::exception& e) { std::string t = stdType(e); ctx.fail("foreign-exception:" + t, "foreign-exception:" + t + ":" + reader, std::string(reader) + " let " + t + " escape: " + e.what()); }
    catch (...) { ctx.fail("foreign-exception:non-std", std::string("foreign-exception:non-std:") + reader, std::string(reader) + " threw an object that is not a std::exception"); }
    return -1;
  }
  void rt(bool cond, const std::string& kind, const std::string& q, const std::string& detail) {
    if (!cond) ctx.fail("roundtrip:" + kind, "roundtrip:" + kind + ":" + q, detail);
  }
  void done(int got) { ctx.ev(got == 0 ? "ret" : "raise"); if (got == 0) ctx.ok(); else ctx.rejected(); }

  Doc* pick(long a, int kind, long opts) {
    if (docs.empty()) return nullptr;
    Doc& cand = docs[static_cast<size_t>(a) % docs.size()];
    if (cand.kind == kind) return &cand;
    if (!(opts & CROSS) || cmp) {
      std::vector<size_t> m; for (size_t i = 0; i < docs.size(); ++i) if (docs[i].kind == kind || (kind == K_OPT && docs[i].kind == K_CHAIN && !cmp)) m.push_back(i);
      if (!m.empty()) return &docs[m[static_cast<size_t>(a) % m.size()]];
      if (cmp) return nullptr;
    }
    return &docs[static_cast<size_t>(a) % docs.size()];
  }
  // TextTools::fromString<T>/to<T> used to return an UNINITIALISED value for an empty string (fixed: fixes/01).  The inputs
  // that take that path are still recognised from the text, now only to prove that they are reached (probes).
  static bool globMatch(const std::string& p, size_t i, const std::string& n, size_t j) {
    if (i == p.size()) return j == n.size();
    if (p[i] == '*') { for (size_t k = j; k <= n.size(); ++k) if (globMatch(p, i + 1, n, k)) return true; return false; }
    return j < n.size() && p[i] == n[j] && globMatch(p, i + 1, n, j + 1);
  }
  static bool rangeHazard(const std::string& value) {
    std::string s = value;
    if (s.size() >= 2 && s[0] == '(' && s[s.size() - 1] == ')') s = s.substr(1, s.size() - 2);
    size_t b = 0;
    while (b <= s.size()) {
      size_t e = s.find(',', b); if (e == std::string::npos) e = s.size();
      std::string t = s.substr(b, e - b); size_t q = t.find('-');
      if (!t.empty() && q != std::string::npos && (q == 0 || q + 1 == t.size())) return true;
      b = e + 1;
    }
    return false;
  }
  // Text whose numbers are grammatical but far outside any regular range: a numeric token of magnitude >= 1e6 (or infinite: a
  // digit damaged into an exponent sign), or a zero / negative argument in a TruncExponential description.  Such values reach the
  // distributions' numerics and the vector expansion unvalidated (known findings); the tag narrows those findings to this trigger.
  static bool outOfRangeNumber(const std::string& s) {
    size_t i = 0;
    while (i < s.size()) {
      if (!(std::isdigit(static_cast<unsigned char>(s[i])) || s[i] == '.')) { ++i; continue; }
      size_t j = i; while (j < s.size() && (std::isdigit(static_cast<unsigned char>(s[j])) || s[j] == '.' || s[j] == 'e' || s[j] == 'E' || (s[j] == '+' && j > i && (s[j - 1] == 'e' || s[j - 1] == 'E')))) ++j;
      double x = strtod(s.substr(i, j - i).c_str(), nullptr);
      if (!(std::abs(x) < 1e6)) return true;
      i = j;
    }
    if (s.find("TruncExponential") != std::string::npos)
      for (size_t p = s.find('='); p != std::string::npos; p = s.find('=', p + 1)) {
        size_t e = s.find_first_of(",)\n", p + 1); std::string v = s.substr(p + 1, e == std::string::npos ? std::string::npos : e - p - 1);
        if (v.empty() || v.find_first_not_of("0123456789.e+-") != std::string::npos) continue;
        if (strtod(v.c_str(), nullptr) <= 0) return true;
      }
    return false;
  }
  static bool emptyArgHazard(const std::string& desc) {
    for (size_t i = 0; i < desc.size(); ++i) if (desc[i] == '=') {
      size_t j = i + 1; while (j < desc.size() && std::isspace(static_cast<unsigned char>(desc[j]))) ++j;
      if (j >= desc.size() || desc[j] == ',' || desc[j] == ')') return true;
    }
    return false;
  }
  static long chunkOf(long c) { return c <= 0 ? (1L << 20) : c; }
  void noteChunks(const SimInBuf& b) { if (b.underflows > 1) ctx.fault("read-chunking"); }
  static std::string printable(const std::string& s) { std::string r; for (unsigned char c : s.substr(0, 400)) { if (c >= 32 && c < 127) r += static_cast<char>(c); else { char b[8]; snprintf(b, sizeof b, "\\x%02x", c); r += b; } } return r; }

  // first non-blank line of a stored file, read through the library's own line reader
  bool firstLine(const Doc& d, size_t file, long chunk, uint64_t cs, std::string& out) {
    SimInBuf ib(d.stored[file % d.stored.size()], cs, chunkOf(chunk)); std::istream in(&ib);
    int g = guard("FileTools::getNextLine", [&] { out = bpp::FileTools::getNextLine(in); });
    noteChunks(ib);
    return g == 0;
  }

  // ------------------------------------------------------------ run
  void run() {
    for (size_t i = 0; i < p.ops.size(); ++i) {
      const Op& o = p.ops[i];
      ctx.beginStep(static_cast<long>(i), o);
      step(o);
      if (ctx.trace && (o.k[0] == 'w' || o.k[0] == 'f')) for (auto& d : docs) for (size_t f = 0; f < d.stored.size(); ++f) ctx.traceLines.push_back("    stored " + std::string(kindName(d.kind)) + "/" + d.names[f] + " = \"" + printable(d.stored[f]) + "\"");
      uint64_t h = 0x9e37; for (auto& d : docs) for (auto& s : d.stored) h = h * 1099511628211ULL ^ strHash(s);
      ctx.state(h ^ strHash(o.k));
    }
  }

  void step(const Op& o) {
    const std::string& k = o.k;
    if (k.compare(0, 2, "w.") == 0) write(o);
    else if (k.compare(0, 2, "f.") == 0) fault(o);
    else if (k == "r.table" || k == "r.table.seprow") rTable(o);
    else if (k == "r.tedit") rTableEdit(o);
    else if (k == "r.trowname") rTableRowName(o);
    else if (k == "r.lines") rLines(o);
    else if (k == "r.optfile") rOptFile(o);
    else if (k == "r.optmap") rOptMap(o);
    else if (k == "r.resolve") rResolve(o);
    else if (k == "r.query") rQuery(o);
    else if (k == "r.numcalc") rNumcalc(o);
    else if (k == "r.text") rText(o);
    else if (k == "r.parseopts") rParseOpts(o);
    else if (k == "r.dist" || k == "r.dist.truncexp" || k == "r.dist.param") rDist(o);
    else if (k == "r.pfmt") rPfmt(o);
    else if (k == "r.plist") rPlist(o);
    else if (k == "r.interval") rInterval(o);
    else if (k == "r.proc") rProc(o);
    else if (k == "r.keyvals") rKeyvals(o);
    else if (k == "r.nested") rNested(o);
    else if (k == "r.tok" || k == "r.tok.risky") rTok(o);
    else if (k == "r.formula") rFormula(o);
    else ctx.fail("harness", "harness:unknown-op", k);
  }

  // ------------------------------------------------------------ writes
  // also used by the generators, which look at the bytes a write op will produce to place (or keep away from) exact triggers
  static bool makeDoc(const Op& o, bool strict, Doc& d) {
    bool ok = false; uint64_t seed = static_cast<uint64_t>(o.a);
    const std::string& k = o.k;
    if (k == "w.table") ok = Writers::table(d, seed, o.b, strict);
    else if (k == "w.dist") ok = Writers::dist(d, seed, o.b, o.c);
    else if (k == "w.pfmt") ok = Writers::pfmt(d, seed, o.b);
    else if (k == "w.plist") ok = Writers::plist(d, seed, o.b, o.c);
    else if (k == "w.interval") ok = Writers::interval(d, seed, o.b);
    else if (k == "w.opt") ok = Writers::opt(d, seed, o.b);
    else if (k == "w.chain") ok = Writers::chain(d, seed, o.b);
    else if (k == "w.keyval") ok = Writers::keyval(d, seed, o.b);
    else if (k == "w.formula") ok = Writers::formula(d, seed, o.b);
    if (ok) d.stored = d.orig;
    return ok;
  }
  // the same fault functions the executor applies; returns whether the stored bytes changed
  static bool applyFault(const Op& o, std::string& s) {
    if (o.k == "f.torn") return faultTorn(s, o.d);
    if (o.k == "f.lost") return faultLost(s);
    if (o.k == "f.short") return faultShort(s, o.d, static_cast<long>(o.x));
    if (o.k == "f.flip") return faultFlip(s, o.d, static_cast<long>(o.x));
    if (o.k == "f.set") return faultSet(s, o.d, static_cast<long>(o.x));
    if (o.k == "f.dup") return faultDupLine(s, o.d);
    if (o.k == "f.drop") return faultDropLine(s, o.d);
    if (o.k == "f.crlf") return faultCrlf(s);
    return false;
  }
  void write(const Op& o) {
    Doc d;
    { bool known = false; for (int q = 0; q < NKIND; ++q) if (o.k == writerOp(q)) known = true; if (!known) ctx.fail("harness", "harness:unknown-op", o.k); }
    if (!makeDoc(o, cmp, d)) { ctx.outcome("skip"); return; }
    size_t bytes = 0; for (auto& s : d.orig) bytes += s.size();
    ctx.evi("bytes", static_cast<long>(bytes));
    ctx.probe(std::string("written:") + kindName(d.kind));
    if (docs.size() < MAXDOCS) docs.push_back(d); else docs[static_cast<size_t>(slotCounter++) % MAXDOCS] = d;
    ctx.ok();
  }

  // ------------------------------------------------------------ storage faults
  void fault(const Op& o) {
    if (docs.empty() || cmp) { ctx.outcome("skip"); return; }
    Doc& d = docs[static_cast<size_t>(o.a) % docs.size()];
    size_t f = static_cast<size_t>(o.c) % d.stored.size();
    if (o.b & 1) d.stored[f] = d.orig[f];
    std::string& s = d.stored[f];
    if (p.geti("exactcut") && o.k == "f.torn" && static_cast<size_t>(o.d) > d.orig[f].size()) { ctx.outcome("skip"); return; }
    const char* kind = o.k == "f.torn" ? "storage-torn" : o.k == "f.lost" ? "storage-lost" : o.k == "f.short" ? "storage-short" : (o.k == "f.flip" || o.k == "f.set") ? "storage-flip"
                     : o.k == "f.dup" ? "dup-line" : o.k == "f.drop" ? "drop-line" : o.k == "f.crlf" ? "crlf" : nullptr;
    if (!kind) ctx.fail("harness", "harness:unknown-op", o.k);
    bool fired = applyFault(o, s);
    if (!fired) { ctx.outcome("skip"); return; }
    ++d.faults; ctx.fault(kind); ctx.evi("size", static_cast<long>(s.size()));
    ctx.ok();
  }

  // ------------------------------------------------------------ tables
  static std::string readSep(long idx) { idx %= 7; if (idx < 5) return tableSeps()[static_cast<size_t>(idx)]; return idx == 5 ? ", " : "\t "; }
  void rTable(const Op& o) {
    Doc* d = pick(o.a, K_TABLE, o.b); if (!d) { ctx.outcome("skip"); return; }
    long sepIdx = o.b % 7; bool header = (o.b / 7) & 1; int rn = static_cast<int>((o.b / 14) % 8) - 1;
    if ((o.b & NATURAL) && d->kind == K_TABLE) { sepIdx = d->t.sep; header = d->t.hasCN; rn = ((o.b & 1) && !d->t.hasRN && d->t.uniqueCol >= 0 && d->t.nc >= 2) ? d->t.uniqueCol : -1; }
    std::string sep = readSep(sepIdx);
    SimInBuf ib(d->stored[0], static_cast<uint64_t>(o.d), chunkOf(o.c)); std::istream in(&ib);
    std::unique_ptr<bpp::DataTable> t;
    int g = guard("DataTable::read", [&] { t = bpp::DataTable::read(in, sep, header, rn); });
    noteChunks(ib);
    const TableModel& m = d->t;
    bool inDomain = cmp && d->kind == K_TABLE && d->pristine() && sepIdx == m.sep && m.nc >= 1 && !m.emptyCells && !(m.hasRN && !m.hasCN)
                    && m.nr + (m.hasCN ? 1 : 0) >= 2 && (m.hasRN || header == m.hasCN) && (rn == -1 || (!m.hasRN && rn == m.uniqueCol && m.nc >= 2));
    if (inDomain) {
      std::string q = std::string(m.hasCN ? "cn" : "nocn") + (m.hasRN ? "+rn" : "") + (rn >= 0 ? "+rowNamesColumn" : "");
      std::string shown = printable(d->stored[0]);
      rt(g == 0, "table", "raised:" + q, "DataTable::read raised on a table it wrote: " + shown);
      std::vector<std::string> ecn = m.cn, ern = m.rn; std::vector<std::vector<std::string>> ec = m.cells;
      if (rn >= 0) { ern.clear(); for (auto& row : ec) { ern.push_back(row[static_cast<size_t>(rn)]); row.erase(row.begin() + rn); } if (m.hasCN) ecn.erase(ecn.begin() + rn); }
      size_t enc = m.nc - (rn >= 0 ? 1 : 0);
      rt(t->getNumberOfRows() == m.nr && t->getNumberOfColumns() == enc, "table", "shape:" + q, "read " + std::to_string(t->getNumberOfRows()) + "x" + std::to_string(t->getNumberOfColumns()) + ", wrote " + std::to_string(m.nr) + "x" + std::to_string(enc) + ": " + shown);
      rt(t->hasColumnNames() == m.hasCN && (!m.hasCN || t->getColumnNames() == ecn), "table", "column-names:" + q, "column names differ: " + shown);
      bool ehr = m.hasRN || (rn >= 0 && m.nr > 0);
      rt(t->hasRowNames() == ehr && (!ehr || t->getRowNames() == ern), "table", "row-names:" + q, "row names differ: " + shown);
      for (size_t i = 0; i < m.nr; ++i) for (size_t j = 0; j < enc; ++j) rt((*t)(i, j) == ec[i][j], "table", "cell:" + q, "cell (" + std::to_string(i) + "," + std::to_string(j) + ") read '" + (*t)(i, j) + "' wrote '" + ec[i][j] + "'");
      ctx.probe("compared:table");
    }
    if (g == 0) { ctx.evi("nr", static_cast<long>(t->getNumberOfRows())); ctx.evi("nc", static_cast<long>(t->getNumberOfColumns())); lastTable = std::move(t); }
    done(g);
  }

  // editing calls on the table just read; indices run one past the end on purpose (documented to raise)
  void rTableEdit(const Op& o) {
    if (!lastTable) { ctx.outcome("skip"); return; }
    bpp::DataTable& t = *lastTable;
    long script = o.d; int raised = 0;
    for (int e = 0; e < 3; ++e) {
      long code = script % 18; script /= 18;
      size_t nr = t.getNumberOfRows(), nc = t.getNumberOfColumns();
      if (nr > 64 || nc > 64) { ctx.outcome("skip"); return; }     // a wrapped counter after an earlier edit: nothing meaningful left to ask
      size_t ri = static_cast<size_t>(o.b + e) % (nr + 1), ci = static_cast<size_t>(o.c + e) % (nc + 1);
      std::string rname = "nosuch", cname = "nosuch";
      if (t.hasRowNames() && ri < nr) guard("DataTable::edit", [&] { rname = t.getRowName(ri); });
      if (t.hasColumnNames() && ci < nc) guard("DataTable::edit", [&] { cname = t.getColumnName(ci); });
      std::vector<std::string> row(nc + (code == 17 ? 1 : 0), "x"), col(nr + (code == 16 ? 1 : 0), "y");
      raised += guard("DataTable::edit", [&] {
        switch (code) {
          case 0: t.deleteRow(ri); break;
          case 1: t.deleteRow(rname); break;
          case 2: t.deleteColumn(ci); break;
          case 3: t.deleteColumn(cname); break;
          case 4: case 17: t.addRow(row); break;
          case 5: t.addRow("new" + std::to_string(e), row); break;
          case 6: case 16: t.addColumn(col); break;
          case 7: t.addColumn("newc" + std::to_string(e), col); break;
          case 8: t.setRow(ri, row); break;
          case 9: ctx.evi("has", (t.hasRow(rname) ? 1 : 0) + (t.hasColumn(cname) ? 2 : 0)); break;
          case 10: { std::vector<std::string> r1 = t.getRow(ri); std::vector<std::string> r2 = t.getRow(rname); ctx.evi("rowlen", static_cast<long>(r1.size() + r2.size())); break; }
          case 11: { std::vector<std::string> c1 = t.getColumn(ci); ctx.evi("collen", static_cast<long>(c1.size())); std::vector<std::string> c2 = t.getColumn(cname); break; }
          case 12: { std::string v = t(ri, ci); ctx.evi("celllen", static_cast<long>(v.size())); break; }
          case 13: { std::string v = t(rname, cname); v = t(rname, ci); v = t(ri, cname); break; }
          case 14: { bpp::DataTable cp(t); bpp::DataTable as(1, 1); as = t; ctx.evi("copy", static_cast<long>(cp.getNumberOfRows() + as.getNumberOfColumns())); break; }
          default: {
            SimOutBuf ob; std::ostream os(&ob);
            if (e & 1) { bpp::StlOutputStreamWrapper w(&os); bpp::DataTable::write(t, w, ",", o.b & 1); } else bpp::DataTable::write(t, os, ",", o.b & 1);
            ctx.evi("rewritten", static_cast<long>(ob.data.size()));
          }
        }
      });
    }
    ctx.evi("raised", raised);
    ctx.ok();
  }

  // setRowName writes through an empty name list when the table has no row names (confirmed defect): its own op kind,
  // generated only in the rare risky runs
  void rTableRowName(const Op& o) {
    if (!lastTable) { ctx.outcome("skip"); return; }
    bpp::DataTable& t = *lastTable;
    size_t nr = t.getNumberOfRows(); if (nr > 64) { ctx.outcome("skip"); return; }
    size_t ri = static_cast<size_t>(o.b) % (nr + 1);
    int g = guard("DataTable::setRowName", [&] { t.setRowName(ri, (o.c & 1) ? "renamed" : (t.hasRowNames() ? t.getRowName(0) : std::string("r0"))); });
    done(g);
  }

  // ------------------------------------------------------------ raw line readers
  void rLines(const Op& o) {
    Doc* d = pick(o.a, static_cast<int>(o.d % NKIND), o.b | CROSS); if (!d) { ctx.outcome("skip"); return; }
    const std::string& s = d->stored[static_cast<size_t>(o.d) % d->stored.size()];
    SimInBuf ib(s, static_cast<uint64_t>(o.a), chunkOf(o.c)); std::istream in(&ib);
    size_t n = 0; int g;
    if (o.b & 1) g = guard("FileTools::putStreamIntoVectorOfStrings", [&] { n = bpp::FileTools::putStreamIntoVectorOfStrings(in).size(); });
    else g = guard("FileTools::getNextLine", [&] { size_t guardN = s.size() + 3; while (!in.eof() && n < guardN) { std::string l = bpp::FileTools::getNextLine(in); ++n; } if (n >= guardN) ctx.fail("hang", "hang:getNextLine-no-progress", "getNextLine never reaches the end of the stream"); });
    noteChunks(ib);
    ctx.evi("lines", static_cast<long>(n));
    if (cmp && d->pristine() && (o.b & 1)) { size_t nl = 0; for (char c : s) if (c == '\n') ++nl; rt(g == 0 && n == nl + 1, "lines", "count", "putStreamIntoVectorOfStrings returned " + std::to_string(n) + " strings for " + std::to_string(nl) + " newline characters"); }
    done(g);
  }

  // ------------------------------------------------------------ option files
  static std::string delimOf(long b) { if (b & NATURAL) return "="; switch ((b >> 1) % 8) { case 6: return ":"; case 7: return "=="; default: return "="; } }
  void storeMap(const Doc& d, const std::map<std::string, std::string>& m, bool defaultDelim) {
    lastMap = m; haveMap = true; mapResolved = false;
    mapPristine = d.kind == K_OPT && d.pristine() && defaultDelim; mapAcyclic = !d.opt.cyclic; mapDollar = d.opt.dollarShape;
    ctx.evi("keys", static_cast<long>(m.size()));
    uint64_t h = 7; for (auto& kv : m) h = h * 1099511628211ULL ^ strHash(kv.first) ^ (strHash(kv.second) << 1);
    ctx.ev("map=" + std::to_string(h));
  }
  void compareOptMap(const Doc& d, int g, const std::map<std::string, std::string>& got, const std::string& delim, const char* reader) {
    if (!(cmp && d.kind == K_OPT && d.pristine() && delim == "=" && !d.opt.cComment && !d.opt.dupKeys)) return;
    rt(g == 0, "optfile", std::string("raised:") + reader, std::string(reader) + " raised on a well-formed option file: " + printable(d.stored[0]));
    if (got != d.opt.map) {
      std::string why;
      for (auto& kv : d.opt.map) { auto it = got.find(kv.first); if (it == got.end()) { why = "missing key " + kv.first; break; } if (it->second != kv.second) { why = "key " + kv.first + " read '" + it->second + "' wrote '" + kv.second + "'"; break; } }
      if (why.empty()) why = "extra keys read";
      rt(false, "optfile", "map", why + " in: " + printable(d.stored[0]));
    }
    ctx.probe("compared:optfile");
  }
  void rOptFile(const Op& o) {
    Doc* d = pick(o.a, K_OPT, o.b); if (!d) { ctx.outcome("skip"); return; }
    Scratch sc; if (!sc.ok) { ctx.probe("scratch-unavailable"); ctx.outcome("skip"); return; }
    for (size_t f = 0; f < d->stored.size(); ++f) sc.put(d->names[f], d->stored[f]);
    std::string delim = delimOf(o.b);
    std::map<std::string, std::string> m; int g;
    { CoutMute mute; sc.enter(); g = guard("AttributesTools::getAttributesMapFromFile", [&] { if (o.b & 1) m = bpp::AttributesTools::getAttributesMapFromFile(d->names[0], delim); else bpp::AttributesTools::getAttributesMapFromFile(d->names[0], m, delim); }); sc.leave(); }
    compareOptMap(*d, g, m, delim, "getAttributesMapFromFile");
    if (g == 0) storeMap(*d, m, delim == "=");
    done(g);
  }
  void rOptMap(const Op& o) {
    Doc* d = pick(o.a, K_OPT, o.b); if (!d) { ctx.outcome("skip"); return; }
    SimInBuf ib(d->stored[0], static_cast<uint64_t>(o.d), chunkOf(o.c)); std::istream in(&ib);
    std::vector<std::string> lines;
    if (guard("FileTools::putStreamIntoVectorOfStrings", [&] { lines = bpp::FileTools::putStreamIntoVectorOfStrings(in); }) != 0) { done(1); return; }
    noteChunks(ib);
    std::string delim = delimOf(o.b);
    std::map<std::string, std::string> m;
    int g = guard("AttributesTools::getAttributesMap", [&] { if (o.b & 1) m = bpp::AttributesTools::getAttributesMap(lines, delim); else bpp::AttributesTools::getAttributesMap(lines, m, delim); });
    compareOptMap(*d, g, m, delim, "getAttributesMap");
    if (g == 0) storeMap(*d, m, delim == "=");
    done(g);
  }
  static std::string expand(const std::map<std::string, std::string>& m, const std::string& v, int depth) {
    std::string r; size_t b = 0;
    while (true) {
      size_t p = v.find("$(", b); if (p == std::string::npos || depth > 20) { r += v.substr(b); break; }
      size_t e = v.find(')', p); if (e == std::string::npos) { r += v.substr(b); break; }
      r += v.substr(b, p - b);
      auto it = m.find(v.substr(p + 2, e - p - 2)); if (it != m.end()) r += expand(m, it->second, depth + 1);
      b = e + 1;
    }
    return r;
  }
  void rResolve(const Op& o) {
    if (!haveMap) { ctx.outcome("skip"); return; }
    static const char VC[][3] = {{'$', '(', ')'}, {'$', '(', ')'}, {'$', '(', ')'}, {'%', '{', '}'}, {'$', '[', ']'}, {'@', '(', ')'}};
    const char* vc = VC[cmp ? 0 : o.b % 6];
    std::map<std::string, std::string> mapBefore = lastMap;
    int g = guard("AttributesTools::resolveVariables", [&] { if ((o.b / 6) & 1) bpp::AttributesTools::resolveVariables(lastMap); else bpp::AttributesTools::resolveVariables(lastMap, vc[0], vc[1], vc[2]); });
    if (cmp && mapPristine && mapAcyclic && mapDollar) {
      // substitution itself can spell new references here: assert exactly the statement — a fixed point in which no resolvable reference remains
      rt(g == 0, "optfile", "resolve-raised", "resolveVariables raised on acyclic definitions");
      for (auto& kv : lastMap) {
        size_t p = 0;
        while ((p = kv.second.find("$(", p)) != std::string::npos) {
          size_t e = kv.second.find(')', p);
          if (e != std::string::npos) rt(mapBefore.count(kv.second.substr(p + 2, e - p - 2)) == 0, "optfile", "resolvable-reference-remains", "after resolveVariables " + kv.first + " = '" + kv.second + "' still refers to a defined variable");
          p += 2;
        }
      }
      std::map<std::string, std::string> again = lastMap;
      int g2 = guard("AttributesTools::resolveVariables", [&] { bpp::AttributesTools::resolveVariables(again); });
      rt(g2 == 0 && again == lastMap, "optfile", "not-a-fixed-point", "a second resolveVariables changed the map");
      ctx.probe("compared:resolve-dollar-shape");
    } else if (cmp && mapPristine && mapAcyclic) {
      rt(g == 0, "optfile", "resolve-raised", "resolveVariables raised on acyclic definitions");
      for (auto& kv : lastMap) rt(kv.second.find("$(") == std::string::npos, "optfile", "unresolved-reference", "after resolveVariables " + kv.first + " = '" + kv.second + "'");
      // documented meaning of a reference (class documentation: file=$(data).out with data=LSU gives LSU.out); undefined names vanish
      for (auto& kv : mapBefore) { std::string want = expand(mapBefore, kv.second, 0); rt(lastMap[kv.first] == want, "optfile", "resolved-value", kv.first + " = '" + kv.second + "' resolved to '" + lastMap[kv.first] + "', expected '" + want + "'"); }
      ctx.probe("compared:resolve");
    }
    mapResolved = true;
    uint64_t h = 9; for (auto& kv : lastMap) h = h * 1099511628211ULL ^ strHash(kv.second);
    ctx.ev("resolved=" + std::to_string(h));
    done(g);
  }
  void checkEmptyConversion() {
    paintStack(0x11111111u); int a = convertEmpty<int>(); paintStack(0x22222222u); int b = convertEmpty<int>();
    paintStack(0x11111111u); unsigned c = toEmpty<unsigned int>(); paintStack(0x22222222u); unsigned d = toEmpty<unsigned int>();
    ctx.probe("reach:TextTools::fromString-empty");
    if (a != b) ctx.fail("invariant:indeterminate-conversion", "invariant:indeterminate-conversion:TextTools::fromString", "fromString<int>(\"\") returned two different values for the same (empty) input");
    if (c != d) ctx.fail("invariant:indeterminate-conversion", "invariant:indeterminate-conversion:TextTools::to", "to<unsigned int>(\"\") returned two different values for the same (empty) input");
  }
  void rQuery(const Op& o) {
    if (!haveMap) { ctx.outcome("skip"); return; }
    checkEmptyConversion();
    using bpp::ApplicationTools;
    long idx = 0; int raised = 0; uint64_t acc = 3;
    std::string suffix = (o.b & 1) ? "_sfx" : ""; bool sOpt = o.b & 2; int warn = (o.b & 4) ? 1 : 0;
    std::vector<std::string> keys; for (auto& kv : lastMap) { if (keys.size() < 14) keys.push_back(kv.first); }
    keys.push_back("absent.key");
    for (const std::string& key : keys) {
      long type = (o.d + idx++) % 14;
      const char* rd = type >= 8 && type <= 12 ? "ApplicationTools::getVectorParameter" : (type == 13 ? "ApplicationTools::matchingParameters" : "ApplicationTools::getParameter");
      // patterns built by harness code outside the guarded call
      auto itv = lastMap.find(key);
      std::string pat1 = itv == lastMap.end() ? std::string("*") : itv->second.substr(0, 6) + "*";
      std::string pat2 = "*" + key.substr(key.size() / 2);
      std::string pat3 = key.empty() ? std::string("*") : key.substr(0, 1) + "*" + key.substr(key.size() - 1);
      if (type == 10) { auto hv = lastMap.find(key + suffix); if (hv == lastMap.end() || bpp::TextTools::isEmpty(hv->second)) hv = lastMap.find(key); if (hv != lastMap.end() && rangeHazard(hv->second)) ctx.probe("range-with-empty-bound"); }
      { auto hv = lastMap.find(key + suffix); if (hv == lastMap.end()) hv = lastMap.find(key); ctx.hazard(hv != lastMap.end() && outOfRangeNumber(hv->second) ? "out-of-range-number" : ""); }
      raised += guard(rd, [&] {
        switch (type) {
          case 0: acc ^= strHash(hexfloat(ApplicationTools::getDoubleParameter(key, lastMap, 1.5, suffix, sOpt, warn))); break;
          case 1: acc += static_cast<uint64_t>(ApplicationTools::getIntParameter(key, lastMap, 7, suffix, sOpt, warn)); break;
          case 2: acc += ApplicationTools::getBooleanParameter(key, lastMap, true, suffix, sOpt, warn) ? 1 : 2; break;
          case 3: acc ^= strHash(ApplicationTools::getStringParameter(key, lastMap, "dflt", suffix, sOpt, warn)); break;
          case 4: acc += static_cast<uint64_t>(ApplicationTools::getParameter<int>(key, lastMap, 3, suffix, sOpt, warn)); break;
          case 5: acc ^= strHash(hexfloat(ApplicationTools::getParameter<double>(key, lastMap, 0.5, suffix, sOpt, warn))); break;
          case 6: acc += ApplicationTools::getParameter<unsigned int>(key, lastMap, 2u, suffix, sOpt, warn); break;
          case 7: {
            std::string path = ApplicationTools::getAFilePath(key, lastMap, o.b & 8, o.b & 16, suffix, sOpt, "none", warn);
            acc ^= strHash(path);
            // the path just read is taken apart the way an application does before opening it
            char sep = (o.b & 32) ? '\\' : '/';
            guard("FileTools::getFileName", [&] { acc ^= strHash(bpp::FileTools::getFileName(path, sep)); });
            guard("FileTools::getExtension", [&] { acc ^= strHash(bpp::FileTools::getExtension(path)); });
            guard("FileTools::getParent", [&] { acc ^= strHash(bpp::FileTools::getParent(path, sep)); });
            break;
          }
          case 8: acc += ApplicationTools::getVectorParameter<int>(key, lastMap, (o.b & 32) ? ';' : ',', "", suffix, sOpt, warn).size(); break;
          case 9: acc += ApplicationTools::getVectorParameter<double>(key, lastMap, ',', "(1,2)", suffix, sOpt, warn).size(); break;
          case 10: acc += ApplicationTools::getVectorParameter<int>(key, lastMap, ',', '-', "", suffix, sOpt, true).size(); break;
          case 11: { auto vv = ApplicationTools::getVectorOfVectorsParameter<double>(key, lastMap, ',', "", suffix, sOpt, warn); acc += vv.size(); for (auto& v : vv) acc += v.size(); break; }
          case 12: { auto mm = ApplicationTools::getMatrixParameter<double>(key, lastMap, ',', "", suffix, sOpt, true); acc += mm.getNumberOfRows() * 31 + mm.getNumberOfColumns(); break; }
          default: {
            std::vector<std::string> names = keys;
            // both overloads against the reference matcher: '*' matches any run of characters, every other character itself
            for (const std::string& pat : {pat1, pat2, pat3, key, std::string()}) {
              std::vector<std::string> m1 = ApplicationTools::matchingParameters(pat, lastMap), m2 = ApplicationTools::matchingParameters(pat, names);
              acc += m1.size() + 3 * m2.size();
              if (cmp) for (auto& kv : lastMap) {
                bool want = globMatch(pat, 0, kv.first, 0), have = std::find(m1.begin(), m1.end(), kv.first) != m1.end();
                if (want != have) ctx.fail("invariant:wildcard-match", std::string("invariant:wildcard-match:glob:") + (pat.find('*') == std::string::npos ? "no-wildcard-pattern" : "wildcard-pattern") + (have ? ":matched" : ":missed"), "matchingParameters('" + printable(pat) + "', map) " + (have ? "returns" : "omits") + " '" + printable(kv.first) + "'");
              }
              if (cmp) for (auto& nm : names) {
                bool want = globMatch(pat, 0, nm, 0), have = std::find(m2.begin(), m2.end(), nm) != m2.end();
                if (want != have) ctx.fail("invariant:wildcard-match", std::string("invariant:wildcard-match:glob:") + (pat.find('*') == std::string::npos ? "no-wildcard-pattern" : "wildcard-pattern") + (have ? ":matched" : ":missed"), "matchingParameters('" + printable(pat) + "', names) " + (have ? "returns" : "omits") + " '" + printable(nm) + "'");
              }
            }
            if (cmp) ctx.probe("compared:wildcard");
            acc += ApplicationTools::parameterExists(key, lastMap) ? 1 : 0;
          }
        }
      });
    }
    ctx.ev("q=" + std::to_string(acc)); ctx.evi("raised", raised);
    ctx.outcome("read");
  }
  // ---- vector / sequence descriptions and the parameter grid read from the option map (NumCalcApplicationTools)
  // a numeric token of magnitude >= 1e4, or a non-zero one below 0.01, makes a sequence of millions of elements: same trigger class as
  // the other "grammatical number far outside any regular range" findings
  static bool seqHazard(const std::string& s) {
    size_t i = 0;
    while (i < s.size()) {
      if (!(std::isdigit(static_cast<unsigned char>(s[i])) || s[i] == '.')) { ++i; continue; }
      size_t j = i; while (j < s.size() && (std::isdigit(static_cast<unsigned char>(s[j])) || s[j] == '.' || s[j] == 'e' || s[j] == 'E' || ((s[j] == '+' || s[j] == '-') && j > i && (s[j - 1] == 'e' || s[j - 1] == 'E')))) ++j;
      double x = std::abs(strtod(s.substr(i, j - i).c_str(), nullptr));
      if (!(x < 1e4) || (x > 0 && x < 0.01)) return true;
      i = j;
    }
    return false;
  }
  void rNumcalc(const Op& o) {
    if (!haveMap) { ctx.outcome("skip"); return; }
    using bpp::NumCalcApplicationTools;
    int raised = 0; uint64_t acc = 5;
    std::vector<std::pair<std::string, std::string>> kv; for (auto& e : lastMap) { if (kv.size() < 16) kv.push_back(e); }
    std::string d1 = (o.b & 1) ? ";" : ",", d2 = (o.b & 2) ? ":" : "-";
    for (auto& e : kv) {
      const std::string& value = e.second;
      ctx.hazard(seqHazard(value) ? "out-of-range-number" : "");
      raised += guard("NumCalcApplicationTools::getVector", [&] { std::vector<double> v = NumCalcApplicationTools::getVector(value); acc = acc * 31 + v.size(); });
      raised += guard("NumCalcApplicationTools::seqFromString", [&] { std::vector<int> v = NumCalcApplicationTools::seqFromString(value, d1, d2); acc = acc * 31 + v.size(); });
    }
    bool hz = false; for (auto& e : lastMap) if (e.first.compare(0, 5, "grid.") == 0 && seqHazard(e.second)) hz = true;
    ctx.hazard(hz ? "out-of-range-number" : "");
    std::string suffix = (o.b & 4) ? "_sfx" : ""; bool sOpt = o.b & 8;
    raised += guard("NumCalcApplicationTools::getParameterGrid", [&] {
      auto g = NumCalcApplicationTools::getParameterGrid(lastMap, suffix, sOpt, false);
      if (g) { acc = acc * 31 + g->getNumberOfDimensions(); acc = acc * 31 + g->getTotalNumberOfPoints(); }
    });
    ctx.hazard("");
    ctx.ev("n=" + std::to_string(acc)); ctx.evi("raised", raised);
    ctx.outcome("read");
  }
  void rParseOpts(const Op& o) {
    Doc* d = pick(o.a, K_CHAIN, o.b); if (!d) { ctx.outcome("skip"); return; }
    Scratch sc; if (!sc.ok) { ctx.probe("scratch-unavailable"); ctx.outcome("skip"); return; }
    for (size_t f = 0; f < d->stored.size(); ++f) sc.put(d->names[f], d->stored[f]);
    std::vector<std::string> args = {"prog", "param=" + d->names[0]};
    if (o.b & 1) args.push_back("cmdline.key=fromCommandLine");
    if (o.b & 2) args.push_back("ref=$(cmdline.key)x");
    if (o.b & 4) args[1] += "," + d->names[d->names.size() - 1];
    std::vector<char*> argv; for (auto& a : args) argv.push_back(&a[0]);
    std::map<std::string, std::string> m; int g;
    { CoutMute mute; sc.enter(); g = guard("AttributesTools::parseOptions", [&] { m = bpp::AttributesTools::parseOptions(static_cast<int>(argv.size()), argv.data()); }); sc.leave(); }
    if (cmp && d->kind == K_CHAIN && d->pristine() && !d->opt.undefRef) {
      rt(g == 0, "optchain", "raised", "parseOptions raised on a well-formed include chain");
      for (auto& kv : d->opt.map) rt(m.count(kv.first) > 0, "optchain", "missing-key", "key " + kv.first + " of an included file is absent from the result");
      for (auto& kv : m) rt(kv.second.find("$(") == std::string::npos, "optchain", "unresolved-reference", kv.first + " = '" + kv.second + "'");
      ctx.probe("compared:optchain");
    }
    if (g == 0) { lastMap = m; haveMap = true; mapPristine = false; mapResolved = true; ctx.evi("keys", static_cast<long>(m.size())); }
    done(g);
  }

  // ------------------------------------------------------------ distributions
  // Simple and Constant involve no numerical inversion: exact up to parsing (Simple is written with 15 decimals; a Constant value
  // with the stream precision); every other family goes through quantile inversion (calibrated bound, see info().tolerances)
  double distTol(const Doc& d, double x) const {
    if (d.distFamily == "Simple") return 1e-9 * (1 + std::abs(x));
    if (d.distFamily == "Constant") return 1e-9 * (1 + std::abs(x)) + (d.distFree ? 2 * std::pow(10.0, -d.distPrec) : 0);
    return 2e-5 * (1 + std::abs(x));
  }
  void rDist(const Op& o) {
    Doc* d = pick(o.a, K_DIST, o.b); if (!d) { ctx.outcome("skip"); return; }
    std::string desc; if (!firstLine(*d, 0, o.c, static_cast<uint64_t>(o.d), desc)) { done(1); return; }
    if (emptyArgHazard(desc)) ctx.probe("distribution-argument-empty");
    bool parseArgs = !(o.b & 1), verbose = o.b & 2;
    if (cmp) parseArgs = true;
    std::unique_ptr<bpp::DiscreteDistributionInterface> r;
    bpp::BppODiscreteDistributionFormat fmt(verbose);
    if (outOfRangeNumber(desc)) { ctx.hazard("out-of-range-number"); ctx.probe("distribution-number-out-of-range"); }
    int g = guard("BppODiscreteDistributionFormat::readDiscreteDistribution", [&] { r = fmt.readDiscreteDistribution(desc, parseArgs); });
    if (g == 0 && r) {
      // the object just read is used the way an application would: queried and written again
      guard("BppODiscreteDistributionFormat::readDiscreteDistribution", [&] {
        size_t n = r->getNumberOfCategories(); ctx.evi("classes", static_cast<long>(n));
        double s = 0; for (size_t i = 0; i < n && i < 64; ++i) s += r->getProbability(i) + r->getCategory(i) * 0;
        SimOutBuf ob; std::ostream os(&ob); bpp::StlOutputStreamWrapper w(&os); std::map<std::string, std::string> al; std::vector<std::string> wn;
        fmt.writeDiscreteDistribution(*r, w, al, wn);
      });
    }
    ctx.hazard("");
    if (cmp && d->kind == K_DIST && d->pristine()) {
      std::string fam = d->distFamily + ((d->distAllow & 4) ? ":invariant-value-set" : "") + (d->distFree ? ":free-values" : "");
      rt(g == 0 && r, "dist", "raised:" + fam, "readDiscreteDistribution raised on its own writer's output (stream precision " + std::to_string(d->distPrec) + "): " + printable(desc));
      rt(r->getName() == d->dist->getName(), "dist", "family:" + fam, "wrote " + d->dist->getName() + " read " + r->getName() + ": " + printable(desc));
      size_t n = d->dist->getNumberOfCategories();
      rt(r->getNumberOfCategories() == n, "dist", "class-count:" + fam, "wrote " + std::to_string(n) + " classes, read " + std::to_string(r->getNumberOfCategories()) + ": " + printable(desc));
      for (size_t i = 0; i < n; ++i) {
        double a = d->dist->getCategory(i), b = r->getCategory(i), pa = d->dist->getProbability(i), pb = r->getProbability(i);
        static const bool calib = getenv("SIMSTORE_CALIB") != nullptr;
        if (calib) fprintf(stderr, "CALIB %s %.3g %.3g\n", fam.c_str(), std::abs(a - b) / (1 + std::abs(a)), std::abs(pa - pb));
        rt(std::abs(a - b) <= distTol(*d, a), "dist", "class-value:" + fam, "class " + std::to_string(i) + " value wrote " + fmtd(a) + " read " + fmtd(b) + ": " + printable(desc));
        rt(std::abs(pa - pb) <= distTol(*d, pa), "dist", "class-probability:" + fam, "class " + std::to_string(i) + " probability wrote " + fmtd(pa) + " read " + fmtd(pb) + ": " + printable(desc));
      }
      ctx.probe("compared:dist");
    }
    done(g);
  }

  // ------------------------------------------------------------ parameter lists
  void rPfmt(const Op& o) {
    Doc* d = pick(o.a, K_PFMT, o.b); if (!d) { ctx.outcome("skip"); return; }
    std::string desc; if (!firstLine(*d, 0, o.c, static_cast<uint64_t>(o.d), desc)) { done(1); return; }
    std::map<std::string, std::string> m; bool nested = !(o.b & 1) || cmp;
    int g = guard("KeyvalTools::multipleKeyvals", [&] { bpp::KeyvalTools::multipleKeyvals(desc, m, ",", nested); });
    std::vector<double> vals; int g2 = 0;
    if (g == 0) g2 = guard("ApplicationTools::getParameter", [&] { for (auto& kv : m) vals.push_back(bpp::ApplicationTools::getDoubleParameter(kv.first, m, 0)); });
    if (cmp && d->kind == K_PFMT && d->pristine()) {
      rt(g == 0 && g2 == 0, "params", "raised", "the written parameter list does not parse: " + printable(desc));
      rt(m.size() == d->pm.names.size(), "params", "count", "wrote " + std::to_string(d->pm.names.size()) + " parameters, read " + std::to_string(m.size()) + ": " + printable(desc));
      for (size_t i = 0; i < d->pm.names.size(); ++i) {
        auto it = m.find(d->pm.names[i]);
        rt(it != m.end(), "params", "name", "parameter " + d->pm.names[i] + " missing: " + printable(desc));
        double v = bpp::TextTools::toDouble(it->second), w = d->pm.values[i];
        rt(std::abs(v - w) <= 0.6e-12 + 1e-15 * std::abs(w), "params", "value", d->pm.names[i] + " wrote " + fmtd(w) + " read " + fmtd(v));
      }
      ctx.probe("compared:params");
    }
    ctx.evi("n", static_cast<long>(m.size()));
    done(g != 0 ? g : g2);
  }
  void rPlist(const Op& o) {
    Doc* d = pick(o.a, K_PLIST, o.b); if (!d) { ctx.outcome("skip"); return; }
    SimInBuf ib(d->stored[0], static_cast<uint64_t>(o.d), chunkOf(o.c)); std::istream in(&ib);
    std::vector<std::string> names, cds; std::vector<double> vals; int raised = 0;
    bool compare = cmp && d->kind == K_PLIST && d->pristine();
    guard("FileTools::getNextLine", [&] { bpp::FileTools::getNextLine(in); bpp::FileTools::getNextLine(in); });
    for (size_t row = 0; row < 40 && !in.eof(); ++row) {
      std::string line; if (guard("FileTools::getNextLine", [&] { line = bpp::FileTools::getNextLine(in); }) != 0) break;
      if (bpp::TextTools::isEmpty(line)) break;
      int g = guard("StringTokenizer", [&] {
        bpp::StringTokenizer st(line, "\t", false, o.b & 1);
        std::string nm = st.nextToken(); double v = bpp::TextTools::toDouble(st.nextToken());
        names.push_back(nm); vals.push_back(v); cds.push_back(st.hasMoreToken() ? st.nextToken() : std::string());
      });
      if (g == 0 && !cds.back().empty()) { std::string cd = cds.back(); int gi = guard("IntervalConstraint::readDescription", [&] { bpp::IntervalConstraint ic; ic.readDescription(cd); }); if (gi) ctx.probe("plist-constraint-description-raised"); }
      if (compare) rt(g == 0, "plist", "raised", "row does not parse: " + printable(line));
      raised += g;
    }
    noteChunks(ib);
    if (compare) {
      rt(names == d->pm.names, "plist", "names", "parameter names differ");
      for (size_t i = 0; i < vals.size(); ++i) rt(std::abs(vals[i] - d->pm.values[i]) <= 0.6 * std::pow(10.0, -d->pm.prec) + 1e-14 * std::abs(vals[i]), "plist", "value", d->pm.names[i] + " wrote " + fmtd(d->pm.values[i]) + " read " + fmtd(vals[i]) + " at precision " + std::to_string(d->pm.prec));
      ctx.probe("compared:plist");
    }
    // the list just read is searched with wildcard patterns made from its own (possibly damaged) names
    if (!names.empty()) {
      bpp::ParameterList pl; uint64_t acc = 13;
      for (size_t i = 0; i < names.size() && i < 12; ++i) guard("ParameterList::addParameter", [&] { pl.addParameter(bpp::Parameter(names[i], vals[i])); });
      const std::string& a = names.front(); const std::string& z = names.back();
      std::vector<std::string> pats = {a, a.substr(0, 2) + "*", "*" + z.substr(z.size() / 2), (a.empty() ? std::string() : a.substr(0, 1)) + "*" + (z.empty() ? std::string() : z.substr(z.size() - 1)), "*", "", "**", a + "*" + z + "*x"};
      for (const std::string& pat : pats) {
        std::vector<std::string> got;
        int g = guard("ParameterList::getMatchingParameterNames", [&] { got = pl.getMatchingParameterNames(pat); });
        acc = acc * 31 + got.size();
        if (g == 0) for (const std::string& nm : got) if (!pl.hasParameter(nm)) ctx.fail("invariant:wildcard-match", "invariant:wildcard-match:foreign-name", "getMatchingParameterNames('" + printable(pat) + "') returned a name that is not in the list");
        // glob semantics for '*' (every other character stands for itself), decided name by name against a reference matcher
        if (g == 0 && cmp) for (size_t i = 0; i < pl.size(); ++i) {
          const std::string nm = pl[i].getName(); bool want = globMatch(pat, 0, nm, 0), have = std::find(got.begin(), got.end(), nm) != got.end();
          if (want != have) ctx.fail("invariant:wildcard-match", std::string("invariant:wildcard-match:glob:") + (pat.find('*') == std::string::npos ? "no-wildcard-pattern" : "wildcard-pattern") + (have ? ":matched" : ":missed"), "getMatchingParameterNames('" + printable(pat) + "') " + (have ? "returns" : "omits") + " '" + printable(nm) + "'");
        }
        ctx.probe("compared:wildcard");
        if (g == 0 && &pat == &pats[0] && pat.find('*') == std::string::npos && pl.hasParameter(pat) && got.empty()) ctx.fail("invariant:wildcard-match", "invariant:wildcard-match:own-name", "a parameter's own name '" + printable(pat) + "' used as pattern matches nothing");
      }
      ctx.ev("m=" + std::to_string(acc));
    }
    ctx.evi("rows", static_cast<long>(names.size())); ctx.evi("raised", raised);
    ctx.ok();
  }
  void rInterval(const Op& o) {
    Doc* d = pick(o.a, K_INTERVAL, o.b); if (!d) { ctx.outcome("skip"); return; }
    std::string desc; if (!firstLine(*d, 0, o.c, static_cast<uint64_t>(o.d), desc)) { done(1); return; }
    if (o.b & 2) desc = bpp::TextTools::removeWhiteSpaces(desc);
    double lo = 0, hi = 0;
    int g = guard("IntervalConstraint::readDescription", [&] {
      if (o.b & 1) { bpp::IntervalConstraint c(desc); lo = c.getLowerBound(); hi = c.getUpperBound(); }
      else { bpp::IntervalConstraint c; c.readDescription(desc); lo = c.getLowerBound(); hi = c.getUpperBound(); c.isCorrect(0.5 * (lo + hi)); c.getDescription(); }
    });
    if (g != 0 && d->kind == K_INTERVAL && d->pristine() && d->iv.padded && !(o.b & 2)) ctx.probe("interval-own-description-raised");   // observed, not asserted (not in either statement)
    if (g == 0) { ctx.evd("lo", lo); ctx.evd("hi", hi); }
    done(g);
  }

  // ------------------------------------------------------------ key=value procedures and tokenizers
  void rProc(const Op& o) {
    Doc* d = pick(o.a, K_KEYVAL, o.b); if (!d) { ctx.outcome("skip"); return; }
    std::string desc; if (!firstLine(*d, 0, o.c, static_cast<uint64_t>(o.d), desc)) { done(1); return; }
    std::string name; std::map<std::string, std::string> args;
    int g = guard("KeyvalTools::parseProcedure", [&] { bpp::KeyvalTools::parseProcedure(desc, name, args); });
    if (cmp && d->kind == K_KEYVAL && d->pristine()) {
      rt(g == 0, "keyval", "raised", "parseProcedure raised on " + printable(desc));
      rt(name == d->kv.name, "keyval", "name", "wrote " + d->kv.name + " read " + name);
      rt(args == d->kv.args, "keyval", "args", "argument map differs for " + printable(desc));
      ctx.probe("compared:keyval");
      // substituting arguments changes exactly the named ones: a plan-chosen subset of the present keys gets new values, one absent
      // key is named as well; the result is parsed again and compared with the model map updated in the same way
      if (g == 0) {
        std::map<std::string, std::string> nk, want = d->kv.args; size_t i = 0;
        for (auto& kv : d->kv.args) { if ((o.d >> (i % 12)) & 1) { nk[kv.first] = "R" + std::to_string(i); want[kv.first] = nk[kv.first]; } ++i; }
        nk["zz_absent"] = "Q";
        std::string changed, n2; std::map<std::string, std::string> a2;
        int gc = guard("KeyvalTools::changeKeyvals", [&] { changed = bpp::KeyvalTools::changeKeyvals(desc, nk, ",", true); });
        rt(gc == 0, "keyval", "substitute-raised", "changeKeyvals raised on " + printable(desc));
        int gp = guard("KeyvalTools::parseProcedure", [&] { bpp::KeyvalTools::parseProcedure(changed, n2, a2); });
        rt(gp == 0, "keyval", "substitute-unparsable", "the substituted description does not parse: " + printable(changed));
        rt(n2 == d->kv.name, "keyval", "substitute-name", "substitution changed the procedure name: " + printable(changed));
        rt(a2 == want, "keyval", nk.size() > 1 ? "substitute-args" : "substitute-nothing-named", "after substituting " + std::to_string(nk.size() - 1) + " present argument(s) the description reads " + printable(changed) + " (from " + printable(desc) + ")");
        ctx.probe("compared:keyval-substitution");
      }
    }
    if (g == 0) {
      size_t inner = 0;
      for (auto& kv : args) if (kv.second.find('(') != std::string::npos && inner < 6) { ++inner; std::string n2; std::map<std::string, std::string> a2; std::string v = kv.second; guard("KeyvalTools::parseProcedure", [&] { bpp::KeyvalTools::parseProcedure(v, n2, a2); }); }
      ctx.evi("args", static_cast<long>(args.size())); ctx.ev("name=" + std::to_string(strHash(name)));
    }
    done(g);
  }
  // delimiter sets, several of them with more than one character (in non-solid mode every character of the set delimits)
  static std::string splitOf(long b) { static const char* S[] = {",", ",", " ", ";", ":", "=", "(", ", ", ",;", " \t", ",= "}; return S[(b >> 2) % 11]; }
  void rKeyvals(const Op& o) {
    Doc* d = pick(o.a, (o.b & 2) ? K_PFMT : K_KEYVAL, o.b); if (!d) { ctx.outcome("skip"); return; }
    std::string desc; if (!firstLine(*d, 0, o.c, static_cast<uint64_t>(o.d), desc)) { done(1); return; }
    std::string split = splitOf(o.b); bool nested = o.b & 1;
    if (o.b & NATURAL) { split = ","; nested = true; }
    std::map<std::string, std::string> m; std::string k, v, changed;
    int g = guard("KeyvalTools::multipleKeyvals", [&] { bpp::KeyvalTools::multipleKeyvals(desc, m, split, nested); });
    guard("KeyvalTools::singleKeyval", [&] { bpp::KeyvalTools::singleKeyval(desc, k, v, (o.d & 1) ? split : "="); });
    std::map<std::string, std::string> nk; nk["n"] = "9"; if (!m.empty()) nk[m.begin()->first] = "changed";
    int gc = guard("KeyvalTools::changeKeyvals", [&] { changed = bpp::KeyvalTools::changeKeyvals(desc, nk, split, nested); });
    ctx.evi("n", static_cast<long>(m.size())); ctx.evi("changed", gc == 0 ? static_cast<long>(changed.size()) : -1);
    done(g);
  }
  void rNested(const Op& o) {
    Doc* d = pick(o.a, K_KEYVAL, o.b); if (!d) { ctx.outcome("skip"); return; }
    std::string desc; if (!firstLine(*d, 0, o.c, static_cast<uint64_t>(o.d), desc)) { done(1); return; }
    static const char* OP[][2] = {{"(", ")"}, {"(", ")"}, {"[", "]"}, {"{", "}"}, {"((", "))"}, {"(", "("}};
    long br = (o.b >> 1) % 6; std::string delims = splitOf(o.b >> 2); bool solid = o.b & 1;
    if (o.b & NATURAL) { br = 0; delims = ","; }
    size_t n = 0;
    int g = guard("NestedStringTokenizer", [&] {
      bpp::NestedStringTokenizer st(desc, OP[br][0], OP[br][1], delims, solid);
      size_t total = st.numberOfRemainingTokens(), lim = desc.size() + 2;
      while (st.hasMoreToken() && n < lim) { const std::string& t = st.nextToken(); ++n; if (t.size() > desc.size()) ctx.fail("invariant:token-longer-than-input", "invariant:token-longer-than-input:NestedStringTokenizer", "token longer than the input"); }
      if (total > 0) st.getToken(total - 1);
      if (o.d & 1) st.nextToken();      // one past the end: documented to raise
    });
    ctx.evi("tokens", static_cast<long>(n));
    done(g);
  }
  // ---- character / fixed-width / block-removal / number-recognition helpers of TextTools applied to a stored line
  void rText(const Op& o) {
    Doc* d = pick(o.a, static_cast<int>(o.d % NKIND), o.b | CROSS); if (!d) { ctx.outcome("skip"); return; }
    std::string line; if (!firstLine(*d, static_cast<size_t>(o.d), o.c, static_cast<uint64_t>(o.d), line)) { done(1); return; }
    namespace TT = bpp::TextTools;
    uint64_t acc = 11; int raised = 0;
    static const char OPEN[] = {'(', '[', '{', '<'}, CLOSE[] = {')', ']', '}', '>'};
    char bo = OPEN[o.b & 3], bc = CLOSE[o.b & 3];
    static const std::vector<std::vector<std::string>> EXB = {{}, {"[&"}, {"x[", "[["}, {"N(", "(("}, {"=("}};
    static const std::vector<std::vector<std::string>> EXE = {{}, {"&]"}, {"]x", "]]"}, {")N", "))"}, {")="}};
    size_t ex = static_cast<size_t>(o.b >> 2) % EXB.size();
    size_t width = static_cast<size_t>(o.b >> 5) % 48, chunk = 1 + static_cast<size_t>(o.b >> 11) % 9;
    std::string pat = line.size() >= 2 && (o.b & (1 << 15)) ? line.substr(line.size() / 2, 2) : std::string("=");
    raised += guard("TextTools::whitespace-and-case", [&] {
      acc ^= strHash(TT::removeSurroundingWhiteSpaces(line)); acc ^= strHash(TT::removeWhiteSpaces(line)); acc ^= strHash(TT::removeFirstWhiteSpaces(line));
      acc ^= strHash(TT::removeLastWhiteSpaces(line)); acc ^= strHash(TT::removeNewLines(line)); acc ^= strHash(TT::removeLastNewLines(line));
      acc ^= strHash(TT::toUpper(line)); acc ^= strHash(TT::toLower(line)); acc += TT::isEmpty(line);
    });
    raised += guard("TextTools::removeSubstrings", [&] { acc ^= strHash(TT::removeSubstrings(line, bo, bc)); });
    raised += guard("TextTools::removeSubstrings(exceptions)", [&] { std::vector<std::string> eb = EXB[ex], ee = EXE[ex]; acc ^= strHash(TT::removeSubstrings(line, bo, bc, eb, ee)); });
    raised += guard("TextTools::resize", [&] {
      std::string r1 = TT::resizeRight(line, width, '.'), r2 = TT::resizeLeft(line, width, '.');
      if (r1.size() != width || r2.size() != width) ctx.fail("invariant:fixed-width", "invariant:fixed-width:TextTools::resize", "resizeRight/Left(" + std::to_string(width) + ") returned " + std::to_string(r1.size()) + " / " + std::to_string(r2.size()) + " characters");
      acc ^= strHash(r1) ^ strHash(r2);
    });
    raised += guard("TextTools::split", [&] {
      std::vector<std::string> v = TT::split(line, chunk); std::string j; for (auto& x : v) j += x;
      if (j != line) ctx.fail("invariant:split-rejoin", "invariant:split-rejoin:TextTools::split", "chunks of " + std::to_string(chunk) + " characters do not re-join to the input");
      acc += v.size();
    });
    raised += guard("TextTools::search", [&] {
      acc += TT::count(line, pat); acc += TT::startsWith(line, pat); acc += TT::endsWith(line, pat); acc += TT::hasSubstring(line, pat);
      std::string t = line; TT::replaceAll(t, pat, pat + pat); acc ^= strHash(t); acc ^= strHash(TT::removeChar(line, pat[0]));
    });
    // number recognition and conversion agree: what is recognised converts, what is not recognised is refused with the library exception
    {
      std::string tok = TT::removeSurroundingWhiteSpaces(line); size_t q = tok.find_last_of("=,;( \t"); if (q != std::string::npos) tok = tok.substr(q + 1);
      bool isNum = false, isInt = false;
      raised += guard("TextTools::isDecimalNumber", [&] { isNum = TT::isDecimalNumber(tok); isInt = TT::isDecimalInteger(tok); });
      int gd = guard("TextTools::toDouble", [&] { acc ^= strHash(hexfloat(TT::toDouble(tok))); });
      int gi = guard("TextTools::toInt", [&] { acc += static_cast<uint64_t>(TT::toInt(tok)); });
      if (gd >= 0 && (gd == 0) != isNum) ctx.fail("invariant:number-recognition", "invariant:number-recognition:toDouble", "isDecimalNumber('" + printable(tok) + "') is " + (isNum ? "true" : "false") + " but toDouble " + (gd == 0 ? "returned" : "raised"));
      if (gi >= 0 && (gi == 0) != isInt) ctx.fail("invariant:number-recognition", "invariant:number-recognition:toInt", "isDecimalInteger('" + printable(tok) + "') is " + (isInt ? "true" : "false") + " but toInt " + (gi == 0 ? "returned" : "raised"));
      raised += gd + gi;
    }
    ctx.ev("t=" + std::to_string(acc)); ctx.evi("raised", raised);
    ctx.outcome("read");
  }
  void rTok(const Op& o) {
    Doc* d = pick(o.a, static_cast<int>(o.d % NKIND), o.b | CROSS); if (!d) { ctx.outcome("skip"); return; }
    std::string desc; if (!firstLine(*d, static_cast<size_t>(o.d), o.c, static_cast<uint64_t>(o.d), desc)) { done(1); return; }
    bool solid = o.b & 1, allowEmpty = o.b & 2; std::string delims = (o.b & 256) ? splitOf((o.b >> 9) << 2) : splitOf(o.b >> 1);
    size_t n = 0; std::string un; std::vector<std::string> toks;
    int g = guard("StringTokenizer", [&] {
      bpp::StringTokenizer st(desc, delims, solid, allowEmpty);
      toks.assign(st.getTokens().begin(), st.getTokens().end());
      n = st.numberOfRemainingTokens(); if (n != st.getTokens().size()) ctx.fail("invariant:token-count", "invariant:token-count:StringTokenizer", "numberOfRemainingTokens != getTokens().size() on a fresh tokenizer");
      if (n > desc.size() + 1) ctx.fail("invariant:token-count", "invariant:more-tokens-than-bytes:StringTokenizer", "more tokens than input bytes");
      size_t take = n == 0 ? 0 : static_cast<size_t>(o.d) % (n + 1);
      for (size_t i = 0; i < take; ++i) st.nextToken();
      if (o.b & 64) st.removeEmptyTokens();
      { if (guard("StringTokenizer::unparseRemainingTokens", [&] { un = st.unparseRemainingTokens(); }) != 0) throw bpp::Exception("unparse raised"); }
      while (st.hasMoreToken()) st.nextToken();
      if (o.b & 128) st.nextToken();
    });
    if (cmp && d->pristine() && g == 0 && !(o.b & 64) && !(o.b & 128) && n > 0 && !solid && allowEmpty) {
      // re-join of the remaining tokens with the recorded separators reproduces the (remaining) input. In this mode every delimiter
      // character of the set is one separator, so token i starts at sum_{j<i}(len(token j) + 1); only when no leading delimiter was skipped.
      size_t take = static_cast<size_t>(o.d) % (n + 1);
      if (desc.find_first_not_of(delims) == 0 && take < n) {
        size_t off = 0; for (size_t i = 0; i < take; ++i) off += toks[i].size() + 1;
        std::string want = off <= desc.size() ? desc.substr(off) : std::string();
        rt(un == want, "tokens", take == 0 ? "rejoin" : "rejoin-after-consuming", "after " + std::to_string(take) + " nextToken() calls unparseRemainingTokens gave '" + printable(un) + "' but the remaining input is '" + printable(want) + "'");
        if (take > 0) ctx.probe("compared:tokens-after-consuming");
        if (take > 0) { bool differ = false; char first = 0; size_t o2 = 0; for (size_t i = 0; i + 1 < n; ++i) { o2 += toks[i].size(); if (o2 < desc.size()) { if (!first) first = desc[o2]; else if (desc[o2] != first) differ = true; } ++o2; } if (differ) ctx.probe("compared:tokens-after-consuming-mixed-separators"); }
      }
      ctx.probe("compared:tokens");
    }
    ctx.evi("tokens", static_cast<long>(n)); ctx.ev("un=" + std::to_string(strHash(un)));
    done(g);
  }
  void rFormula(const Op& o) {
    Doc* d = pick(o.a, K_FORMULA, o.b); if (!d) { ctx.outcome("skip"); return; }
    std::string desc; if (!firstLine(*d, 0, o.c, static_cast<uint64_t>(o.d), desc)) { done(1); return; }
    std::map<std::string, std::shared_ptr<bpp::FunctionInterface>> fn;
    double v = 0; std::string out; bool sum = false;
    int g = guard("ComputationTree", [&] { bpp::ComputationTree t(desc, fn); v = t.getValue(); out = t.output(); sum = t.isAllSum(); });
    if (g == 0) { ctx.evd("v", v); ctx.ev("out=" + std::to_string(strHash(out))); ctx.evi("sum", sum); }
    done(g);
  }
};

// natural reader ops of a document kind (used by both generators)
inline std::vector<std::string> naturalReaders(int kind) {
  switch (kind) {
    case K_TABLE: return {"r.table"};
    case K_DIST: return {"r.dist"};
    case K_PFMT: return {"r.pfmt", "r.keyvals"};
    case K_PLIST: return {"r.plist"};
    case K_INTERVAL: return {"r.interval"};
    case K_OPT: return {"r.optfile", "r.optmap"};
    case K_CHAIN: return {"r.parseopts"};
    case K_KEYVAL: return {"r.proc", "r.keyvals", "r.nested"};
    default: return {"r.formula"};
  }
}
}  // namespace simstore
#endif
