// C14 — graph and object-association views stay consistent with a reference model.
// World (real code): one bpp::GlobalGraph (directed or not) observed by 1..3
// AssociationGraphImplObserver<SimNode,SimEdge,GlobalGraph> (one built, others copied / attached at arbitrary moments).
// Model: reference multigraph (node set, edge id -> ordered end points) + per-observer association and index maps.
// Payload objects live in a harness arena whose slot order is a permutation taken from the plan (addr-perm): the library
// orders its maps by payload address, so every list is compared as a set and no pointer enters a log, hash or signature.
#include "engine.h"
#include <Bpp/Graph/AssociationGraphImplObserver.h>
#include <Bpp/Exceptions.h>
#include <sanitizer/asan_interface.h>
#include <algorithm>
#include <memory>
#include <new>

using namespace dsim;

namespace {

// ------------------------------------------------------------------ arena (addr-perm)
struct Arena {
  static const int SLOTS = 4096, SZ = 16, PERM = 512;
  alignas(16) unsigned char mem[SLOTS * SZ];
  int order[SLOTS];
  unsigned gen[SLOTS];
  unsigned curGen = 0;
  int next = 0;
  long fallback = 0;
  bool poisoned = false;
  void reset(uint64_t seed) {
    int used = next > PERM ? next : static_cast<int>(PERM);
    if (!poisoned) { used = SLOTS; poisoned = true; ASAN_POISON_MEMORY_REGION(mem, sizeof mem); }
    ++curGen; next = 0; fallback = 0;
    for (int i = 0; i < used; ++i) order[i] = i;
    uint64_t s = seed * 2 + 1;
    if (seed != 0) for (int i = PERM - 1; i > 0; --i) { int j = static_cast<int>(splitmix64(s) % static_cast<uint64_t>(i + 1)); std::swap(order[i], order[j]); }
  }
  void* alloc(size_t n) {
    if (n > static_cast<size_t>(SZ) || next >= SLOTS) { ++fallback; return ::operator new(n); }
    int slot = order[next++];
    gen[slot] = curGen;
    void* p = mem + slot * SZ;
    ASAN_UNPOISON_MEMORY_REGION(p, SZ);
    return p;
  }
  void release(void* p) {
    unsigned char* c = static_cast<unsigned char*>(p);
    if (c < mem || c >= mem + sizeof mem) { ::operator delete(p); return; }
    long slot = (c - mem) / SZ;
    if (gen[slot] != curGen) return;          // object of an earlier run: its slot was already recycled by reset()
    ASAN_POISON_MEMORY_REGION(p, SZ);          // never reused within a run: a later access is a sanitizer report
  }
};
Arena g_arena;

struct SimNode {
  int pid;
  explicit SimNode(int p) : pid(p) {}
  SimNode(const SimNode& o) : pid(o.pid) {}
  static void* operator new(size_t n) { return g_arena.alloc(n); }
  static void operator delete(void* p) { g_arena.release(p); }
};
struct SimEdge {
  int pid;
  explicit SimEdge(int p) : pid(p) {}
  SimEdge(const SimEdge& o) : pid(o.pid) {}
  static void* operator new(size_t n) { return g_arena.alloc(n); }
  static void operator delete(void* p) { g_arena.release(p); }
};

typedef bpp::AssociationGraphImplObserver<SimNode, SimEdge, bpp::GlobalGraph> Obs;
typedef std::shared_ptr<SimNode> Nref;
typedef std::shared_ptr<SimEdge> Eref;
typedef unsigned int Id;
typedef std::vector<Id> IdV;

struct MEdge { Id a, b; };
struct Model {
  bool directed = true;
  std::set<Id> nodes;
  std::map<Id, MEdge> edges;
  bool rootKnown = false; Id root = 0;
};

struct MObs {
  std::unique_ptr<Obs> o;
  std::vector<Nref> N; std::vector<Eref> E;     // every payload object this observer was ever given (handles)
  std::map<Id, int> n2h, e2h;                   // graph id -> handle (current association)
  std::map<int, Id> nIdx, eIdx;                 // handle -> index
  // avoidance filters only (mirror the triggers of known defects, never used by an assertion)
  Id szN = 0, szE = 0; bool nullKey = false;
  int hOfNode(Id id) const { auto it = n2h.find(id); return it == n2h.end() ? -1 : it->second; }
  int hOfEdge(Id id) const { auto it = e2h.find(id); return it == e2h.end() ? -1 : it->second; }
  bool idxUsedN(Id ix) const { for (auto& kv : nIdx) if (kv.second == ix) return true; return false; }
  bool idxUsedE(Id ix) const { for (auto& kv : eIdx) if (kv.second == ix) return true; return false; }
};

const size_t MAXNODES = 8, MAXEDGES = 20, MAXOBS = 3;

template <class T> std::vector<T> sorted(std::vector<T> v) { std::sort(v.begin(), v.end()); return v; }
std::string idsStr(const IdV& v) { std::string s = "{"; for (size_t i = 0; i < v.size(); ++i) { if (i) s += ","; s += std::to_string(v[i]); } return s + "}"; }
IdV uniq(IdV v) { std::sort(v.begin(), v.end()); v.erase(std::unique(v.begin(), v.end()), v.end()); return v; }

class Exec {
  const Plan& p; Ctx& ctx;
  Model m;
  std::shared_ptr<bpp::GlobalGraph> g;
  std::vector<MObs> obs;
  int nextPid = 0;
  bool strict = false, asc = false;
  std::string tag;          // context of the current step for the detail text of a failure (never part of a signature)
  long step_ = 0; size_t acting_ = 0;

public:
  Exec(const Plan& pl, Ctx& c) : p(pl), ctx(c) {}

  // ---------------------------------------------------------------- failure reporting
  [[noreturn]] void fail(const std::string& kind, const std::string& check, const std::string& detail) {
    std::string s = kind + ":" + check;
    ctx.fail(s, s, (tag.empty() ? std::string() : "[" + tag + "] ") + check + ": " + detail);
  }
#define MM(cond, check, detail) do { if (!(cond)) fail("model-mismatch", (check), (detail)); } while (0)

  // call that may raise: 0 returned, 1 bpp::Exception; anything else is a violation
  template <class F> int attempt(const std::string& what, F f) {
    try { f(); return 0; }
    catch (bpp::Exception&) { return 1; }
    catch (SimViolation&) { throw; }
    catch (std::exception& e) { fail("foreign-exception", what + ":std", e.what()); }
  }
  template <class F> void mustRaise(const std::string& what, F f) {
    int r = attempt(what, f);
    if (r != 1) fail("model-mismatch", what + ":accepted", "a call that must be rejected (absent or duplicate argument) returned instead of raising bpp::Exception");
  }
  template <class F> void mustReturn(const std::string& what, F f) {
    int r = attempt(what, f);
    if (r != 0) fail("model-mismatch", what + ":raised", "a call with present, legal arguments raised bpp::Exception");
  }

  // ---------------------------------------------------------------- model helpers
  bool related(Id a, Id b) const {
    for (auto& kv : m.edges) { if (kv.second.a == a && kv.second.b == b) return true; if (!m.directed && kv.second.a == b && kv.second.b == a) return true; }
    return false;
  }
  mutable bool adjValid_ = false; mutable std::map<Id, IdV> cOut_, cIn_;
  void buildAdj() const {
    cOut_.clear(); cIn_.clear();
    for (auto& kv : m.edges) {
      cOut_[kv.second.a].push_back(kv.first); cIn_[kv.second.b].push_back(kv.first);
      if (!m.directed && kv.second.a != kv.second.b) { cOut_[kv.second.b].push_back(kv.first); cIn_[kv.second.a].push_back(kv.first); }
    }
    adjValid_ = true;
  }
  IdV outE(Id n) const { if (adjValid_) { auto it = cOut_.find(n); return it == cOut_.end() ? IdV() : it->second; } IdV r; for (auto& kv : m.edges) if (kv.second.a == n || (!m.directed && kv.second.b == n)) r.push_back(kv.first); return r; }
  IdV inE(Id n) const { if (adjValid_) { auto it = cIn_.find(n); return it == cIn_.end() ? IdV() : it->second; } IdV r; for (auto& kv : m.edges) if (kv.second.b == n || (!m.directed && kv.second.a == n)) r.push_back(kv.first); return r; }
  Id other(Id e, Id n, bool out) const { const MEdge& x = m.edges.at(e); if (m.directed) return out ? x.b : x.a; return x.a == n ? x.b : x.a; }
  IdV outN(Id n) const { IdV r; for (Id e : outE(n)) r.push_back(other(e, n, true)); return r; }
  IdV inN(Id n) const { IdV r; for (Id e : inE(n)) r.push_back(other(e, n, false)); return r; }
  IdV incident(Id n) const { IdV r; for (auto& kv : m.edges) if (kv.second.a == n || kv.second.b == n) r.push_back(kv.first); return r; }
  bool selfLoop(Id n) const { for (auto& kv : m.edges) if (kv.second.a == n && kv.second.b == n) return true; return false; }
  bool edgeIndexedAnywhere(Id e) const { for (auto& o : obs) { int h = o.hOfEdge(e); if (h >= 0 && o.eIdx.count(h)) return true; } return false; }
  bool nodeElsewhere(Id n, size_t k) const { for (size_t j = 0; j < obs.size(); ++j) if (j != k && obs[j].n2h.count(n)) return true; return false; }
  bool hasReciprocal() const {
    for (auto& x : m.edges) for (auto& y : m.edges) if (x.first < y.first && x.second.a == y.second.b && x.second.b == y.second.a && x.second.a != x.second.b) return true;
    return false;
  }
  bool hasParallel() const {
    for (auto& x : m.edges) for (auto& y : m.edges) if (x.first < y.first) {
      if (x.second.a == y.second.a && x.second.b == y.second.b) return true;
      if (!m.directed && x.second.a == y.second.b && x.second.b == y.second.a) return true;
    }
    return false;
  }
  IdV nodesOf(const MObs& o) const { IdV r; for (auto& kv : o.n2h) r.push_back(kv.first); return r; }

  Nref freshN(MObs& o) { o.N.push_back(Nref(new SimNode(nextPid++))); return o.N.back(); }
  Eref freshE(MObs& o) { o.E.push_back(Eref(new SimEdge(nextPid++))); return o.E.back(); }
  // a node object that observer k does not associate: b%3: fresh / forgotten earlier / owned by another observer
  Nref absentN(size_t k, long b) {
    MObs& o = obs[k];
    if (b % 3 == 1) { std::set<int> live; for (auto& kv : o.n2h) live.insert(kv.second); for (size_t h = 0; h < o.N.size(); ++h) if (!live.count(static_cast<int>(h))) { ctx.probe("absent-arg-forgotten-object"); return o.N[h]; } }
    if (b % 3 == 2) for (size_t j = 0; j < obs.size(); ++j) if (j != k && !obs[j].n2h.empty()) { ctx.probe("absent-arg-foreign-object"); return obs[j].N[static_cast<size_t>(obs[j].n2h.begin()->second)]; }
    return Nref(new SimNode(nextPid++));      // deliberately not registered as a handle: stays absent for ever
  }
  Eref absentE(size_t k, long b) {
    MObs& o = obs[k];
    if (b % 3 == 1) { std::set<int> live; for (auto& kv : o.e2h) live.insert(kv.second); for (size_t h = 0; h < o.E.size(); ++h) if (!live.count(static_cast<int>(h))) return o.E[h]; }
    if (b % 3 == 2) for (size_t j = 0; j < obs.size(); ++j) if (j != k && !obs[j].e2h.empty()) return obs[j].E[static_cast<size_t>(obs[j].e2h.begin()->second)];
    return Eref(new SimEdge(nextPid++));
  }

  // ---------------------------------------------------------------- oracle: graph level
  template <class It> IdV drain(It it) { IdV r; long guard = 0; for (it->start(); !it->end(); it->next()) { r.push_back(**it); if (++guard > 1000) fail("model-mismatch", "graph-iterator:does-not-end", "iterator yielded more than 1000 items"); } return r; }

  void setEq(const IdV& got, const IdV& want, const char* check, const std::string& what) {
    if (uniq(got) != uniq(want)) fail("model-mismatch", check, what + " returned " + idsStr(sorted(got)) + ", reference " + idsStr(sorted(want)));
  }

  void checkGraph() {
    const bpp::GlobalGraph& cg = *g;
    MM(g->isDirected() == m.directed, "graph-isDirected", "direction flag");
    IdV nodes(m.nodes.begin(), m.nodes.end()), edges; for (auto& kv : m.edges) edges.push_back(kv.first);
    MM(g->getNumberOfNodes() == nodes.size(), "graph-getNumberOfNodes", std::to_string(g->getNumberOfNodes()) + " vs reference " + std::to_string(nodes.size()));
    MM(g->getNumberOfEdges() == edges.size(), "graph-getNumberOfEdges", std::to_string(g->getNumberOfEdges()) + " vs reference " + std::to_string(edges.size()));
    IdV an = g->getAllNodes(), ae = g->getAllEdges();
    MM(sorted(an) == nodes, "graph-getAllNodes", idsStr(sorted(an)) + " vs reference " + idsStr(nodes));
    MM(sorted(ae) == edges, "graph-getAllEdges", idsStr(sorted(ae)) + " vs reference " + idsStr(edges));
    MM(sorted(drain(g->allNodesIterator())) == sorted(an), "graph-allNodesIterator", "iterator and getAllNodes differ");
    MM(sorted(drain(cg.allNodesIterator())) == sorted(an), "graph-allNodesIterator-const", "iterator and getAllNodes differ");
    MM(sorted(drain(g->allEdgesIterator())) == sorted(ae), "graph-allEdgesIterator", "iterator and getAllEdges differ");
    MM(sorted(drain(cg.allEdgesIterator())) == sorted(ae), "graph-allEdgesIterator-const", "iterator and getAllEdges differ");
    for (auto& kv : m.edges) {
      std::pair<Id, Id> pr = g->getNodes(kv.first);
      bool ok = (pr.first == kv.second.a && pr.second == kv.second.b) || (!m.directed && pr.first == kv.second.b && pr.second == kv.second.a);
      MM(ok, "graph-getNodes", "edge " + std::to_string(kv.first) + " reports (" + std::to_string(pr.first) + "," + std::to_string(pr.second) + "), reference (" + std::to_string(kv.second.a) + "," + std::to_string(kv.second.b) + ")");
      MM(g->getTop(kv.first) == pr.first && g->getBottom(kv.first) == pr.second, "graph-getTop-getBottom", "disagree with getNodes");
      MM(m.nodes.count(pr.first) && m.nodes.count(pr.second), "graph-edge-endpoints-exist", "edge " + std::to_string(kv.first) + " has a deleted end point");
    }
    for (Id n : nodes) {
      std::string sn = "node " + std::to_string(n);
      IdV oe = g->getOutgoingEdges(n), ie = g->getIncomingEdges(n), on = g->getOutgoingNeighbors(n), in = g->getIncomingNeighbors(n);
      IdV woe = outE(n), wie = inE(n), won = outN(n), win = inN(n);
      setEq(oe, woe, "graph-getOutgoingEdges", sn); setEq(ie, wie, "graph-getIncomingEdges", sn);
      setEq(on, won, "graph-getOutgoingNeighbors", sn); setEq(in, win, "graph-getIncomingNeighbors", sn);
      IdV wn = won; wn.insert(wn.end(), win.begin(), win.end()); IdV we = woe; we.insert(we.end(), wie.begin(), wie.end());
      setEq(g->getNeighbors(n), wn, "graph-getNeighbors", sn); setEq(g->getEdges(n), we, "graph-getEdges", sn);
      MM(g->getNumberOfOutgoingNeighbors(n) == uniq(won).size(), "graph-getNumberOfOutgoingNeighbors", sn);
      MM(g->getNumberOfIncomingNeighbors(n) == uniq(win).size(), "graph-getNumberOfIncomingNeighbors", sn);
      // iterators enumerate exactly what the list queries return
      MM(sorted(drain(g->outgoingNeighborNodesIterator(n))) == sorted(on), "graph-outgoingNeighborNodesIterator", sn);
      MM(sorted(drain(g->incomingNeighborNodesIterator(n))) == sorted(in), "graph-incomingNeighborNodesIterator", sn);
      MM(sorted(drain(g->outgoingEdgesIterator(n))) == sorted(oe), "graph-outgoingEdgesIterator", sn);
      MM(sorted(drain(g->incomingEdgesIterator(n))) == sorted(ie), "graph-incomingEdgesIterator", sn);
      if (step_ % 3 == 0) {
        MM(sorted(drain(cg.outgoingNeighborNodesIterator(n))) == sorted(on), "graph-outgoingNeighborNodesIterator-const", sn);
        MM(sorted(drain(cg.incomingNeighborNodesIterator(n))) == sorted(in), "graph-incomingNeighborNodesIterator-const", sn);
        MM(sorted(drain(cg.outgoingEdgesIterator(n))) == sorted(oe), "graph-outgoingEdgesIterator-const", sn);
        MM(sorted(drain(cg.incomingEdgesIterator(n))) == sorted(ie), "graph-incomingEdgesIterator-const", sn);
      }
      // degree / leaf: "number of neighbours"; the documentation does not say whether a neighbour met in both directions counts twice
      if (!selfLoop(n)) {
        size_t distinct = uniq(wn).size(), ends = m.directed ? won.size() + win.size() : uniq(won).size();
        size_t deg = g->getDegree(n), nn = g->getNumberOfNeighbors(n);
        MM(deg >= distinct && deg <= ends, "graph-getDegree", sn + " degree " + std::to_string(deg) + ", reference between " + std::to_string(distinct) + " and " + std::to_string(ends));
        MM(nn >= distinct && nn <= ends, "graph-getNumberOfNeighbors", sn + " " + std::to_string(nn) + ", reference between " + std::to_string(distinct) + " and " + std::to_string(ends));
        MM(g->isLeaf(n) == (distinct <= 1), "graph-isLeaf", sn + " has " + std::to_string(distinct) + " distinct neighbour(s), isLeaf=" + (g->isLeaf(n) ? "true" : "false"));
        if (m.directed && won.size() == 1 && win.size() == 1 && won[0] == win[0]) ctx.probe("leaf-with-reciprocal-neighbour");
      }
    }
    // leaves list: only where both documented definitions ("at most one neighbour" / "no son, or only one neighbour if undirected") agree
    IdV leaves = g->getAllLeaves(); std::set<Id> ls = g->getSetOfAllLeaves();
    MM(uniq(leaves) == IdV(ls.begin(), ls.end()), "graph-getSetOfAllLeaves", "differs from getAllLeaves");
    for (Id l : leaves) MM(m.nodes.count(l) > 0, "graph-getAllLeaves", "lists a deleted node");
    for (Id n : nodes) if (!selfLoop(n)) {
      IdV wn = outN(n); IdV win = inN(n); size_t nout = uniq(wn).size(); wn.insert(wn.end(), win.begin(), win.end()); size_t distinct = uniq(wn).size();
      bool listed = std::find(leaves.begin(), leaves.end(), n) != leaves.end();
      if (distinct == 1 && (!m.directed || nout == 0)) MM(listed, "graph-getAllLeaves", "node " + std::to_string(n) + " with exactly one neighbour is missing");
      if (distinct >= 2 && (!m.directed || nout >= 1)) MM(!listed, "graph-getAllLeaves", "node " + std::to_string(n) + " with two or more neighbours is listed");
    }
    for (Id x : g->getAllInnerNodes()) MM(m.nodes.count(x) > 0, "graph-getAllInnerNodes", "lists a deleted node");
    if (m.rootKnown && m.nodes.count(m.root)) MM(g->getRoot() == m.root, "graph-getRoot", "root differs from the last setRoot");
  }

  // ---------------------------------------------------------------- oracle: observer level
  // lookup only (never iterated): raw payload address -> graph id for the observer being checked
  std::map<const SimNode*, Id> nLook_; std::map<const SimEdge*, Id> eLook_; bool parallel_ = false;
  void buildLookup(const MObs& o) {
    nLook_.clear(); eLook_.clear();
    for (auto& kv : o.n2h) nLook_[o.N[static_cast<size_t>(kv.second)].get()] = kv.first;
    for (auto& kv : o.e2h) eLook_[o.E[static_cast<size_t>(kv.second)].get()] = kv.first;
  }
  IdV nodeIds(const MObs& o, const std::vector<Nref>& v, const char* check) {
    IdV r; r.reserve(v.size());
    for (auto& x : v) {
      if (!x) fail("model-mismatch", check, "list contains a null object");
      auto it = nLook_.find(x.get());
      bool found = it != nLook_.end(); if (found) r.push_back(it->second);
      if (!found) fail("model-mismatch", check, "list contains an object (payload " + std::to_string(x->pid) + ") that the reference does not associate with a live node");
    }
    return r;
  }
  IdV edgeIds(const MObs& o, const std::vector<Eref>& v, const char* check) {
    IdV r; r.reserve(v.size());
    for (auto& x : v) {
      if (!x) fail("model-mismatch", check, "list contains a null object");
      auto it = eLook_.find(x.get());
      bool found = it != eLook_.end(); if (found) r.push_back(it->second);
      if (!found) fail("model-mismatch", check, "list contains an object (payload " + std::to_string(x->pid) + ") that the reference does not associate with a live edge");
    }
    return r;
  }
  template <class It> std::vector<Nref> drainN(It it) { std::vector<Nref> r; long guard = 0; for (it->start(); !it->end(); it->next()) { r.push_back(**it); if (++guard > 1000) fail("model-mismatch", "obs-iterator:does-not-end", ">1000 items"); } return r; }
  template <class It> std::vector<Eref> drainE(It it) { std::vector<Eref> r; long guard = 0; for (it->start(); !it->end(); it->next()) { r.push_back(**it); if (++guard > 1000) fail("model-mismatch", "obs-iterator:does-not-end", ">1000 items"); } return r; }
  IdV known(const MObs& o, const IdV& ids, bool edge) { IdV r; for (Id i : ids) if (edge ? o.e2h.count(i) : o.n2h.count(i)) r.push_back(i); return r; }
  bool contains(const IdV& v, Id x) { return std::find(v.begin(), v.end(), x) != v.end(); }

  // object-list query; edgeCase marks the boundary "an id in the list equals the size of the observer's object table"
  template <class Q> void listQuery(bool edgeCase, Q q) {
    std::string save = tag; if (edgeCase) { tag = "list id equals the observer's table size"; ctx.probe("list-id-equals-table-size"); }
    q();
    tag = save;
  }

  void checkObs(size_t k, bool full) {
    MObs& o = obs[k]; Obs& O = *o.o; const Obs& CO = *o.o;
    buildLookup(o); parallel_ = hasParallel();
    MM(O.getGraph().get() == g.get(), "obs-getGraph", "observer lost its subject graph");
    MM(O.getNumberOfNodes() == o.n2h.size(), "obs-getNumberOfNodes", std::to_string(O.getNumberOfNodes()) + " vs reference " + std::to_string(o.n2h.size()));
    MM(O.getNumberOfEdges() == o.e2h.size(), "obs-getNumberOfEdges", std::to_string(O.getNumberOfEdges()) + " vs reference " + std::to_string(o.e2h.size()));
    IdV wantN = nodesOf(o), wantE; for (auto& kv : o.e2h) wantE.push_back(kv.first);
    MM(sorted(nodeIds(o, O.getAllNodes(), "obs-getAllNodes")) == wantN, "obs-getAllNodes", "differs from the reference association");
    MM(sorted(edgeIds(o, O.getAllEdges(), "obs-getAllEdges")) == wantE, "obs-getAllEdges", "differs from the reference association");
    MM(sorted(nodeIds(o, drainN(O.allNodesIterator()), "obs-allNodesIterator")) == wantN, "obs-allNodesIterator", "differs from getAllNodes");
    MM(sorted(edgeIds(o, drainE(O.allEdgesIterator()), "obs-allEdgesIterator")) == wantE, "obs-allEdgesIterator", "differs from getAllEdges");
    if (step_ % 3 == 1) {
      MM(sorted(nodeIds(o, drainN(CO.allNodesIterator()), "obs-allNodesIterator-const")) == wantN, "obs-allNodesIterator-const", "differs from getAllNodes");
      MM(sorted(edgeIds(o, drainE(CO.allEdgesIterator()), "obs-allEdgesIterator-const")) == wantE, "obs-allEdgesIterator-const", "differs from getAllEdges");
    }
    // node objects: id <-> object <-> index
    std::set<int> liveH;
    for (auto& kv : o.n2h) {
      Nref x = o.N[static_cast<size_t>(kv.second)]; liveH.insert(kv.second);
      MM(O.hasNode(x), "obs-hasNode", "associated object not known");
      MM(O.getNodeGraphid(x) == kv.first, "obs-getNodeGraphid", "object maps to another id");
      MM(O.getNodeFromGraphid(kv.first) == x && CO.getNodeFromGraphid(kv.first) == x, "obs-getNodeFromGraphid", "id maps to another object");
      auto ix = o.nIdx.find(kv.second);
      MM(O.hasNodeIndex(x) == (ix != o.nIdx.end()), "obs-hasNodeIndex", "index presence differs for a live node object");
      if (ix != o.nIdx.end()) {
        MM(O.getNodeIndex(x) == ix->second, "obs-getNodeIndex", "index differs");
        MM(O.hasNode(static_cast<Obs::NodeIndex>(ix->second)), "obs-hasNode-index", "index of a live node object not known");
        MM(O.getNode(static_cast<Obs::NodeIndex>(ix->second)) == x, "obs-getNode-index", "index maps to another object");
      }
    }
    for (size_t h = 0; h < o.N.size(); ++h) if (!liveH.count(static_cast<int>(h))) {
      MM(!O.hasNode(o.N[h]), "obs-forgotten-node:hasNode", "a deleted / dissociated node object is still known");
      MM(!O.hasNodeIndex(o.N[h]), "obs-forgotten-node:hasNodeIndex", "a deleted / dissociated node object still has an index");
    }
    for (Id n : m.nodes) if (!o.n2h.count(n)) MM(!O.getNodeFromGraphid(n), "obs-getNodeFromGraphid", "an object is reported for a node this observer does not associate");
    Id maxIx = 0; for (auto& kv : o.nIdx) maxIx = std::max(maxIx, kv.second + 1);
    for (Id ix = 0; ix < maxIx + 2; ++ix) MM(O.hasNode(static_cast<Obs::NodeIndex>(ix)) == o.idxUsedN(ix), "obs-hasNode-index", "node index " + std::to_string(ix) + (o.idxUsedN(ix) ? " missing" : " still in use after its object was deleted or never given"));
    // edge objects
    std::set<int> liveE;
    for (auto& kv : o.e2h) {
      Eref x = o.E[static_cast<size_t>(kv.second)]; liveE.insert(kv.second);
      MM(O.hasEdge(x), "obs-hasEdge", "associated object not known");
      MM(O.getEdgeGraphid(x) == kv.first, "obs-getEdgeGraphid", "object maps to another id");
      MM(O.getEdgeFromGraphid(kv.first) == x && CO.getEdgeFromGraphid(kv.first) == x, "obs-getEdgeFromGraphid", "id maps to another object");
      auto ix = o.eIdx.find(kv.second);
      MM(O.hasEdgeIndex(x) == (ix != o.eIdx.end()), "obs-hasEdgeIndex", "index presence differs for a live edge object");
      if (ix != o.eIdx.end()) {
        MM(O.getEdgeIndex(x) == ix->second, "obs-getEdgeIndex", "index differs");
        MM(O.hasEdge(static_cast<Obs::EdgeIndex>(ix->second)), "obs-hasEdge-index", "index of a live edge object not known");
        MM(O.getEdge(static_cast<Obs::EdgeIndex>(ix->second)) == x, "obs-getEdge-index", "index maps to another object");
      }
      // end points of the association
      const MEdge& me = m.edges.at(kv.first);
      std::pair<Nref, Nref> pr = O.getNodes(x);
      int ha = o.hOfNode(me.a), hb = o.hOfNode(me.b);
      Nref wa = ha >= 0 ? o.N[static_cast<size_t>(ha)] : Nref(), wb = hb >= 0 ? o.N[static_cast<size_t>(hb)] : Nref();
      bool okp = (pr.first == wa && pr.second == wb) || (!m.directed && pr.first == wb && pr.second == wa);
      MM(okp, "obs-getNodes", "end points of edge " + std::to_string(kv.first) + " differ from the reference");
    }
    for (size_t h = 0; h < o.E.size(); ++h) if (!liveE.count(static_cast<int>(h))) {
      MM(!O.hasEdge(o.E[h]), "obs-forgotten-edge:hasEdge", "a deleted / dissociated edge object is still known");
      MM(!O.hasEdgeIndex(o.E[h]), "obs-forgotten-edge:hasEdgeIndex", "a deleted / dissociated edge object still has an index");
    }
    for (auto& kv : m.edges) if (!o.e2h.count(kv.first)) MM(!O.getEdgeFromGraphid(kv.first), "obs-getEdgeFromGraphid", "an object is reported for an edge this observer does not associate");
    Id maxEx = 0; for (auto& kv : o.eIdx) maxEx = std::max(maxEx, kv.second + 1);
    for (Id ix = 0; ix < maxEx + 2; ++ix) MM(O.hasEdge(static_cast<Obs::EdgeIndex>(ix)) == o.idxUsedE(ix), "obs-hasEdge-index", "edge index " + std::to_string(ix) + (o.idxUsedE(ix) ? " missing" : " still in use after its object was deleted or never given"));
    // per node: neighbour / edge lists, iterators, degree, leaf (every step for the acting observer and one other in turn; all at the last step)
    if (full) for (auto& kv : o.n2h) {
      Id n = kv.first; Nref x = o.N[static_cast<size_t>(kv.second)];
      IdV gon = outN(n), gin = inN(n), goe = outE(n), gie = inE(n);
      IdV won = uniq(known(o, gon, false)), win = uniq(known(o, gin, false)), woe = uniq(known(o, goe, true)), wie = uniq(known(o, gie, true));
      IdV wn = won; wn.insert(wn.end(), win.begin(), win.end()); wn = uniq(wn); IdV we = woe; we.insert(we.end(), wie.begin(), wie.end()); we = uniq(we);
      bool hzN_o = contains(gon, o.szN), hzN_i = contains(gin, o.szN), hzE_o = contains(goe, o.szE), hzE_i = contains(gie, o.szE);
      listQuery(hzN_o, [&] { MM(uniq(nodeIds(o, O.getOutgoingNeighbors(x), "obs-getOutgoingNeighbors")) == won, "obs-getOutgoingNeighbors", "node " + std::to_string(n)); });
      listQuery(hzN_i, [&] { MM(uniq(nodeIds(o, O.getIncomingNeighbors(x), "obs-getIncomingNeighbors")) == win, "obs-getIncomingNeighbors", "node " + std::to_string(n)); });
      listQuery(hzN_o || hzN_i, [&] { MM(uniq(nodeIds(o, O.getNeighbors(x), "obs-getNeighbors")) == wn, "obs-getNeighbors", "node " + std::to_string(n)); });
      listQuery(hzE_o, [&] { MM(uniq(edgeIds(o, O.getOutgoingEdges(x), "obs-getOutgoingEdges")) == woe, "obs-getOutgoingEdges", "node " + std::to_string(n)); });
      listQuery(hzE_i, [&] { MM(uniq(edgeIds(o, O.getIncomingEdges(x), "obs-getIncomingEdges")) == wie, "obs-getIncomingEdges", "node " + std::to_string(n)); });
      listQuery(hzE_o || hzE_i, [&] { MM(uniq(edgeIds(o, O.getEdges(x), "obs-getEdges")) == we, "obs-getEdges", "node " + std::to_string(n)); });
      MM(uniq(nodeIds(o, drainN(O.outgoingNeighborNodesIterator(x)), "obs-outgoingNeighborNodesIterator")) == won, "obs-outgoingNeighborNodesIterator", "node " + std::to_string(n));
      MM(uniq(nodeIds(o, drainN(O.incomingNeighborNodesIterator(x)), "obs-incomingNeighborNodesIterator")) == win, "obs-incomingNeighborNodesIterator", "node " + std::to_string(n));
      MM(uniq(edgeIds(o, drainE(O.outgoingEdgesIterator(x)), "obs-outgoingEdgesIterator")) == woe, "obs-outgoingEdgesIterator", "node " + std::to_string(n));
      MM(uniq(edgeIds(o, drainE(O.incomingEdgesIterator(x)), "obs-incomingEdgesIterator")) == wie, "obs-incomingEdgesIterator", "node " + std::to_string(n));
      if (step_ % 3 == 2) {
        MM(uniq(nodeIds(o, drainN(CO.outgoingNeighborNodesIterator(x)), "obs-outgoingNeighborNodesIterator-const")) == won, "obs-outgoingNeighborNodesIterator-const", "node " + std::to_string(n));
        MM(uniq(nodeIds(o, drainN(CO.incomingNeighborNodesIterator(x)), "obs-incomingNeighborNodesIterator-const")) == win, "obs-incomingNeighborNodesIterator-const", "node " + std::to_string(n));
        MM(uniq(edgeIds(o, drainE(CO.outgoingEdgesIterator(x)), "obs-outgoingEdgesIterator-const")) == woe, "obs-outgoingEdgesIterator-const", "node " + std::to_string(n));
        MM(uniq(edgeIds(o, drainE(CO.incomingEdgesIterator(x)), "obs-incomingEdgesIterator-const")) == wie, "obs-incomingEdgesIterator-const", "node " + std::to_string(n));
      }
      MM(O.getDegree(x) == g->getDegree(n), "obs-getDegree", "differs from the graph's degree");
      MM(O.isLeaf(x) == g->isLeaf(n), "obs-isLeaf", "differs from the graph's answer");
      // linking edge of each association
      for (Id e : outE(n)) {
        Id nb = other(e, n, true); int hb = o.hOfNode(nb); if (hb < 0) continue;
        if (parallel_) continue;
        Eref got = O.getEdgeLinking(x, o.N[static_cast<size_t>(hb)]);
        int he = o.hOfEdge(e);
        MM(got == (he >= 0 ? o.E[static_cast<size_t>(he)] : Eref()), "obs-getEdgeLinking", "edge " + std::to_string(e) + " between two associated nodes");
      }
    }
    if (m.rootKnown && m.nodes.count(m.root)) { int hr = o.hOfNode(m.root); MM(O.getRoot() == (hr >= 0 ? o.N[static_cast<size_t>(hr)] : Nref()), "obs-getRoot", "root object differs"); }
  }

  uint64_t fingerprint() const {
    uint64_t h = m.directed ? 0x9e37 : 0x51;
    for (Id n : m.nodes) h = h * 1099511628211ULL ^ (n + 1);
    for (auto& kv : m.edges) h = (h * 1099511628211ULL ^ (kv.first * 64 + kv.second.a * 8 + kv.second.b)) + 7;
    for (auto& o : obs) { h = h * 31 + 5; for (auto& kv : o.n2h) h = h * 1099511628211ULL ^ (kv.first + 3); for (auto& kv : o.e2h) h = h * 1099511628211ULL ^ (kv.first + 11); for (auto& kv : o.nIdx) h = h * 131 + kv.second; for (auto& kv : o.eIdx) h = h * 137 + kv.second; }
    return h;
  }

  void oracle() {
    buildAdj();
    checkGraph();
    bool last = step_ + 1 == static_cast<long>(p.ops.size());
    for (size_t k = 0; k < obs.size(); ++k) checkObs(k, last || k == acting_ || obs.size() < 2 || k == (acting_ + 1 + static_cast<size_t>(step_) % (obs.size() - 1)) % obs.size());
    if (obs.size() >= 2) ctx.probe("two-or-more-observers");
    if (!m.directed && !m.edges.empty()) ctx.probe("undirected-with-edges");
    if (static_cast<long>(m.edges.size()) > ctx.custom) ctx.custom = static_cast<long>(m.edges.size());
    ctx.state(fingerprint());
    adjValid_ = false;
  }
  // ---------------------------------------------------------------- operations
  size_t actor(const Op& o) const { return static_cast<size_t>(o.d) % obs.size(); }

  // a-th node associated by observer k; in strict (enumerated) plans an operand beyond the live count denotes an absent object
  bool pickNode(size_t k, long a, Id& id) {
    IdV v = nodesOf(obs[k]); if (v.empty()) return false;
    if (strict && static_cast<size_t>(a) >= v.size()) return false;
    id = v[static_cast<size_t>(a) % v.size()]; return true;
  }
  Nref objN(size_t k, Id id) { return obs[k].N[static_cast<size_t>(obs[k].n2h.at(id))]; }

  void noteNewNode(size_t k, Nref x, int handle, const std::string& what) {
    Id id = obs[k].o->getNodeGraphid(x);
    MM(!m.nodes.count(id), what + ":fresh-node-id", "new node received the id of a live node");
    m.nodes.insert(id); obs[k].n2h[id] = handle; obs[k].szN = std::max(obs[k].szN, id + 1);
  }
  // registers the edge the library just created between a and b (found through the graph, the id is the library's choice)
  Id noteNewEdge(size_t k, Id a, Id b, Eref x, int handle, const std::string& what) {
    Id id;
    if (x) id = obs[k].o->getEdgeGraphid(x);
    else {
      IdV all = g->getAllEdges(); bool found = false; id = 0;
      for (Id e : all) if (!m.edges.count(e)) { id = e; found = true; }
      MM(found, what + ":edge-created", "no new edge appeared in the graph");
    }
    MM(!m.edges.count(id), what + ":fresh-edge-id", "new edge received the id of a live edge");
    MEdge me; me.a = a; me.b = b; m.edges[id] = me;
    if (x) obs[k].e2h[id] = handle; else obs[k].nullKey = true;
    obs[k].szE = std::max(obs[k].szE, id + 1);
    return id;
  }
  void modelRemoveEdge(Id e) {
    m.edges.erase(e);
    for (auto& o : obs) { auto it = o.e2h.find(e); if (it != o.e2h.end()) { o.eIdx.erase(it->second); o.e2h.erase(it); } }
  }
  void modelRemoveNode(Id n) {
    for (Id e : incident(n)) modelRemoveEdge(e);
    m.nodes.erase(n);
    for (auto& o : obs) { auto it = o.n2h.find(n); if (it != o.n2h.end()) { o.nIdx.erase(it->second); o.n2h.erase(it); } }
  }

  void opCreate(const Op& o) {
    size_t k = actor(o); MObs& ob = obs[k];
    if (m.nodes.size() >= MAXNODES) { ctx.outcome("skip"); return; }
    if ((o.c & 1) && !ob.n2h.empty()) {      // duplicate association
      Nref x = objN(k, nodesOf(ob)[static_cast<size_t>(o.a) % ob.n2h.size()]);
      mustRaise("createNode:duplicate-object", [&] { ob.o->createNode(x); });
      ctx.fault("reject@k"); ctx.rejected(); return;
    }
    Nref x = freshN(ob); int h = static_cast<int>(ob.N.size() - 1);
    mustReturn("createNode", [&] { ob.o->createNode(x); });
    noteNewNode(k, x, h, "createNode");
    ctx.ok();
  }

  void opCreateFrom(const Op& o) {
    size_t k = actor(o); MObs& ob = obs[k];
    if (m.nodes.size() >= MAXNODES || m.edges.size() >= MAXEDGES) { ctx.outcome("skip"); return; }
    Id origin = 0; bool present = pickNode(k, o.a, origin) && !(o.c & 2);
    bool nullEdge = (o.c & 1) != 0;
    bool dupEdge = (o.c & 4) && !ob.e2h.empty() && present;
    if (!present && !strict && !(o.c & 2)) { ctx.outcome("skip"); return; }
    Nref from = present ? objN(k, origin) : absentN(k, o.b);
    Nref x = freshN(ob); int h = static_cast<int>(ob.N.size() - 1);
    Eref e; int he = -1;
    if (dupEdge) e = ob.E[static_cast<size_t>(ob.e2h.begin()->second)];
    else if (!nullEdge) { e = freshE(ob); he = static_cast<int>(ob.E.size() - 1); }
    if (present && !dupEdge) {
      if (nullEdge) { tag = "link without edge object"; ctx.probe("link-without-edge-object"); }
      mustReturn("createNode-from", [&] { if (e) ob.o->createNode(from, x, e); else ob.o->createNode(from, x); });
      noteNewNode(k, x, h, "createNode-from");
      noteNewEdge(k, origin, ob.o->getNodeGraphid(x), e, he, "createNode-from");
      ctx.ok();
    } else {
      // compound call rejected at its second element: the documentation does not promise atomicity, so the
      // reference accepts "nothing happened" as well as "the node exists, unlinked" and re-synchronises
      mustRaise(dupEdge ? "createNode-from:duplicate-edge-object" : "createNode-from:absent-origin", [&] { ob.o->createNode(from, x, e); });
      if (ob.o->hasNode(x)) { noteNewNode(k, x, h, "createNode-from"); ctx.probe("compound-create-left-unlinked-node"); }
      ctx.fault("reject@k"); ctx.rejected();
    }
  }

  // ---- node creations made on the graph itself (createNodeFromNode / createNodeOnEdge / createNodeFromEdge): no observer is the
  // actor, so the new nodes and edges are known to the graph and to no association layer; the edge split notifies every observer
  void modelSplitEdge(Id e, Id anchor, const std::string& what) {
    MEdge me = m.edges.at(e);
    IdV gone; for (auto& kv : m.edges) if ((kv.second.a == me.a && kv.second.b == me.b) || (!m.directed && kv.second.a == me.b && kv.second.b == me.a)) gone.push_back(kv.first);
    for (Id x : gone) modelRemoveEdge(x);
    MM(!m.nodes.count(anchor), what + ":fresh-node-id", "new node received the id of a live node");
    m.nodes.insert(anchor);
    Id e1 = g->getEdge(me.a, anchor), e2 = g->getEdge(anchor, me.b);
    MM(!m.edges.count(e1) && !m.edges.count(e2) && (e1 != e2 || me.a == me.b), what + ":fresh-edge-id", "an edge of the split received the id of a live edge");
    MEdge m1; m1.a = me.a; m1.b = anchor; m.edges[e1] = m1;
    MEdge m2; m2.a = anchor; m2.b = me.b; m.edges[e2] = m2;
  }
  void modelHang(Id origin, Id n, const std::string& what) {
    MM(!m.nodes.count(n), what + ":fresh-node-id", "new node received the id of a live node");
    m.nodes.insert(n);
    Id e = g->getEdge(origin, n);
    MM(!m.edges.count(e), what + ":fresh-edge-id", "new edge received the id of a live edge");
    MEdge me; me.a = origin; me.b = n; m.edges[e] = me;
  }
  void opGraphCreate(const Op& o) {
    if (strict || m.nodes.size() + 2 > MAXNODES || m.edges.size() + 3 > MAXEDGES) { ctx.outcome("skip"); return; }
    bool absent = (o.c & 2) != 0;
    if (o.k == "gn") {
      if (m.nodes.empty() && !absent) { ctx.outcome("skip"); return; }
      if (absent) {
        Id bad = 0; while (m.nodes.count(bad)) ++bad; bad += 40;
        mustRaise("graph-createNodeFromNode:absent-origin", [&] { g->createNodeFromNode(bad); });
        // not promised to be atomic: a node created before the link was refused stays, unlinked (re-synchronised)
        for (Id x : g->getAllNodes()) if (!m.nodes.count(x)) { m.nodes.insert(x); ctx.probe("compound-create-left-unlinked-node"); }
        ctx.fault("reject@k"); ctx.rejected(); return;
      }
      IdV v(m.nodes.begin(), m.nodes.end()); Id origin = v[static_cast<size_t>(o.a) % v.size()];
      Id n = 0; mustReturn("graph-createNodeFromNode", [&] { n = g->createNodeFromNode(origin); });
      modelHang(origin, n, "graph-createNodeFromNode");
      ctx.probe("graph-level-node-from-node"); ctx.ok(); return;
    }
    // the two edge-based creators
    const char* what = o.k == "ge" ? "graph-createNodeOnEdge" : "graph-createNodeFromEdge";
    if (absent || m.edges.empty()) {
      if (!absent) { ctx.outcome("skip"); return; }
      Id bad = 0; while (m.edges.count(bad)) ++bad; bad += 60;
      mustRaise(std::string(what) + ":absent-edge", [&] { if (o.k == "ge") g->createNodeOnEdge(bad); else g->createNodeFromEdge(bad); });
      ctx.fault("reject@k"); ctx.rejected(); return;
    }
    IdV ev; for (auto& kv : m.edges) ev.push_back(kv.first);
    Id e = ev[static_cast<size_t>(o.a) % ev.size()];
    // an undirected self relation cannot be split (a-n and n-a would be the same undirected relation twice): the call raises after
    // partial work, which the statement allows; not generated because the reference has no re-synchronisation for it
    if (!m.directed && m.edges.at(e).a == m.edges.at(e).b) { ctx.probe("graph-level-split-of-undirected-self-relation-skipped"); ctx.outcome("skip"); return; }
    bool known = false; for (auto& ob : obs) if (ob.e2h.count(e)) known = true;
    if (known) ctx.probe("graph-level-split-of-an-associated-edge");
    if (o.k == "ge") {
      Id anchor = 0; mustReturn(what, [&] { anchor = g->createNodeOnEdge(e); });
      modelSplitEdge(e, anchor, what);
      ctx.probe("graph-level-node-on-edge");
    } else {
      Id n = 0; mustReturn(what, [&] { n = g->createNodeFromEdge(e); });
      Id anchor = 0; bool found = false;
      for (Id x : g->getAllNodes()) if (!m.nodes.count(x) && x != n) { anchor = x; MM(!found, std::string(what) + ":two-new-nodes", "more than two new nodes appeared"); found = true; }
      MM(found, std::string(what) + ":two-new-nodes", "the node splitting the edge did not appear");
      modelSplitEdge(e, anchor, what);
      modelHang(anchor, n, what);
      ctx.probe("graph-level-node-from-edge");
    }
    ctx.ok();
  }

  void opLink(const Op& o) {
    size_t k = actor(o); MObs& ob = obs[k];
    IdV v = nodesOf(ob);
    if (m.edges.size() >= MAXEDGES) { ctx.outcome("skip"); return; }
    bool absA = (o.c & 2) != 0, absB = (o.c & 4) != 0;
    if (strict) { if (static_cast<size_t>(o.a) >= v.size()) absA = true; if (static_cast<size_t>(o.b) >= v.size()) absB = true; }
    if (v.empty() && !absA && !absB) { ctx.outcome("skip"); return; }
    if (absA || absB || v.empty()) {
      Nref xa = (absA || v.empty()) ? absentN(k, o.a) : objN(k, v[static_cast<size_t>(o.a) % v.size()]);
      Nref xb = (absB || v.empty()) ? absentN(k, o.b + 1) : objN(k, v[static_cast<size_t>(o.b) % v.size()]);
      Eref e = freshE(ob);
      mustRaise("link:absent-node", [&] { ob.o->link(xa, xb, e); });
      ctx.fault("reject@k"); ctx.rejected(); return;
    }
    size_t ia = static_cast<size_t>(o.a) % v.size(), ib = static_cast<size_t>(o.b) % v.size();
    bool wantLoop = (o.c & 8) != 0;
    if (ia == ib && !wantLoop) { if (v.size() < 2) { ctx.outcome("skip"); return; } ib = (ib + 1) % v.size(); }
    Id a = v[ia], b = v[ib];
    if (asc && a > b) std::swap(a, b);
    if (related(a, b) && !(o.c & 32) && !strict) {
      // scan for an unrelated pair (an already related pair is requested explicitly with flag 32)
      bool found = false;
      for (size_t t = 1; t < v.size() * v.size() && !found; ++t) {
        Id ca = v[(ia + t / v.size()) % v.size()], cb = v[(ib + t) % v.size()];
        if (asc && ca > cb) std::swap(ca, cb);
        if (ca == cb && !wantLoop) continue;
        if (!related(ca, cb)) { a = ca; b = cb; found = true; }
      }
      if (!found) { ctx.outcome("skip"); return; }
    }
    Nref xa = objN(k, a), xb = objN(k, b);
    if (related(a, b)) {   // the graph holds one edge per ordered pair (per unordered pair when undirected): a second link is rejected
      Eref e = freshE(ob);
      mustRaise("link:already-related", [&] { ob.o->link(xa, xb, e); });
      ctx.probe("link-already-related-rejected"); ctx.fault("reject@k"); ctx.rejected(); return;
    }
    if ((o.c & 16) && !ob.e2h.empty()) {
      Eref e = ob.E[static_cast<size_t>(ob.e2h.begin()->second)];
      mustRaise("link:duplicate-edge-object", [&] { ob.o->link(xa, xb, e); });
      ctx.fault("reject@k"); ctx.rejected(); return;
    }
    bool nullEdge = (o.c & 1) != 0;
    Eref e; int he = -1; if (!nullEdge) { e = freshE(ob); he = static_cast<int>(ob.E.size() - 1); }
    if (nullEdge) { tag = "link without edge object"; ctx.probe("link-without-edge-object"); }
    if (m.directed && related(b, a) && a != b) ctx.probe("reciprocal-link");
    if (a == b) ctx.probe("self-loop");
    mustReturn("link", [&] { if (e) ob.o->link(xa, xb, e); else ob.o->link(xa, xb); });
    noteNewEdge(k, a, b, e, he, "link");
    ctx.ok();
  }

  void opUnlink(const Op& o) {
    size_t k = actor(o); MObs& ob = obs[k];
    IdV v = nodesOf(ob);
    if ((o.c & 2) || (strict && (static_cast<size_t>(o.a) >= v.size() || static_cast<size_t>(o.b) >= v.size()))) {
      Nref xa = absentN(k, o.a), xb = v.empty() ? absentN(k, o.b + 1) : objN(k, v[static_cast<size_t>(o.b) % v.size()]);
      mustRaise("unlink:absent-node", [&] { if (o.c & 8) ob.o->unlink(xb, xa); else ob.o->unlink(xa, xb); });
      ctx.fault("reject@k"); ctx.rejected(); return;
    }
    if (v.empty()) { ctx.outcome("skip"); return; }
    if (o.c & 4) {   // two present nodes without a relation in that direction
      Id a = v[static_cast<size_t>(o.a) % v.size()], b = v[static_cast<size_t>(o.b) % v.size()];
      if (related(a, b)) { ctx.outcome("skip"); return; }
      mustRaise("unlink:no-relation", [&] { ob.o->unlink(objN(k, a), objN(k, b)); });
      if (m.directed && related(b, a)) ctx.probe("unlink-reversed-direction-rejected");
      ctx.fault("reject@k"); ctx.rejected(); return;
    }
    // candidate edges: both ends associated by the acting observer
    IdV cand;
    for (auto& kv : m.edges) {
      if (!ob.n2h.count(kv.second.a) || !ob.n2h.count(kv.second.b)) continue;
      cand.push_back(kv.first);
    }
    if (strict) {   // enumerated plans name the pair directly
      Id a = v[static_cast<size_t>(o.a)], b = v[static_cast<size_t>(o.b)]; IdV c2;
      for (Id e : cand) { const MEdge& me = m.edges.at(e); if ((me.a == a && me.b == b) || (!m.directed && me.a == b && me.b == a)) c2.push_back(e); }
      if (c2.empty() && !related(a, b)) {
        mustRaise("unlink:no-relation", [&] { ob.o->unlink(objN(k, a), objN(k, b)); });
        ctx.fault("reject@k"); ctx.rejected(); return;
      }
      cand = c2;
    }
    if (cand.empty()) { ctx.outcome("skip"); return; }
    Id e = cand[static_cast<size_t>(strict ? 0 : o.a) % cand.size()];
    MEdge me = m.edges.at(e);
    Id a = me.a, b = me.b;
    if (!m.directed && (o.c & 8)) std::swap(a, b);
    if (!m.directed && me.a != me.b) { tag = "undirected unlink"; ctx.probe("undirected-unlink"); }
    if (edgeIndexedAnywhere(e)) { tag += " unlink of an indexed edge"; ctx.probe("unlink-indexed-edge"); }
    bool seenByOther = false; for (size_t j = 0; j < obs.size(); ++j) if (j != k && obs[j].e2h.count(e)) seenByOther = true;
    if (seenByOther) ctx.probe("unlink-notifies-other-observer");
    mustReturn("unlink", [&] { ob.o->unlink(objN(k, a), objN(k, b)); });
    // every edge a -> b goes (there is exactly one unless the parallel-link trigger was used)
    IdV gone; for (auto& kv : m.edges) if ((kv.second.a == me.a && kv.second.b == me.b) || (!m.directed && kv.second.a == me.b && kv.second.b == me.a)) gone.push_back(kv.first);
    for (Id x : gone) modelRemoveEdge(x);
    ctx.ok();
  }

  // every node may be deleted; t names the circumstances for the detail text and the probes
  bool deletable(size_t k, Id n, std::string& t) const {
    t.clear();
    IdV inc = incident(n);
    bool linked = false; for (Id e : inc) { const MEdge& me = m.edges.at(e); if (me.a != me.b) linked = true; }
    if (!m.directed && linked) t += " undirected-linked-node";
    for (Id e : inc) if (edgeIndexedAnywhere(e)) { t += " indexed-edge"; break; }
    if (k < obs.size()) { int h = obs[k].hOfNode(n); if (h >= 0 && obs[k].nIdx.count(h)) t += " indexed-node"; }
    if (nodeElsewhere(n, k)) t += " node-known-to-another-observer";
    return true;
  }

  void noteDelete(const std::string& t) {
    if (t.find("undirected-linked-node") != std::string::npos) ctx.probe("delete-linked-node-undirected");
    if (t.find("indexed-edge") != std::string::npos) ctx.probe("delete-node-with-indexed-edge");
    if (t.find("indexed-node") != std::string::npos) ctx.probe("delete-indexed-node");
    if (t.find("another-observer") != std::string::npos) ctx.probe("delete-node-known-to-another-observer");
  }
  void opDelete(const Op& o) {
    size_t k = actor(o); MObs& ob = obs[k];
    IdV v = nodesOf(ob);
    if ((o.c & 2) || (strict && static_cast<size_t>(o.a) >= v.size())) {
      Nref x = absentN(k, o.b);
      mustRaise("deleteNode:absent-node", [&] { ob.o->deleteNode(x); });
      ctx.fault("reject@k"); ctx.rejected(); return;
    }
    std::string t;
    if (o.c & 32) {   // deletion through the graph itself
      IdV cand; for (Id n : m.nodes) if (deletable(obs.size(), n, t)) cand.push_back(n);
      if (o.c & 64) {  // absent id
        Id bad = 0; for (Id x : m.nodes) bad = std::max(bad, x + 1); bad += static_cast<Id>(o.a % 3);
        mustRaise("graph-deleteNode:absent-node", [&] { g->deleteNode(bad); });
        ctx.fault("reject@k"); ctx.rejected(); return;
      }
      if (cand.empty()) { ctx.outcome("skip"); return; }
      Id n = cand[static_cast<size_t>(o.a) % cand.size()]; deletable(obs.size(), n, t); tag = t;
      noteDelete(t);
      if (!incident(n).empty()) ctx.probe("delete-linked-node");
      mustReturn("graph-deleteNode", [&] { g->deleteNode(n); });
      modelRemoveNode(n); ctx.ok(); return;
    }
    IdV cand;
    if (strict) { if (deletable(k, v[static_cast<size_t>(o.a)], t)) cand.push_back(v[static_cast<size_t>(o.a)]); }
    else for (Id n : v) if (deletable(k, n, t)) cand.push_back(n);
    if (cand.empty()) { ctx.outcome("skip"); return; }
    Id n = cand[static_cast<size_t>(strict ? 0 : o.a) % cand.size()]; deletable(k, n, t); tag = t;
    noteDelete(t);
    if (!incident(n).empty()) ctx.probe("delete-linked-node");
    bool in = false; for (auto& kv : m.edges) if (kv.second.b == n && kv.second.a != n) in = true;
    if (in && m.directed) ctx.probe("delete-node-with-incoming-edge");
    Nref x = objN(k, n);
    mustReturn("deleteNode", [&] { ob.o->deleteNode(x); });
    modelRemoveNode(n);
    ctx.ok();
  }

  void opDirection(const Op& o) {
    bool toDirected = o.k == "md";
    if (toDirected) {
      if (m.directed) { mustReturn("makeDirected", [&] { g->makeDirected(); }); ctx.outcome("noop"); return; }
      bool flip = false; for (auto& kv : m.edges) if (kv.second.a > kv.second.b) flip = true;
      if (flip) { tag = "makeDirected re-orients an edge"; ctx.probe("makeDirected-reorients-edge"); }
      mustReturn("makeDirected", [&] { g->makeDirected(); });
      m.directed = true;
      // "the resulting directions are totally arbitrary": take each edge's direction from the node that lists it as outgoing
      for (auto& kv : m.edges) {
        if (kv.second.a == kv.second.b) continue;
        IdV oa = g->getOutgoingEdges(kv.second.a), ob2 = g->getOutgoingEdges(kv.second.b);
        bool fa = contains(oa, kv.first), fb = contains(ob2, kv.first);
        MM(fa != fb, "graph-makeDirected:one-direction-per-edge", "edge " + std::to_string(kv.first) + (fa ? " kept in both directions" : " lost"));
        if (fb) std::swap(kv.second.a, kv.second.b);
      }
      if (!m.edges.empty()) ctx.probe("makeDirected-with-edges");
      ctx.ok();
    } else {
      if (!m.directed) { mustReturn("makeUndirected", [&] { g->makeUndirected(); }); ctx.outcome("noop"); return; }
      if (hasReciprocal()) {
        int r = attempt("makeUndirected", [&] { g->makeUndirected(); });
        if (r != 1) fail("model-mismatch", "makeUndirected:reciprocal-relations-accepted", "documented to raise when A->B and B->A both exist");
        ctx.probe("makeUndirected-rejected-reciprocal"); ctx.fault("reject@k"); ctx.rejected(); return;
      }
      mustReturn("makeUndirected", [&] { g->makeUndirected(); });
      m.directed = false;
      if (!m.edges.empty()) ctx.probe("makeUndirected-with-edges");
      ctx.ok();
    }
  }

  void opCopy(const Op& o) {
    size_t k = actor(o);
    bool crashProbe = o.k == "copyNullEdgeKey";
    if (obs.size() >= MAXOBS) { ctx.outcome("skip"); return; }
    if (o.c & 1) {   // a fresh observer attached to the same graph: a party that knows no object yet
      obs.emplace_back(); MObs& nb = obs.back();
      nb.o.reset(new Obs(g));
      ctx.probe("observer-attached"); ctx.ok(); return;
    }
    if (crashProbe) {   // link without edge object and copy within one step (the link alone is probe 4)
      IdV v = nodesOf(obs[k]); if (v.size() < 2 || related(v[0], v[1])) { ctx.outcome("skip"); return; }
      obs[k].o->link(objN(k, v[0]), objN(k, v[1]));
      noteNewEdge(k, v[0], v[1], Eref(), -1, "link");
    }
    obs.emplace_back(); MObs& src = obs[k]; MObs& nb = obs.back();
    if (o.c & 2) nb.o.reset(src.o->clone()); else nb.o.reset(new Obs(*src.o));
    nb.szN = src.szN; nb.szE = src.szE; nb.nullKey = src.nullKey;
    // the copy owns distinct payload objects with the same relations
    for (auto& kv : src.n2h) {
      Nref mine = nb.o->getNodeFromGraphid(kv.first), theirs = src.N[static_cast<size_t>(kv.second)];
      MM(static_cast<bool>(mine), "obs-copy:node-object-missing", "node " + std::to_string(kv.first));
      MM(mine != theirs, "obs-copy:node-object-shared", "the copy holds the source's node object");
      MM(mine->pid == theirs->pid, "obs-copy:node-object-content", "payload differs");
      nb.N.push_back(mine); int h = static_cast<int>(nb.N.size() - 1); nb.n2h[kv.first] = h;
      auto ix = src.nIdx.find(kv.second); if (ix != src.nIdx.end()) nb.nIdx[h] = ix->second;
    }
    for (auto& kv : src.e2h) {
      Eref mine = nb.o->getEdgeFromGraphid(kv.first), theirs = src.E[static_cast<size_t>(kv.second)];
      MM(static_cast<bool>(mine), "obs-copy:edge-object-missing", "edge " + std::to_string(kv.first));
      MM(mine != theirs, "obs-copy:edge-object-shared", "the copy holds the source's edge object");
      MM(mine->pid == theirs->pid, "obs-copy:edge-object-content", "payload differs");
      nb.E.push_back(mine); int h = static_cast<int>(nb.E.size() - 1); nb.e2h[kv.first] = h;
      auto ix = src.eIdx.find(kv.second); if (ix != src.eIdx.end()) nb.eIdx[h] = ix->second;
    }
    // the source's objects are foreign to the copy (checked by hasNode in the oracle through absent handles of other observers)
    for (auto& kv : src.n2h) MM(!nb.o->hasNode(src.N[static_cast<size_t>(kv.second)]), "obs-copy:node-object-shared", "the copy knows the source's object");
    ctx.probe("observer-copied");
    if (src.nullKey) ctx.probe("copy-after-link-without-edge-object");
    if (!src.nIdx.empty() || !src.eIdx.empty()) ctx.probe("observer-copied-with-indices");
    if (o.c & 4) {   // peer-gone: the source disappears right after the copy was taken
      obs.erase(obs.begin() + static_cast<long>(k));
      ctx.fault("peer-gone");
    }
    ctx.ok();
  }

  void opDestroy(const Op& o) {
    if (obs.size() < 2) { ctx.outcome("skip"); return; }
    obs.erase(obs.begin() + static_cast<long>(actor(o)));
    ctx.fault("peer-gone"); ctx.ok();
  }

  void opIndex(const Op& o) {
    size_t k = actor(o); MObs& ob = obs[k];
    long kind = o.c % 4; Id ix = static_cast<Id>(o.b % 10);
    if (kind < 2) {
      IdV v = nodesOf(ob); if (v.empty()) { ctx.outcome("skip"); return; }
      Id n = v[static_cast<size_t>(o.a) % v.size()]; int h = ob.n2h.at(n); Nref x = ob.N[static_cast<size_t>(h)];
      bool has = ob.nIdx.count(h) > 0;
      if (kind == 0) {
        if (has || ob.idxUsedN(ix)) { mustRaise(has ? "setNodeIndex:object-already-indexed" : "setNodeIndex:index-in-use", [&] { ob.o->setNodeIndex(x, ix); }); ctx.fault("reject@k"); ctx.probe("duplicate-index-rejected"); ctx.rejected(); return; }
        Id r = 0; mustReturn("setNodeIndex", [&] { r = ob.o->setNodeIndex(x, ix); });
        MM(r == ix, "setNodeIndex:returned-index", "returned another index"); ob.nIdx[h] = ix;
      } else {
        if (has) { mustRaise("addNodeIndex:object-already-indexed", [&] { ob.o->addNodeIndex(x); }); ctx.fault("reject@k"); ctx.rejected(); return; }
        Id r = 0; mustReturn("addNodeIndex", [&] { r = ob.o->addNodeIndex(x); });
        MM(!ob.idxUsedN(r), "addNodeIndex:index-in-use", "allocated an index that another live node object holds"); ob.nIdx[h] = r;
      }
    } else {
      if (ob.e2h.empty()) { ctx.outcome("skip"); return; }
      auto it = ob.e2h.begin(); std::advance(it, static_cast<long>(static_cast<size_t>(o.a) % ob.e2h.size()));
      int h = it->second; Eref x = ob.E[static_cast<size_t>(h)];
      bool has = ob.eIdx.count(h) > 0;
      if (kind == 2) {
        if (has || ob.idxUsedE(ix)) { mustRaise(has ? "setEdgeIndex:object-already-indexed" : "setEdgeIndex:index-in-use", [&] { ob.o->setEdgeIndex(x, ix); }); ctx.fault("reject@k"); ctx.probe("duplicate-index-rejected"); if (!has && !ob.idxUsedN(ix)) ctx.probe("edge-index-in-use-node-index-free"); ctx.rejected(); return; }
        Id r = 0; mustReturn("setEdgeIndex", [&] { r = ob.o->setEdgeIndex(x, ix); });
        MM(r == ix, "setEdgeIndex:returned-index", "returned another index"); ob.eIdx[h] = ix;
      } else {
        if (has) { mustRaise("addEdgeIndex:object-already-indexed", [&] { ob.o->addEdgeIndex(x); }); ctx.fault("reject@k"); ctx.rejected(); return; }
        Id r = 0; mustReturn("addEdgeIndex", [&] { r = ob.o->addEdgeIndex(x); });
        MM(!ob.idxUsedE(r), "addEdgeIndex:index-in-use", "allocated an index that another live edge object holds"); ob.eIdx[h] = r;
      }
      ctx.probe("edge-index-set");
    }
    ctx.ok();
  }

  void opRoot(const Op& o) {
    size_t k = actor(o); MObs& ob = obs[k]; Id n = 0;
    if ((o.c & 2) || !pickNode(k, o.a, n)) {
      Nref x = absentN(k, o.b);
      mustRaise("setRoot:absent-node", [&] { ob.o->setRoot(x); });
      ctx.fault("reject@k"); ctx.rejected(); return;
    }
    mustReturn("setRoot", [&] { ob.o->setRoot(objN(k, n)); });
    m.rootKnown = true; m.root = n; ctx.ok();
  }

  void opAssoc(const Op& o) {
    size_t k = actor(o); MObs& ob = obs[k];
    switch (o.c % 5) {
      case 0: {   // dissociate a node object (graph unchanged); only objects without an index: what happens to the index is not documented
        IdV cand; for (auto& kv : ob.n2h) if (!ob.nIdx.count(kv.second)) cand.push_back(kv.first);
        if (cand.empty()) { ctx.outcome("skip"); return; }
        Id n = cand[static_cast<size_t>(o.a) % cand.size()];
        mustReturn("dissociateNode", [&] { ob.o->dissociateNode(objN(k, n)); });
        ob.n2h.erase(n); ctx.probe("node-dissociated"); ctx.ok(); return;
      }
      case 1: {   // associate a new object with a live node
        IdV freeIds, occ; for (Id n : m.nodes) (ob.n2h.count(n) ? occ : freeIds).push_back(n);
        if (o.b & 1) {   // duplicate association: the object already stands for another node
          if (ob.n2h.empty() || freeIds.empty()) { ctx.outcome("skip"); return; }
          Nref x = objN(k, ob.n2h.begin()->first);
          mustRaise("associateNode:duplicate-object", [&] { ob.o->associateNode(x, freeIds[0]); });
          ctx.fault("reject@k"); ctx.rejected(); return;
        }
        IdV occ2; for (Id n : occ) if (!ob.nIdx.count(ob.n2h.at(n))) occ2.push_back(n);   // what happens to the replaced object's index is not documented
        if ((o.b & 2) && !occ2.empty()) {
          Id n = occ2[static_cast<size_t>(o.a) % occ2.size()]; Nref x = freshN(ob);
          tag = "associate on an occupied id"; ctx.probe("associate-occupied-id");
          int r = attempt("associateNode", [&] { ob.o->associateNode(x, n); });
          // either outcome keeps "at most one object per node": a raise leaves the old object, a return replaces it
          if (r == 0) ob.n2h[n] = static_cast<int>(ob.N.size() - 1);
          ctx.outcome("read"); return;
        }
        if (freeIds.empty()) { ctx.outcome("skip"); return; }
        Id n = freeIds[static_cast<size_t>(o.a) % freeIds.size()]; Nref x = freshN(ob);
        mustReturn("associateNode", [&] { ob.o->associateNode(x, n); });
        ob.n2h[n] = static_cast<int>(ob.N.size() - 1); ob.szN = std::max(ob.szN, n + 1);
        ctx.probe("node-associated-later"); ctx.ok(); return;
      }
      case 2: {
        IdV cand; for (auto& kv : ob.e2h) if (!ob.eIdx.count(kv.second)) cand.push_back(kv.first);
        if (cand.empty()) { ctx.outcome("skip"); return; }
        Id e = cand[static_cast<size_t>(o.a) % cand.size()];
        mustReturn("dissociateEdge", [&] { ob.o->dissociateEdge(ob.E[static_cast<size_t>(ob.e2h.at(e))]); });
        ob.e2h.erase(e); ctx.ok(); return;
      }
      default: {  // associateEdge / setEdgeLinking: give an object to a live edge that has none in this observer
        IdV freeIds; for (auto& kv : m.edges) if (!ob.e2h.count(kv.first)) freeIds.push_back(kv.first);
        if (o.b & 1) {
          if (ob.e2h.empty() || freeIds.empty()) { ctx.outcome("skip"); return; }
          Eref x = ob.E[static_cast<size_t>(ob.e2h.begin()->second)];
          mustRaise("associateEdge:duplicate-object", [&] { ob.o->associateEdge(x, freeIds[0]); });
          ctx.fault("reject@k"); ctx.rejected(); return;
        }
        if (freeIds.empty()) { ctx.outcome("skip"); return; }
        Id e = freeIds[static_cast<size_t>(o.a) % freeIds.size()]; const MEdge& me = m.edges.at(e);
        Eref x = freshE(ob);
        if (o.c % 5 == 4 && ob.n2h.count(me.a) && ob.n2h.count(me.b) && !hasParallel()) {
          Id a = me.a, b = me.b;
          mustReturn("setEdgeLinking", [&] { ob.o->setEdgeLinking(objN(k, a), objN(k, b), x); });
        } else mustReturn("associateEdge", [&] { ob.o->associateEdge(x, e); });
        ob.e2h[e] = static_cast<int>(ob.E.size() - 1); ob.szE = std::max(ob.szE, e + 1);
        ctx.probe("edge-associated-later"); ctx.ok(); return;
      }
    }
  }

  // queries with absent arguments: must raise bpp::Exception
  void opQueryAbsent(const Op& o) {
    size_t k = actor(o); MObs& ob = obs[k]; Obs& O = *ob.o;
    Nref an = absentN(k, o.b); Eref ae = absentE(k, o.b);
    IdV v = nodesOf(ob);
    Id badN = 0; for (Id n : m.nodes) badN = std::max(badN, n + 1); badN += static_cast<Id>(o.a % 3);
    Id badE = 0; for (auto& kv : m.edges) badE = std::max(badE, kv.first + 1); badE += static_cast<Id>(o.a % 3);
    switch (o.c) {
      case 0: mustRaise("getNodeGraphid:absent-object", [&] { O.getNodeGraphid(an); }); break;
      case 1: mustRaise("getEdgeGraphid:absent-object", [&] { O.getEdgeGraphid(ae); }); break;
      case 2: mustRaise("getNodeIndex:absent-object", [&] { O.getNodeIndex(an); }); break;
      case 3: mustRaise("getEdgeIndex:absent-object", [&] { O.getEdgeIndex(ae); }); break;
      case 4: mustRaise("getDegree:absent-object", [&] { O.getDegree(an); }); mustRaise("isLeaf:absent-object", [&] { O.isLeaf(an); }); break;
      case 5: mustRaise("getNeighbors:absent-object", [&] { O.getNeighbors(an); }); mustRaise("getOutgoingNeighbors:absent-object", [&] { O.getOutgoingNeighbors(an); }); mustRaise("getIncomingNeighbors:absent-object", [&] { O.getIncomingNeighbors(an); }); break;
      case 6: mustRaise("getEdges:absent-object", [&] { O.getEdges(an); }); mustRaise("getOutgoingEdges:absent-object", [&] { O.getOutgoingEdges(an); }); mustRaise("getIncomingEdges:absent-object", [&] { O.getIncomingEdges(an); }); break;
      case 7: mustRaise("getNodes:absent-edge-object", [&] { O.getNodes(ae); }); break;
      case 8: if (!v.empty()) { Nref x = objN(k, v[static_cast<size_t>(o.a) % v.size()]); mustRaise("getEdgeLinking:absent-object", [&] { O.getEdgeLinking(an, x); }); mustRaise("getEdgeLinking:absent-object", [&] { O.getEdgeLinking(x, an); }); } break;
      case 9: mustRaise("obs-iterator:absent-object", [&] { O.outgoingNeighborNodesIterator(an); }); mustRaise("obs-iterator:absent-object", [&] { O.incomingNeighborNodesIterator(an); });
              mustRaise("obs-iterator:absent-object", [&] { O.outgoingEdgesIterator(an); }); mustRaise("obs-iterator:absent-object", [&] { O.incomingEdgesIterator(an); }); break;
      case 10: mustRaise("graph-getDegree:absent-node", [&] { g->getDegree(badN); }); mustRaise("graph-isLeaf:absent-node", [&] { g->isLeaf(badN); }); mustRaise("graph-getNumberOfNeighbors:absent-node", [&] { g->getNumberOfNeighbors(badN); });
               mustRaise("graph-getNumberOfOutgoingNeighbors:absent-node", [&] { g->getNumberOfOutgoingNeighbors(badN); }); mustRaise("graph-getNumberOfIncomingNeighbors:absent-node", [&] { g->getNumberOfIncomingNeighbors(badN); }); break;
      case 11: mustRaise("graph-getNeighbors:absent-node", [&] { g->getNeighbors(badN); }); mustRaise("graph-getOutgoingNeighbors:absent-node", [&] { g->getOutgoingNeighbors(badN); }); mustRaise("graph-getIncomingNeighbors:absent-node", [&] { g->getIncomingNeighbors(badN); });
               mustRaise("graph-getEdges:absent-node", [&] { g->getEdges(badN); }); mustRaise("graph-getOutgoingEdges:absent-node", [&] { g->getOutgoingEdges(badN); }); mustRaise("graph-getIncomingEdges:absent-node", [&] { g->getIncomingEdges(badN); }); break;
      case 12: mustRaise("graph-getNodes:absent-edge", [&] { g->getNodes(badE); }); mustRaise("graph-getTop:absent-edge", [&] { g->getTop(badE); }); mustRaise("graph-getBottom:absent-edge", [&] { g->getBottom(badE); });
               if (!m.nodes.empty()) { Id n = *m.nodes.begin(); mustRaise("graph-getEdge:absent-node", [&] { g->getEdge(n, badN); }); mustRaise("graph-getEdge:absent-node", [&] { g->getEdge(badN, n); }); mustRaise("graph-getAnyEdge:absent-node", [&] { g->getAnyEdge(badN, n); }); } break;
      case 13: { Id ix = 0; while (ob.idxUsedN(ix)) ++ix; ix += static_cast<Id>(o.a % 2) * 40; tag = "unused index"; ctx.probe("absent-index-lookup"); mustRaise("getNode-index:absent-index", [&] { O.getNode(static_cast<Obs::NodeIndex>(ix)); }); break; }
      case 14: { Id ix = 0; while (ob.idxUsedE(ix)) ++ix; ix += static_cast<Id>(o.a % 2) * 40; tag = "unused index"; ctx.probe("absent-index-lookup"); mustRaise("getEdge-index:absent-index", [&] { O.getEdge(static_cast<Obs::EdgeIndex>(ix)); }); break; }
      case 15: tag = "graph iterator on an absent node"; ctx.probe("graph-iterator-absent-node");
               switch (o.a % 4) { case 0: mustRaise("graph-iterator:absent-node", [&] { g->outgoingNeighborNodesIterator(badN); }); break; case 1: mustRaise("graph-iterator:absent-node", [&] { g->incomingNeighborNodesIterator(badN); }); break;
                 case 2: mustRaise("graph-iterator:absent-node", [&] { g->outgoingEdgesIterator(badN); }); break; default: mustRaise("graph-iterator:absent-node", [&] { g->incomingEdgesIterator(badN); }); } break;
      case 16: { tag = "associate with an absent graph id"; ctx.probe("associate-absent-id"); Nref x = Nref(new SimNode(nextPid++)); Eref y = Eref(new SimEdge(nextPid++));
                 if (o.a % 2 == 0) mustRaise("associateNode:absent-graph-id", [&] { O.associateNode(x, badN); }); else mustRaise("associateEdge:absent-graph-id", [&] { O.associateEdge(y, badE); }); break; }
      case 17: mustRaise("graph-setRoot-absent", [&] { O.setRoot(an); }); break;
      case 18: ctx.probe("dissociate-unknown-object"); mustRaise("dissociateNode:absent-object", [&] { O.dissociateNode(an); }); break;
      case 19: ctx.probe("dissociate-unknown-object"); mustRaise("dissociateEdge:absent-object", [&] { O.dissociateEdge(ae); }); break;
      default: ctx.outcome("skip"); return;
    }
    ctx.fault("reject@k"); ctx.probe("absent-argument-query-raised");
    ctx.outcome("read");
  }

  // read-only queries with present arguments that are too slow or too raise-prone for the per-step oracle
  void opQueryDeep(const Op& o) {
    size_t k = actor(o); MObs& ob = obs[k]; Obs& O = *ob.o;
    buildLookup(ob);
    IdV all(m.nodes.begin(), m.nodes.end());
    if (all.empty()) { ctx.outcome("skip"); return; }
    Id a = all[static_cast<size_t>(o.a) % all.size()], b = all[static_cast<size_t>(o.b) % all.size()];
    if (!hasParallel()) {
      // getEdge(a,b): the edge a -> b (either stored direction when undirected) or bpp::Exception
      Id want = 0; bool have = false, haveRev = false; Id wantRev = 0;
      for (auto& kv : m.edges) { bool fwd = kv.second.a == a && kv.second.b == b, rev = kv.second.a == b && kv.second.b == a; if (fwd || (!m.directed && rev)) { want = kv.first; have = true; } if (rev || (!m.directed && fwd)) { wantRev = kv.first; haveRev = true; } }
      Id got = 0; int r = attempt("graph-getEdge", [&] { got = g->getEdge(a, b); });
      MM((r == 0) == have, "graph-getEdge", std::string(have ? "present relation raised" : "absent relation returned an edge"));
      if (have) MM(got == want, "graph-getEdge", "returned edge " + std::to_string(got) + ", reference " + std::to_string(want));
      r = attempt("graph-getAnyEdge", [&] { got = g->getAnyEdge(a, b); });
      MM((r == 0) == (have || haveRev), "graph-getAnyEdge", std::string((have || haveRev) ? "present relation raised" : "absent relation returned an edge"));
      if (r == 0) MM(got == (have ? want : wantRev), "graph-getAnyEdge", "returned edge " + std::to_string(got));
      if (!have && haveRev && m.directed) ctx.probe("getAnyEdge-found-reverse-direction");
      if (!have) ctx.fault("reject@k");
      // the same through the observer: the linking object, or (absent relation) bpp::Exception or a null object — both are documented
      if (ob.n2h.count(a) && ob.n2h.count(b)) {
        Eref ge; r = attempt("obs-getEdgeLinking", [&] { ge = O.getEdgeLinking(objN(k, a), objN(k, b)); });
        if (have) { int he = ob.hOfEdge(want); MM(r == 0 && ge == (he >= 0 ? ob.E[static_cast<size_t>(he)] : Eref()), "obs-getEdgeLinking", "present relation"); }
        else MM(r == 1 || !ge, "obs-getEdgeLinking", "absent relation returned an edge object");
      }
    }
    // leaves / inner nodes through the observer: defined objects only
    bool beyond = false; for (Id n : m.nodes) if (n >= ob.szN) beyond = true;
    {
      std::string save = tag; if (beyond) { tag = "graph holds ids beyond the observer's table"; ctx.probe("leaves-beyond-table"); }
      std::vector<Nref> lv; mustReturn("obs-getAllLeaves", [&] { lv = O.getAllLeaves(); });
      IdV gl = g->getAllLeaves(); MM(uniq(nodeIds(ob, lv, "obs-getAllLeaves")) == uniq(known(ob, gl, false)), "obs-getAllLeaves", "differs from the graph's leaves restricted to associated nodes");
      std::vector<Nref> inn; mustReturn("obs-getAllInnerNodes", [&] { inn = O.getAllInnerNodes(); });
      IdV gi = g->getAllInnerNodes(); MM(uniq(nodeIds(ob, inn, "obs-getAllInnerNodes")) == uniq(known(ob, gi, false)), "obs-getAllInnerNodes", "differs from the graph's inner nodes restricted to associated nodes");
      size_t nl = 0; for (auto& kv : ob.n2h) if (g->isLeaf(kv.first)) ++nl;
      MM(O.getNumberOfLeaves() == nl, "obs-getNumberOfLeaves", "differs from the number of associated nodes that are leaves");
      tag = save;
    }
    // index-based views when every associated node carries an index
    bool allIdx = !ob.n2h.empty(); for (auto& kv : ob.n2h) if (!ob.nIdx.count(kv.second)) allIdx = false;
    if (allIdx) {
      std::vector<Obs::NodeIndex> ai; mustReturn("obs-getAllNodesIndexes", [&] { ai = O.getAllNodesIndexes(); });
      IdV want; for (auto& kv : ob.nIdx) if (true) want.push_back(kv.second);
      IdV live; for (auto& kv : ob.n2h) live.push_back(ob.nIdx.at(kv.second));
      MM(uniq(IdV(ai.begin(), ai.end())) == uniq(live), "obs-getAllNodesIndexes", "differs from the indices of the associated nodes");
      ctx.probe("index-view-queried");
    }
    ctx.outcome("read");
  }

  // crash-class probes of known defects: only hand-written probe plans contain these op kinds
  void opCrashProbe(const Op& o) {
    size_t k = actor(o); MObs& ob = obs[k];
    if (o.k == "dissociateAbsentNode") { Nref x(new SimNode(nextPid++)); mustRaise("dissociateNode:absent-object", [&] { ob.o->dissociateNode(x); }); }
    else if (o.k == "dissociateAbsentEdge") { Eref x(new SimEdge(nextPid++)); mustRaise("dissociateEdge:absent-object", [&] { ob.o->dissociateEdge(x); }); }
    ctx.outcome("read");
  }

  void step(const Op& o) {
    if (p.geti("strict") == 2) {   // longest enumerated histories: a slot beyond the live count is a skip (absent slots are covered by the shorter ones)
      size_t n = obs[actor(o)].n2h.size();
      bool two = o.k == "ln" || o.k == "ul", one = o.k == "cf" || o.k == "dn";
      if ((one || two) && static_cast<size_t>(o.a) >= n) { ctx.outcome("skip"); return; }
      if (two && static_cast<size_t>(o.b) >= n) { ctx.outcome("skip"); return; }
    }
    if (o.k == "cn") opCreate(o);
    else if (o.k == "cf") opCreateFrom(o);
    else if (o.k == "gn" || o.k == "ge" || o.k == "gf") opGraphCreate(o);
    else if (o.k == "ln") opLink(o);
    else if (o.k == "ul") opUnlink(o);
    else if (o.k == "dn") opDelete(o);
    else if (o.k == "md" || o.k == "mu") opDirection(o);
    else if (o.k == "cp" || o.k == "copyNullEdgeKey") opCopy(o);
    else if (o.k == "ds") opDestroy(o);
    else if (o.k == "ix") opIndex(o);
    else if (o.k == "rt") opRoot(o);
    else if (o.k == "as") opAssoc(o);
    else if (o.k == "qa") opQueryAbsent(o);
    else if (o.k == "qd") opQueryDeep(o);
    else if (o.k == "dissociateAbsentNode" || o.k == "dissociateAbsentEdge") opCrashProbe(o);
    else ctx.fail("harness", "harness:unknown-op", o.k);
  }

  void run() {
    g_arena.reset(static_cast<uint64_t>(p.geti("perm")));
    if (p.geti("perm") != 0) ctx.fault("addr-perm");
    strict = p.geti("strict") != 0; asc = p.geti("asc") != 0;
    m.directed = p.geti("directed", 1) != 0;
    obs.emplace_back();
    obs[0].o.reset(new Obs(m.directed));
    g = obs[0].o->getGraph();
    for (size_t i = 0; i < p.ops.size(); ++i) {
      const Op& o = p.ops[i];
      step_ = static_cast<long>(i);
      ctx.beginStep(step_, o);
      tag.clear();
      acting_ = actor(o);
      try { step(o); if (acting_ >= obs.size()) acting_ = 0; oracle(); }
      catch (SimViolation&) { throw; }
      catch (bpp::Exception& ex) { fail("foreign-exception", "obs-or-graph-query:bpp-unexpected", ex.what()); }
      catch (std::exception& ex) { fail("foreign-exception", "obs-or-graph-query:std", ex.what()); }
    }
    if (g_arena.fallback) ctx.probe("arena-exhausted");
  }
};

// ------------------------------------------------------------------ plans
Op mk(const char* k, long a = 0, long b = 0, long c = 0, long d = 0) { return Op(k, a, b, c, d); }

// hand-written regression plans: the minimal trigger of each defect this harness found (all repaired in the library);
// they run first in every check, through the same executor, and are kept as replay files under known/fixed/.
const long NPROBES = 18;
Plan probePlan(long i) {
  Plan p; p.cfg["directed"] = 1; p.cfg["perm"] = 0; p.cfg["strict"] = 0; p.cfg["asc"] = 0; p.cfg["probe"] = 1 + i;
  auto& o = p.ops;
  switch (i) {
    case 0: o = {mk("cn"), mk("cn"), mk("ln", 0, 1), mk("ln", 0, 1, 32)}; break;                        // link on an already related pair
    case 1: p.cfg["directed"] = 0; o = {mk("cn"), mk("cf", 0), mk("ul", 0, 0)}; break;                   // undirected unlink
    case 2: p.cfg["directed"] = 0; o = {mk("cn"), mk("cf", 0), mk("dn", 0)}; break;                      // undirected deletion of a linked node
    case 3: o = {mk("cn"), mk("cn"), mk("ln", 1, 0), mk("mu"), mk("md")}; break;                         // makeDirected re-orients an edge
    case 4: o = {mk("cn"), mk("cn"), mk("ln", 0, 1, 1)}; break;                                          // link without edge object
    case 5: o = {mk("cn"), mk("cn"), mk("copyNullEdgeKey")}; break;                                      // ... then copy the observer
    case 6: o = {mk("cn"), mk("ix", 0, 0, 1), mk("dn", 0)}; break;                                       // delete an indexed node
    case 7: o = {mk("cn"), mk("cp"), mk("dn", 0)}; break;                                                // delete a node another observer knows
    case 8: o = {mk("cn"), mk("cf", 0), mk("ix", 0, 0, 3), mk("ul", 0, 0)}; break;                       // unlink an indexed edge
    case 9: o = {mk("cn"), mk("qa", 0, 0, 13)}; break;                                                   // getNode(unused index)
    case 10: o = {mk("cn"), mk("qa", 1, 0, 14)}; break;                                                  // getEdge(unused index)
    case 11: o = {mk("cn"), mk("cp"), mk("cf", 0, 0, 0, 0)}; break;                                      // neighbour id == the copy's table size
    case 12: o = {mk("cn"), mk("qa", 0, 0, 15)}; break;                                                  // graph iterator on an absent node
    case 13: o = {mk("cn"), mk("qa", 0, 0, 16)}; break;                                                  // associate with an absent graph id
    case 14: o = {mk("cn"), mk("cp"), mk("cn", 0, 0, 0, 0), mk("qd", 0, 0, 0, 1)}; break;                // leaves while the graph holds unseen nodes
    case 15: o = {mk("cn"), mk("as", 0, 2, 1)}; break;                                                   // associate on an occupied id
    case 16: o = {mk("cn"), mk("dissociateAbsentNode")}; break;
    default: o = {mk("cn"), mk("cf", 0), mk("dissociateAbsentEdge")}; break;
  }
  return p;
}

// reduced alphabet of the systematic prefix: 3 node slots named directly (a slot beyond the live count is an absent object)
std::vector<Op> enumAlphabet() {
  std::vector<Op> a;
  a.push_back(mk("cn"));
  for (long i = 0; i < 3; ++i) a.push_back(mk("cf", i));
  for (long i = 0; i < 3; ++i) for (long j = 0; j < 3; ++j) if (i != j) a.push_back(mk("ln", i, j));
  for (long i = 0; i < 3; ++i) for (long j = 0; j < 3; ++j) if (i != j) a.push_back(mk("ul", i, j));
  for (long i = 0; i < 3; ++i) a.push_back(mk("dn", i));
  a.push_back(mk("md")); a.push_back(mk("mu")); a.push_back(mk("cp"));
  a.push_back(mk("ix", 0, 0, 1)); a.push_back(mk("ix", 0, 0, 3));
  return a;
}

class C14 : public Harness {
  std::vector<Op> alpha_;
public:
  C14() : alpha_(enumAlphabet()) {}
  const char* id() const override { return "C14"; }
  HarnessInfo info() const override {
    HarnessInfo i;
    i.real = {"bpp::GlobalGraph", "bpp::AssociationGraphImplObserver<SimNode,SimEdge,GlobalGraph> (constructors from bool and from a graph, copy constructor, clone, destructor)", "GlobalGraph node/edge iterator classes (const and non-const)", "observer NodeIteratorClass / EdgeIteratorClass (const and non-const)", "bpp::Exception"};
    i.stub = {"SimNode / SimEdge payload classes (integer identity; class-level operator new drawing slots of a static arena in a permutation taken from the plan, so the library's own copies are covered)"};
    i.rule = "plans: seeded histories of <=40 operations over <=8 nodes, <=20 edges and 1..3 observers of one graph (directed or undirected start, direction changes, with/without edge objects, indices set or allocated, absent arguments), preceded by an enumerated prefix of all histories up to length 4 (quick) / 5 (thorough) over a 24-letter alphabet on 3 node slots for both start directions and by 18 hand-written regression plans (minimal triggers of the defects this harness found, all repaired); non-trivial = >=3 accepted state-changing steps and >=1 edge present at some point; distinct = distinct fingerprint of the executed op-kind/outcome sequence";
    i.simTime = "steps (no clock exists in this component)";
    i.faultKinds = {"reject@k", "peer-gone", "addr-perm"};
    i.probeNames = {"graph-level-node-from-node", "graph-level-node-on-edge", "graph-level-node-from-edge", "graph-level-split-of-an-associated-edge", "two-or-more-observers", "undirected-with-edges", "observer-copied", "observer-copied-with-indices", "observer-attached", "compound-create-left-unlinked-node", "reciprocal-link", "self-loop",
                    "makeUndirected-rejected-reciprocal", "makeUndirected-with-edges", "makeDirected-with-edges", "unlink-notifies-other-observer", "unlink-reversed-direction-rejected", "delete-linked-node", "delete-node-with-incoming-edge",
                    "duplicate-index-rejected", "edge-index-set", "edge-index-in-use-node-index-free", "node-dissociated", "node-associated-later", "edge-associated-later", "absent-argument-query-raised", "absent-arg-forgotten-object", "absent-arg-foreign-object",
                    "getAnyEdge-found-reverse-direction", "leaf-with-reciprocal-neighbour", "index-view-queried",
                    // boundaries where this harness found (now repaired) defects: each must keep being reached
                    "link-already-related-rejected", "link-without-edge-object", "copy-after-link-without-edge-object", "undirected-unlink", "unlink-indexed-edge", "delete-linked-node-undirected",
                    "delete-node-with-indexed-edge", "delete-indexed-node", "delete-node-known-to-another-observer", "makeDirected-reorients-edge", "list-id-equals-table-size", "leaves-beyond-table",
                    "absent-index-lookup", "graph-iterator-absent-node", "associate-absent-id", "associate-occupied-id", "dissociate-unknown-object"};
    i.assumptions = {"order and multiplicity of every returned list are not asserted (lists are compared as sets; cardinalities through the count queries)",
                     "getDegree / getNumberOfNeighbors are only bounded between the number of distinct neighbours and the number of edge ends (the documentation does not say whether a reciprocal neighbour counts twice); degree, neighbour count and isLeaf are not asserted for nodes carrying a self-loop",
                     "getAllLeaves is asserted only where both documented definitions agree; getAllInnerNodes only lists live nodes; getLeavesFromNode, isTree, isDA, orientate, outputToDot are not exercised",
                     "end points reported for an edge of an undirected graph are compared as an unordered pair; after makeDirected the reference takes each edge's direction from the node that lists it as outgoing (documented as arbitrary)",
                     "a compound createNode(origin, new, edge) that raises may leave the new node created and unlinked (no atomicity is documented): the reference re-synchronises from hasNode",
                     "getEdgeLinking on two associated nodes without a relation may raise bpp::Exception or return a null object (both are documented)",
                     "graph ids and allocated indices are the library's choice: the reference adopts the returned value and only requires it to be unused",
                     "node objects are never null; setNodeIndex/setEdgeIndex are only applied to associated objects; only objects without an index are dissociated; the root is only read while the node last given to setRoot is alive; observer operator= is not exercised (only copy construction / clone)",
                     "observers are allocated by the default allocator: their address order only decides the order of notifications, which no query can observe",
                     "a link between two nodes that are already related in that direction (either direction when undirected) must be rejected: the graph stores one edge per ordered pair, so the reference never holds parallel edges",
                     "associateNode on an id that already has an object may raise or replace the object (at most one object per node is asserted either way); only ids whose object carries no index are used"};
    return i;
  }
  long defaultRuns(Tier t) const override { return t == QUICK ? 40000 : 1500000; }
  bool nontrivial(const Ctx& c) const override { return c.okSteps >= 3 && c.custom >= 1; }

  long pw(long n) const { long r = 1, A = static_cast<long>(alpha_.size()); for (long i = 0; i < n; ++i) r *= A; return r; }
  long perDir(Tier t) const { long L = t == QUICK ? 4 : 5, s = 0; for (long l = 1; l <= L; ++l) s += pw(l); return s; }
  long enumCount(Tier t) const override { return NPROBES + 2 * perDir(t); }
  Plan enumPlan(long idx, Tier t) const override {
    if (idx < NPROBES) return probePlan(idx);
    idx -= NPROBES;
    long per = perDir(t), dir = idx / per, r = idx % per, len = 1;
    while (r >= pw(len)) { r -= pw(len); ++len; }
    Plan p; p.cfg["directed"] = dir == 0 ? 1 : 0; p.cfg["perm"] = 0; p.cfg["strict"] = len <= 3 ? 1 : 2; p.cfg["asc"] = 0; p.cfg["enumerated"] = 1;
    long A = static_cast<long>(alpha_.size());
    for (long l = 0; l < len; ++l) { p.ops.push_back(alpha_[static_cast<size_t>(r % A)]); r /= A; }
    return p;
  }

  Plan generate(Rng& rng, Tier) const override {
    Plan p;
    p.cfg["directed"] = rng.chance(0.6) ? 1 : 0;
    p.cfg["perm"] = rng.chance(0.85) ? 1 + rng.below(1000000) : 0;
    p.cfg["strict"] = 0;
    p.cfg["asc"] = rng.chance(0.4) ? 1 : 0;
    bool faultsOff = rng.chance(0.2);
    long n = rng.chance(0.7) ? rng.range(4, 20) : rng.range(20, 40);
    static const char* K[] = {"cn", "cf", "ln", "ul", "dn", "md", "mu", "cp", "ds", "ix", "rt", "as", "qa", "qd", "gn", "ge", "gf"};
    std::vector<double> w = {3, 5, 6, 3, 2.5, 0.7, 0.7, 1.0, 0.4, 2.5, 0.5, 1.2, 1.0, 1.5, 0.5, 0.5, 0.3};
    for (auto& x : w) if (rng.chance(0.25)) x *= rng.chance(0.5) ? 0 : 3;       // swarm
    w[0] = std::max(w[0], 1.0); w[1] = std::max(w[1], 1.0);
    if (faultsOff) w[12] = 0;
    double pAbs = faultsOff ? 0 : rng.pick(std::vector<double>{0.0, 0.04, 0.1});
    for (long i = 0; i < n; ++i) {
      size_t k = i == 0 ? 0 : rng.weighted(w);
      Op o(K[k]); std::string kk = K[k];
      o.a = rng.below(8); o.b = rng.below(8); o.c = 0; o.d = rng.below(3);
      if (kk == "gn" || kk == "ge" || kk == "gf") o.c = rng.chance(pAbs) ? 2 : 0;
      else if (kk == "cn") o.c = rng.chance(pAbs) ? 1 : 0;
      else if (kk == "cf") o.c = (rng.chance(0.3) ? 1 : 0) | (rng.chance(pAbs) ? 2 : 0) | (rng.chance(pAbs) ? 4 : 0);
      else if (kk == "ln") o.c = (rng.chance(0.3) ? 1 : 0) | (rng.chance(pAbs / 2) ? 2 : 0) | (rng.chance(pAbs / 2) ? 4 : 0) | (rng.chance(0.06) ? 8 : 0) | (rng.chance(pAbs) ? 16 : 0) | ((!faultsOff && rng.chance(0.08)) ? 32 : 0);
      else if (kk == "ul") o.c = (rng.chance(pAbs) ? 2 : 0) | (rng.chance(pAbs * 2) ? 4 : 0) | (rng.chance(0.5) ? 8 : 0);
      else if (kk == "dn") { o.c = (rng.chance(pAbs) ? 2 : 0) | (rng.chance(0.15) ? 32 : 0); if ((o.c & 32) && rng.chance(pAbs)) o.c |= 64; }
      else if (kk == "cp") o.c = (rng.chance(0.15) ? 1 : 0) | (rng.chance(0.3) ? 2 : 0) | (rng.chance(0.15) ? 4 : 0);
      else if (kk == "ix") { o.b = rng.below(10); o.c = rng.below(4); }
      else if (kk == "rt") o.c = rng.chance(pAbs * 2) ? 2 : 0;
      else if (kk == "as") { o.c = rng.below(5); o.b = (rng.chance(pAbs * 2) ? 1 : 0) | (rng.chance(0.3) ? 2 : 0); }
      else if (kk == "qa") {
        static const std::vector<long> subs = {0, 1, 2, 3, 4, 5, 6, 7, 8, 9, 10, 11, 12, 13, 14, 15, 16, 17, 18, 19};
        o.c = rng.pick(subs); o.b = rng.below(3);
        if ((o.c == 18 || o.c == 19) && rng.chance(0.85)) o.c = rng.below(18);   // kept infrequent: a regression there is a memory error that kills the worker each time
      }
      p.ops.push_back(o);
    }
    return p;
  }

  void execute(const Plan& p, Ctx& ctx) const override {
    Exec e(p, ctx);
    try { e.run(); }
    catch (SimViolation&) { throw; }
    catch (bpp::Exception& ex) { ctx.fail("foreign-exception:bpp-unexpected", "foreign-exception:bpp-unexpected", ex.what()); }
    catch (std::exception& ex) { ctx.fail("foreign-exception:std", "foreign-exception:std", ex.what()); }
  }
};

Registrar reg(new C14());

}  // namespace
