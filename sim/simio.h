// Simulated stream layer: the harness-owned std::streambuf behind every stream the library writes to or reads from.
#ifndef DSIM_SIMIO_H
#define DSIM_SIMIO_H
#include <streambuf>
#include <string>
#include <cstdint>

namespace dsim {

// Output side: records bytes; after `failAfter` bytes every further byte is refused (as a full disk would),
// which puts the owning ostream into the failed state.
class SimOutBuf : public std::streambuf {
public:
  std::string data;
  long failAfter = -1;      // -1: never fail
  long refused = 0;
  SimOutBuf() {}
protected:
  int_type overflow(int_type ch) override {
    if (ch == traits_type::eof()) return traits_type::not_eof(ch);
    if (failAfter >= 0 && static_cast<long>(data.size()) >= failAfter) { ++refused; return traits_type::eof(); }
    data.push_back(static_cast<char>(ch));
    return ch;
  }
  std::streamsize xsputn(const char* s, std::streamsize n) override {
    std::streamsize w = 0;
    for (; w < n; ++w) if (overflow(traits_type::to_int_type(s[w])) == traits_type::eof()) break;
    return w;
  }
};

// Input side: serves `content` in chunks whose sizes come from a small deterministic generator seeded by
// the plan (1..maxChunk bytes per underflow), EOF exactly at the end.
class SimInBuf : public std::streambuf {
  std::string content_;
  size_t pos_ = 0;
  uint64_t s_;
  long maxChunk_;
public:
  long underflows = 0;
  SimInBuf(const std::string& content, uint64_t chunkSeed, long maxChunk) : content_(content), s_(chunkSeed * 2 + 1), maxChunk_(maxChunk < 1 ? 1 : maxChunk) {}
protected:
  int_type underflow() override {
    if (gptr() < egptr()) return traits_type::to_int_type(*gptr());
    if (pos_ >= content_.size()) return traits_type::eof();
    ++underflows;
    s_ = s_ * 6364136223846793005ULL + 1442695040888963407ULL;
    size_t n = 1 + static_cast<size_t>((s_ >> 33) % static_cast<uint64_t>(maxChunk_));
    if (n > content_.size() - pos_) n = content_.size() - pos_;
    char* b = &content_[pos_];
    setg(b, b, b + n);
    pos_ += n;
    return traits_type::to_int_type(*gptr());
  }
};

}  // namespace dsim
#endif
