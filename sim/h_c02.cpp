// C02 — bulk parameter updates are atomic; names stay unique; copies are independent.
// World (real code): ParameterList, AbstractParametrizable (through SimOwner2, which records every
// fireParameterChanged argument), Parameter, IntervalConstraint.
// Model: a cell store (name, value, constraint-or-none) and, per live list handle, a vector of cell ids.
// shareSubList / shareParameter(s) alias cells; copy / createSubList / add / include allocate fresh cells.
#include "engine.h"
#include <Bpp/Numeric/Parameter.h>
#include <Bpp/Numeric/ParameterList.h>
#include <Bpp/Numeric/AbstractParametrizable.h>
#include <Bpp/Numeric/ParameterExceptions.h>
#include <Bpp/Exceptions.h>
#include <algorithm>
#include <limits>
#include <memory>

using namespace dsim;

namespace {

const double INF = std::numeric_limits<double>::infinity();

struct MInt {
  double lo, hi; bool il, ih;
  bool accepts(double x) const { return (il ? x >= lo : x > lo) && (ih ? x <= hi : x < hi); }
};
// fixed constraint pool; every interval has alphabet values inside and outside
const MInt POOL[] = {{0, 1, true, true}, {0, INF, false, false}, {-1, 2, true, false}, {-INF, 0, false, true}, {0.5, 3, true, true}};
const int NPOOL = 5;
const double ALPHA[] = {-2, -1, -0.5, 0, 0.25, 0.5, 1, 1.5, 2, 3};
const int NALPHA = 10;
const char* NAMES[] = {"a", "b", "c", "d", "e", "f", "ab", "a.b", "A", "g"};
const int NNAMES = 10;
const size_t MAXH = 6, MAXLEN = 8, MAXCELLS = 700;

struct Fire { std::vector<std::string> names; std::vector<double> values; };

class SimOwner2 : public bpp::AbstractParametrizable {
public:
  std::vector<Fire> fires;
  SimOwner2() : bpp::AbstractParametrizable("") {}
  SimOwner2* clone() const override { return new SimOwner2(*this); }
  void fireParameterChanged(const bpp::ParameterList& pl) override {
    Fire f;
    for (size_t i = 0; i < pl.size(); ++i) { f.names.push_back(pl[i].getName()); f.values.push_back(pl[i].getValue()); }
    fires.push_back(f);
  }
  bpp::ParameterList& plist() { return getParameters_(); }
  void add(bpp::Parameter* p) { addParameter_(p); }
  void addMany(const bpp::ParameterList& pl) { addParameters_(pl); }
  void share(const std::shared_ptr<bpp::Parameter>& p) { shareParameter_(p); }
  void shareMany(const bpp::ParameterList& pl) { shareParameters_(pl); }
  void includeMany(const bpp::ParameterList& pl) { includeParameters_(pl); }
  void delIndex(size_t i) { deleteParameter_(i); }
  void delName(std::string n) { deleteParameter_(n); }
  void delNames(const std::vector<std::string>& n) { deleteParameters_(n); }
  void resetAll() { resetParameters_(); }
};

struct Cell { std::shared_ptr<bpp::Parameter> obj; std::string name; double v = 0; int c = -1; int origin = -1; };

struct Handle {
  std::unique_ptr<bpp::ParameterList> list;
  std::unique_ptr<SimOwner2> owner;
  std::vector<int> ent;
  bpp::ParameterList& L() { return owner ? owner->plist() : *list; }
};

// outcome classes of a library call
enum Out { RET = 0, CONSTRAINT = 1, NOTFOUND = 2, PARAMEXC = 3, INDEXOOB = 4, OTHERBPP = 5 };
const char* OUTN[] = {"returns", "ConstraintException", "ParameterNotFoundException", "ParameterException", "IndexOutOfBoundsException", "bpp::Exception"};

class Exec {
  const Plan& p; Ctx& ctx;
  std::vector<std::shared_ptr<bpp::IntervalConstraint>> pool;
  std::vector<Cell> cells;
  std::map<const bpp::Parameter*, int> byPtr;      // lookups only, never iterated
  std::vector<Handle> hs;
  std::string opk;                                   // current op kind, qualifies generic signatures
public:
  Exec(const Plan& pl, Ctx& c) : p(pl), ctx(c) {
    for (int i = 0; i < NPOOL; ++i) pool.emplace_back(new bpp::IntervalConstraint(POOL[i].lo, POOL[i].hi, POOL[i].il, POOL[i].ih));
    hs.emplace_back(); hs.back().owner.reset(new SimOwner2());
    hs.emplace_back(); hs.back().list.reset(new bpp::ParameterList());
  }

  // ------------------------------------------------------------------ helpers
  static bool accepts(int c, double x) { return c < 0 || POOL[c].accepts(x); }
  std::shared_ptr<bpp::ConstraintInterface> cobj(int c) const { return c < 0 ? std::shared_ptr<bpp::ConstraintInterface>() : std::shared_ptr<bpp::ConstraintInterface>(pool[static_cast<size_t>(c)]); }
  int poolIndexOf(const bpp::Parameter& q) {
    if (!q.hasConstraint()) return -1;
    const bpp::ConstraintInterface* have = q.getConstraint().get();
    for (int i = 0; i < NPOOL; ++i) if (pool[static_cast<size_t>(i)].get() == have) return i;
    ctx.fail("model-mismatch:constraint-identity", "model-mismatch:constraint-identity:" + opk, "parameter " + q.getName() + " carries a constraint object that no source parameter carried");
  }
  int findName(const std::vector<int>& ent, const std::string& n) const {
    for (size_t i = 0; i < ent.size(); ++i) if (cells[static_cast<size_t>(ent[i])].name == n) return static_cast<int>(i);
    return -1;
  }
  int cellOf(const bpp::Parameter* q) const { auto it = byPtr.find(q); return it == byPtr.end() ? -1 : it->second; }
  // registers an object the library created (clone) as a fresh cell; it must be a new object
  int registerFresh(const std::shared_ptr<bpp::Parameter>& obj, const std::string& why) {
    if (cellOf(obj.get()) >= 0) ctx.fail("invariant:copy-independent", "invariant:copy-independent:" + opk, why + ": entry '" + obj->getName() + "' is the very same parameter object as an existing one, a fresh copy was expected");
    Cell c; c.obj = obj; c.name = obj->getName(); c.v = obj->getValue(); c.c = poolIndexOf(*obj);
    cells.push_back(c); byPtr[obj.get()] = static_cast<int>(cells.size() - 1);
    return static_cast<int>(cells.size() - 1);
  }
  // fresh cell expected to equal (name, v, c)
  int registerFreshExpect(const std::shared_ptr<bpp::Parameter>& obj, const std::string& name, double v, int c, const std::string& why) {
    int id = registerFresh(obj, why);
    const Cell& x = cells[static_cast<size_t>(id)];
    if (x.name != name) ctx.fail("model-mismatch:copied-name", "model-mismatch:copied-name:" + opk, why + ": copy is named '" + x.name + "', expected '" + name + "'");
    if (!(x.v == v)) ctx.fail("model-mismatch:copied-value", "model-mismatch:copied-value:" + opk, why + ": copy of '" + name + "' holds " + fmtd(x.v) + ", expected " + fmtd(v));
    if (x.c != c) ctx.fail("model-mismatch:copied-constraint", "model-mismatch:copied-constraint:" + opk, why + ": copy of '" + name + "' carries a different constraint than its source");
    return id;
  }
  int newOwnCell(const std::string& name, double v, int c) {       // harness-made parameter (sources)
    std::shared_ptr<bpp::Parameter> obj(new bpp::Parameter(name, v, cobj(c)));
    Cell x; x.obj = obj; x.name = name; x.v = v; x.c = c;
    cells.push_back(x); byPtr[obj.get()] = static_cast<int>(cells.size() - 1);
    return static_cast<int>(cells.size() - 1);
  }
  bool room(size_t extra = MAXLEN) const { return cells.size() + extra <= MAXCELLS; }

  // accepted alphabet value for constraint c, different from `cur` when possible
  static double pickAccepted(int c, long seed, double cur, bool mustDiffer) {
    for (int t = 0; t < NALPHA; ++t) { double x = ALPHA[static_cast<size_t>((seed + t) % NALPHA + NALPHA) % NALPHA]; if (accepts(c, x) && (!mustDiffer || x != cur)) return x; }
    return cur;
  }
  static bool pickRejected(int c, long seed, double& out) {
    if (c < 0) return false;
    for (int t = 0; t < NALPHA; ++t) { double x = ALPHA[static_cast<size_t>((seed + t) % NALPHA + NALPHA) % NALPHA]; if (!POOL[c].accepts(x)) { out = x; return true; } }
    return false;
  }

  template <class F> Out attempt(F call) {
    try { call(); return RET; }
    catch (bpp::ConstraintException&) { return CONSTRAINT; }
    catch (bpp::ParameterException&) { return PARAMEXC; }
    catch (bpp::ParameterNotFoundException&) { return NOTFOUND; }
    catch (bpp::IndexOutOfBoundsException&) { return INDEXOOB; }
    catch (bpp::Exception&) { return OTHERBPP; }
    catch (std::exception& e) { ctx.fail("foreign-exception:std", "foreign-exception:std:" + opk, e.what()); }
    return OTHERBPP;
  }
  void expect(Out got, Out want, const std::string& what) {
    if (got != want) ctx.fail("model-mismatch:" + what, "model-mismatch:" + what + ":" + OUTN[want] + "-expected", what + ": expected " + OUTN[want] + ", observed " + OUTN[got]);
  }

  // every cell equals its model (so: untouched cells never change, in any list), lists are the modelled
  // sequences of the modelled objects, names unique
  void invariants() {
    for (size_t i = 0; i < cells.size(); ++i) {
      const Cell& c = cells[i];
      double v = c.obj->getValue();
      if (!(v == c.v)) ctx.fail("model-mismatch:value", "model-mismatch:value:" + opk, "cell" + std::to_string(i) + " '" + c.name + "' holds " + fmtd(v) + ", model " + fmtd(c.v));
      if (c.obj->getName() != c.name) ctx.fail("model-mismatch:name", "model-mismatch:name:" + opk, "cell" + std::to_string(i) + " is named '" + c.obj->getName() + "', model '" + c.name + "'");
      const bpp::ConstraintInterface* have = c.obj->hasConstraint() ? c.obj->getConstraint().get() : nullptr;
      const bpp::ConstraintInterface* want = c.c >= 0 ? pool[static_cast<size_t>(c.c)].get() : nullptr;
      if (have != want) ctx.fail("model-mismatch:constraint", "model-mismatch:constraint:" + opk, "cell" + std::to_string(i) + " '" + c.name + "' carries a different constraint than the model");
    }
    uint64_t sh = 0x5c02;
    for (size_t h = 0; h < hs.size(); ++h) {
      bpp::ParameterList& L = hs[h].L();
      const std::vector<int>& ent = hs[h].ent;
      std::string hn = "list" + std::to_string(h);
      if (L.size() != ent.size()) ctx.fail("model-mismatch:list-size", "model-mismatch:list-size:" + opk, hn + " has " + std::to_string(L.size()) + " entries, model " + std::to_string(ent.size()));
      std::vector<std::string> names = L.getParameterNames();
      if (names.size() != ent.size()) ctx.fail("model-mismatch:getParameterNames", "model-mismatch:getParameterNames:" + opk, hn + " getParameterNames size");
      for (size_t i = 0; i < ent.size(); ++i) {
        const Cell& c = cells[static_cast<size_t>(ent[i])];
        if (L.getParameter(i).get() != c.obj.get()) ctx.fail("model-mismatch:list-entry", "model-mismatch:list-entry:" + opk, hn + " entry " + std::to_string(i) + " ('" + L.getParameter(i)->getName() + "') is not the modelled parameter object ('" + c.name + "')");
        if (names[i] != c.name) ctx.fail("model-mismatch:getParameterNames", "model-mismatch:getParameterNames:" + opk, hn + " getParameterNames[" + std::to_string(i) + "]");
        for (size_t j = 0; j < i; ++j) if (names[j] == names[i]) ctx.fail("invariant:names-unique", "invariant:names-unique:" + opk, hn + " holds the name '" + names[i] + "' twice (positions " + std::to_string(j) + " and " + std::to_string(i) + ")");
        // canonical sharing structure: first (list,pos) where the same cell appears
        size_t fh = h, fi = i; bool found = false;
        for (size_t h2 = 0; h2 <= h && !found; ++h2) for (size_t i2 = 0; i2 < hs[h2].ent.size(); ++i2) if (hs[h2].ent[i2] == ent[i]) { fh = h2; fi = i2; found = true; break; }
        sh = (sh ^ strHash(c.name)) * 1099511628211ULL; sh = (sh ^ strHash(hexfloat(c.v))) * 1099511628211ULL; sh = (sh ^ static_cast<uint64_t>(c.c + 2 + 8 * (fh * 16 + fi))) * 1099511628211ULL;
      }
      sh = (sh ^ (0xabcd + h)) * 1099511628211ULL;
    }
    ctx.state(sh);
    ctx.ev("st=" + std::to_string(sh));
  }

  // after an operation whose effect under failure the statement leaves open: rebuild list h of the model from
  // what is observed, adopt observed values/constraints of the cells in `named`, register unknown objects
  void resync(size_t h, const std::vector<int>& named, bool adoptConstraint) {
    for (int id : named) { Cell& c = cells[static_cast<size_t>(id)]; c.v = c.obj->getValue(); if (adoptConstraint) c.c = poolIndexOf(*c.obj); }
    bpp::ParameterList& L = hs[h].L();
    std::vector<int> ent;
    for (size_t i = 0; i < L.size(); ++i) { int id = cellOf(L.getParameter(i).get()); if (id < 0) id = registerFresh(L.getParameter(i), "re-synchronisation"); ent.push_back(id); }
    hs[h].ent = ent;
  }
  bool isPrefix(const std::vector<int>& a, const std::vector<int>& b) const { if (a.size() > b.size()) return false; for (size_t i = 0; i < a.size(); ++i) if (a[i] != b[i]) return false; return true; }
  bool isSubsequence(const std::vector<int>& a, const std::vector<int>& b) const { size_t j = 0; for (size_t i = 0; i < b.size() && j < a.size(); ++i) if (b[i] == a[j]) ++j; return j == a.size(); }
  bool inOtherHandle(int id, size_t h) const { for (size_t k = 0; k < hs.size(); ++k) if (k != h) for (int e : hs[k].ent) if (e == id) return true; return false; }

  // slot for a new list (fresh handle or replacement of a non-zero handle); returns index
  size_t installList(std::unique_ptr<bpp::ParameterList> l, std::unique_ptr<SimOwner2> o, const std::vector<int>& ent, long hint) {
    size_t slot;
    if (hs.size() < MAXH) { hs.emplace_back(); slot = hs.size() - 1; }
    else { slot = 1 + static_cast<size_t>(hint) % (hs.size() - 1); ctx.probe("live-list-destroyed"); }
    hs[slot].list = std::move(l); hs[slot].owner = std::move(o); hs[slot].ent = ent;
    return slot;
  }

  // ------------------------------------------------------------------ sources of compound calls
  struct Src {
    bpp::ParameterList* list = nullptr; std::unique_ptr<bpp::ParameterList> tmp; std::vector<int> ent;
    bool live = false; size_t liveH = 0; long bad = -1;
  };
  // Source for a compound call on handle h.  Synthetic: built relative to the target's current entries; operands
  // choose which entries are named (mask), their order, names foreign to the target, which entries differ from
  // the target's value (change mask) and which single entry carries a value its target rejects (reject@k).
  // Live: another live list as it is (overlapping name sets, values as history left them).
  Src buildSource(size_t h, const Op& o, bool wantAll) {
    Src s;
    long flags = o.c >> 8;
    if ((flags >> 7) & 1) {
      s.live = true; s.liveH = static_cast<size_t>(o.c >> 16) % hs.size();
      s.list = &hs[s.liveH].L(); s.ent = hs[s.liveH].ent;
      ctx.probe("source-is-live-list");
      return s;
    }
    const std::vector<int>& T = hs[h].ent;
    std::vector<size_t> order;
    bool allowMissing = (flags >> 6) & 1;
    for (size_t i = 0; i < T.size(); ++i) if ((wantAll && !allowMissing) || ((o.c >> (i % 8)) & 1)) order.push_back(i);
    if (flags & 1) std::reverse(order.begin(), order.end());
    if ((flags & 2) && order.size() > 1) std::rotate(order.begin(), order.begin() + 1, order.end());
    long vs = static_cast<long>(o.x); if (vs < 0) vs = -vs;
    long badSel = o.d >> 8, change = o.d & 0xFF;
    if (badSel > 0 && !order.empty()) {
      size_t k0 = static_cast<size_t>(badSel - 1) % order.size();
      for (size_t t = 0; t < order.size(); ++t) { size_t k = (k0 + t) % order.size(); if (cells[static_cast<size_t>(T[order[k]])].c >= 0) { s.bad = static_cast<long>(k); break; } }
    }
    std::vector<int> made;
    for (size_t k = 0; k < order.size(); ++k) {
      const Cell tc = cells[static_cast<size_t>(T[order[k]])];
      double val = tc.v;
      if (static_cast<long>(k) == s.bad) { if (!pickRejected(tc.c, vs + static_cast<long>(k), val)) s.bad = -1; }
      else if ((change >> (order[k] % 8)) & 1) {
        val = pickAccepted(tc.c, vs + 3 * static_cast<long>(k), tc.v, true);
        double raw = o.y * static_cast<double>(k + 1);
        if (o.y != 0 && accepts(tc.c, raw)) val = raw;
      }
      int sc = -1;
      if ((flags >> 5) & 1) { int cand = static_cast<int>((vs + static_cast<long>(k)) % (NPOOL + 1)) - 1; if (accepts(cand, val)) sc = cand; }
      made.push_back(newOwnCell(tc.name, val, sc));
    }
    // names the target does not hold (they may well exist in other lists)
    std::vector<std::string> foreign;
    for (int t = 0; t < NNAMES && foreign.size() < 3; ++t) { std::string n = NAMES[static_cast<size_t>((vs + t) % NNAMES)]; if (findName(T, n) < 0) foreign.push_back(n); }
    size_t fi = 0;
    auto foreignCell = [&]() { int id = newOwnCell(foreign[fi], ALPHA[static_cast<size_t>((vs + static_cast<long>(fi)) % NALPHA)], -1); ++fi; return id; };
    std::vector<int> ent;
    if (((flags >> 2) & 1) && fi < foreign.size()) ent.push_back(foreignCell());
    for (size_t k = 0; k < made.size(); ++k) {
      if (k == (made.size() + 1) / 2 && ((flags >> 3) & 1) && fi < foreign.size()) ent.push_back(foreignCell());
      ent.push_back(made[k]);
    }
    if (((flags >> 4) & 1) && fi < foreign.size()) ent.push_back(foreignCell());
    // position of the offending entry inside the final source
    if (s.bad >= 0) { int id = made[static_cast<size_t>(s.bad)]; for (size_t i = 0; i < ent.size(); ++i) if (ent[i] == id) s.bad = static_cast<long>(i); }
    s.tmp.reset(new bpp::ParameterList());
    for (int id : ent) s.tmp->shareParameter(cells[static_cast<size_t>(id)].obj);
    if (s.tmp->size() != ent.size()) ctx.fail("model-mismatch:source-build", "model-mismatch:source-build", "sharing " + std::to_string(ent.size()) + " uniquely named parameters into an empty list gave " + std::to_string(s.tmp->size()) + " entries");
    for (size_t i = 0; i < ent.size(); ++i) if (s.tmp->getParameter(i).get() != cells[static_cast<size_t>(ent[i])].obj.get()) ctx.fail("model-mismatch:source-build", "model-mismatch:source-build", "shared entry is not the shared object");
    s.list = s.tmp.get(); s.ent = ent;
    return s;
  }
  void maybeKeepSource(Src& s, bool keep, long hint) {
    if (keep && !s.live && s.tmp) { installList(std::move(s.tmp), nullptr, s.ent, hint); ctx.probe("source-kept-as-live-list"); }
  }

  // ------------------------------------------------------------------ bulk value updates (the atomic ones)
  void opBulk(const Op& o) {
    size_t h = static_cast<size_t>(o.a) % hs.size();
    long kind = o.b % 4;                       // 0 setParametersValues 1 matchParametersValues 2 setAllParametersValues 3 testParametersValues
    bool viaOwner = hs[h].owner && ((o.b >> 2) & 1) && kind != 3;
    if (!room(12)) { ctx.outcome("skip"); return; }
    static const char* KN0[] = {"setParametersValues", "matchParametersValues", "setAllParametersValues", "testParametersValues"};
    std::string KN = std::string(viaOwner ? "owner-" : "") + KN0[kind];
    Src s = buildSource(h, o, kind == 2);
    Handle& H = hs[h];
    struct M { size_t si; int tc; double val; };
    std::vector<M> matched; bool foreignInSrc = false;
    for (size_t si = 0; si < s.ent.size(); ++si) {
      const Cell& sc = cells[static_cast<size_t>(s.ent[si])];
      int ti = findName(H.ent, sc.name);
      if (ti < 0) { foreignInSrc = true; continue; }
      matched.push_back(M{si, H.ent[static_cast<size_t>(ti)], sc.v});
    }
    bool missing = false;
    if (kind == 2) for (int e : H.ent) if (findName(s.ent, cells[static_cast<size_t>(e)].name) < 0) missing = true;
    long firstRej = -1, lastDiffBefore = -1; bool diffAfter = false, anyDiff = false, anySame = false;
    std::vector<size_t> wantPos;
    for (size_t k = 0; k < matched.size(); ++k) {
      const Cell& tc = cells[static_cast<size_t>(matched[k].tc)];
      bool rej = !accepts(tc.c, matched[k].val), diff = tc.v != matched[k].val;
      if (rej && firstRej < 0) firstRej = static_cast<long>(k);
      if (diff && !rej) { anyDiff = true; if (firstRej < 0) lastDiffBefore = static_cast<long>(k); else diffAfter = true; }
      if (!diff) anySame = true;
      if (diff) wantPos.push_back(matched[k].si);
    }
    bool reject = firstRej >= 0;
    if (H.owner) H.owner->fires.clear();
    bool flag = false; std::vector<size_t> upd;
    bool useVec = (o.b >> 4) & 1;
    Out got = attempt([&] {
      if (viaOwner) {
        if (kind == 0) H.owner->setParametersValues(*s.list); else if (kind == 1) flag = H.owner->matchParametersValues(*s.list); else H.owner->setAllParametersValues(*s.list);
      } else {
        bpp::ParameterList& L = H.L();
        if (kind == 0) L.setParametersValues(*s.list); else if (kind == 1) flag = useVec ? L.matchParametersValues(*s.list, &upd) : L.matchParametersValues(*s.list);
        else if (kind == 2) L.setAllParametersValues(*s.list); else flag = L.testParametersValues(*s.list);
      }
    });
    if (got != RET) {
      // all-or-nothing: whatever was raised, no cell of any list may have moved
      for (size_t i = 0; i < cells.size(); ++i) if (!(cells[i].obj->getValue() == cells[i].v))
        ctx.fail("invariant:rejected-bulk-changed-state", "invariant:rejected-bulk-changed-state:" + KN, KN + " raised " + OUTN[got] + " but '" + cells[i].name + "' (cell" + std::to_string(i) + ") moved from " + fmtd(cells[i].v) + " to " + fmtd(cells[i].obj->getValue()));
      if (H.owner && !H.owner->fires.empty()) ctx.fail("invariant:rejected-bulk-notified", "invariant:rejected-bulk-notified:" + KN, KN + " raised but fireParameterChanged was called");
    }
    bool lenientForeign = kind == 0 && foreignInSrc && !reject && got == NOTFOUND;    // Parametrizable documents a raise, ParameterList a skip
    if (lenientForeign) { ctx.rejected(); maybeKeepSource(s, (o.b >> 3) & 1, o.d); return; }
    if (kind == 2 && missing && reject) { if (got != CONSTRAINT && got != NOTFOUND) expect(got, CONSTRAINT, KN); }
    else expect(got, kind == 2 && missing ? NOTFOUND : (reject ? CONSTRAINT : RET), KN);
    if (got != RET) {
      if (reject) {
        ctx.fault("reject@k");
        if (matched.size() >= 2) {
          if (firstRej == 0) ctx.probe("bulk-reject-first-position");
          else if (firstRej == static_cast<long>(matched.size()) - 1) ctx.probe("bulk-reject-last-position");
          else ctx.probe("bulk-reject-middle-position");
        }
        if (lastDiffBefore >= 0) ctx.probe("bulk-reject-after-changing-entry");
        if (diffAfter) ctx.probe("bulk-reject-before-changing-entry");
        for (auto& m : matched) if (inOtherHandle(m.tc, h)) { ctx.probe("bulk-reject-target-shared-elsewhere"); break; }
        if (viaOwner) ctx.probe("owner-bulk-rejected");
      }
      if (missing) ctx.fault("absent-name");
      ctx.rejected();
      maybeKeepSource(s, (o.b >> 3) & 1, o.d);
      return;
    }
    // success: every matching value applied (test: nothing applied)
    if (kind != 3) {
      for (auto& m : matched) {
        Cell& tc = cells[static_cast<size_t>(m.tc)];
        tc.v = m.val;
        if (!(tc.obj->getValue() == m.val)) ctx.fail("model-mismatch:matching-value-not-applied", "model-mismatch:matching-value-not-applied:" + KN, KN + " returned but '" + tc.name + "' holds " + fmtd(tc.obj->getValue()) + " instead of the source's " + fmtd(m.val));
      }
    }
    if (kind == 1 || kind == 3) {
      if (flag != !wantPos.empty()) ctx.fail("model-mismatch:changed-flag", "model-mismatch:changed-flag:" + KN, KN + " returned " + (flag ? "true" : "false") + " while " + std::to_string(wantPos.size()) + " matching entries differed");
      ctx.evi("flag", flag ? 1 : 0);
      if (anyDiff && anySame) ctx.probe("match-partial-change");
      if (!anyDiff && !matched.empty()) ctx.probe("match-nothing-differs");
    }
    if (kind == 1 && !viaOwner && useVec) {
      std::vector<size_t> got2 = upd; std::sort(got2.begin(), got2.end());
      if (got2 != wantPos) {
        std::string a, b; for (size_t x : upd) a += std::to_string(x) + " "; for (size_t x : wantPos) b += std::to_string(x) + " ";
        ctx.fail("model-mismatch:changed-positions", "model-mismatch:changed-positions:" + KN, KN + " reported source positions { " + a + "} but the differing ones are { " + b + "}");
      }
      if (!wantPos.empty() && foreignInSrc) ctx.probe("changed-positions-with-foreign-names");
    }
    if (viaOwner) {
      std::vector<Fire>& F = H.owner->fires;
      if (kind == 1) {
        if (F.size() != (wantPos.empty() ? 0u : 1u)) ctx.fail("model-mismatch:owner-notification", "model-mismatch:owner-notification-count:" + KN, KN + ": " + std::to_string(wantPos.size()) + " entries differed, fireParameterChanged called " + std::to_string(F.size()) + " times");
        if (!F.empty()) {
          std::vector<std::string> wn; for (size_t pos : wantPos) wn.push_back(cells[static_cast<size_t>(s.ent[pos])].name);
          std::vector<std::string> gn = F[0].names; std::sort(gn.begin(), gn.end()); std::sort(wn.begin(), wn.end());
          if (gn != wn) ctx.fail("model-mismatch:owner-notification", "model-mismatch:owner-notification-entries:" + KN, KN + ": fireParameterChanged received " + std::to_string(gn.size()) + " entries, " + std::to_string(wn.size()) + " entries differed (or different names)");
          if (wantPos.size() < matched.size()) ctx.probe("owner-fire-strict-subset");
        }
      } else {
        if (F.size() != 1) ctx.fail("model-mismatch:owner-notification", "model-mismatch:owner-notification-count:" + KN, KN + " returned, fireParameterChanged called " + std::to_string(F.size()) + " times");
        if (F[0].names.size() != s.ent.size()) ctx.fail("model-mismatch:owner-notification", "model-mismatch:owner-notification-entries:" + KN, KN + ": notification does not carry the source list");
      }
    }
    if (matched.size() >= 2 && anyDiff && kind != 3) { ctx.probe("bulk-applied-several"); ++ctx.custom; }
    if (s.live && !matched.empty()) ctx.probe("bulk-from-live-list");
    if (kind == 3) ctx.outcome("read"); else ctx.ok();
    maybeKeepSource(s, (o.b >> 3) & 1, o.d);
  }

  // ------------------------------------------------------------------ object-level bulk updates (value + constraint copied)
  void opObjBulk(const Op& o) {
    size_t h = static_cast<size_t>(o.a) % hs.size();
    long kind = o.b % 3;                       // 0 setParameters 1 matchParameters 2 setAllParameters
    if (!room(12)) { ctx.outcome("skip"); return; }
    static const char* KN0[] = {"setParameters", "matchParameters", "setAllParameters"};
    std::string KN = KN0[kind];
    Op o2 = o; o2.d = o.d & 0xFF;              // no offending entry: these calls do not validate
    Src s = buildSource(h, o2, kind == 2);
    Handle& H = hs[h];
    std::vector<std::pair<int, int>> matched; bool foreignInSrc = false, missing = false;   // (target cell, source cell)
    for (int se : s.ent) { int ti = findName(H.ent, cells[static_cast<size_t>(se)].name); if (ti < 0) foreignInSrc = true; else matched.push_back(std::make_pair(H.ent[static_cast<size_t>(ti)], se)); }
    for (int e : H.ent) if (findName(s.ent, cells[static_cast<size_t>(e)].name) < 0) missing = true;
    Out want = (kind == 0 && foreignInSrc) || (kind == 2 && missing) ? NOTFOUND : RET;
    bpp::ParameterList& L = H.L();
    Out got = attempt([&] { if (kind == 0) L.setParameters(*s.list); else if (kind == 1) L.matchParameters(*s.list); else L.setAllParameters(*s.list); });
    expect(got, want, KN);
    if (got != RET) {
      // the statement does not promise atomicity here: adopt what is observed for the named cells
      std::vector<int> named; for (auto& m : matched) named.push_back(m.first);
      std::vector<int> before = H.ent;
      resync(h, named, true);
      if (H.ent != before) ctx.fail("model-mismatch:membership-changed", "model-mismatch:membership-changed:" + KN, KN + " changed which parameter objects the list holds");
      ctx.fault("absent-name"); ctx.rejected();
      return;
    }
    std::vector<Cell> snap;
    for (auto& m : matched) snap.push_back(cells[static_cast<size_t>(m.second)]);
    for (size_t k = 0; k < matched.size(); ++k) { Cell& t = cells[static_cast<size_t>(matched[k].first)]; t.v = snap[k].v; t.c = snap[k].c; }
    if (!matched.empty()) ctx.probe("object-level-update-applied");
    ctx.ok();
    maybeKeepSource(s, (o.b >> 3) & 1, o.d);
  }

  // ------------------------------------------------------------------ add one
  void opAdd(const Op& o) {
    size_t h = static_cast<size_t>(o.a) % hs.size(); Handle& H = hs[h];
    std::string name = NAMES[static_cast<size_t>(o.b) % NNAMES];
    int c = static_cast<int>(o.c % (NPOOL + 1)) - 1;
    double v = pickAccepted(c, static_cast<long>(o.x), 0, false);
    bool has = findName(H.ent, name) >= 0;
    if ((!has && H.ent.size() >= MAXLEN) || !room()) { ctx.outcome("skip"); return; }
    long variant = o.d % 3; if (variant == 2 && !H.owner) variant = 1;
    bpp::ParameterList& L = H.L();
    Out got;
    if (variant == 0) { bpp::Parameter tmp(name, v, cobj(c)); got = attempt([&] { L.addParameter(tmp); }); }
    else {
      bpp::Parameter* raw = new bpp::Parameter(name, v, cobj(c));
      got = attempt([&] { if (variant == 2) H.owner->add(raw); else L.addParameter(raw); });
      if (got != RET) delete raw;              // ownership is only taken on success
    }
    expect(got, has ? PARAMEXC : RET, "addParameter");
    if (has) { ctx.fault("name-collision"); ctx.probe("add-refused"); ctx.rejected(); return; }
    if (L.size() != H.ent.size() + 1) ctx.fail("model-mismatch:list-size", "model-mismatch:list-size:addParameter", "addParameter of a new name did not append exactly one entry");
    H.ent.push_back(registerFreshExpect(L.getParameter(L.size() - 1), name, v, c, "addParameter"));
    ctx.ok();
  }

  // ------------------------------------------------------------------ addParameters / includeParameters / shareParameters
  void opMany(const Op& o) {
    size_t h = static_cast<size_t>(o.a) % hs.size();
    int kind = o.k == "addm" ? 0 : (o.k == "incl" ? 1 : 2);
    static const char* KN0[] = {"addParameters", "includeParameters", "shareParameters"};
    std::string KN = KN0[kind];
    if (!room(24)) { ctx.outcome("skip"); return; }
    Op o2 = o; if (kind == 0) o2.d = o.d & 0xFF;
    Src s = buildSource(h, o2, false);
    Handle& H = hs[h];
    bool viaOwner = H.owner && (o.b & 1);
    // sequential model of the documented per-entry behaviour
    struct Step { int kind; int tc; int sc; };          // 0 update 1 append-copy 2 append-shared
    std::vector<Step> steps; std::vector<std::string> have;
    for (int e : H.ent) have.push_back(cells[static_cast<size_t>(e)].name);
    Out want = RET; std::vector<int> named; size_t appended = 0; bool collided = false, collidedDiffering = false;
    for (int se : s.ent) {
      const Cell& sc = cells[static_cast<size_t>(se)];
      int ti = findName(H.ent, sc.name);
      if (ti >= 0) {
        collided = true;
        int tcId = H.ent[static_cast<size_t>(ti)]; const Cell& tc = cells[static_cast<size_t>(tcId)];
        if (kind == 0) { want = PARAMEXC; break; }
        named.push_back(tcId);
        if (tc.v != sc.v) { collidedDiffering = true; if (!accepts(tc.c, sc.v)) { want = CONSTRAINT; break; } }
        steps.push_back(Step{0, tcId, se});
      } else { steps.push_back(Step{kind == 2 ? 2 : 1, -1, se}); ++appended; }
    }
    if (H.ent.size() + appended > MAXLEN) { ctx.outcome("skip"); return; }
    bpp::ParameterList& L = H.L();
    Out got = attempt([&] {
      if (viaOwner) { if (kind == 0) H.owner->addMany(*s.list); else if (kind == 1) H.owner->includeMany(*s.list); else H.owner->shareMany(*s.list); }
      else { if (kind == 0) L.addParameters(*s.list); else if (kind == 1) L.includeParameters(*s.list); else L.shareParameters(*s.list); }
    });
    expect(got, want, KN);
    if (got != RET) {
      // atomicity is NOT asserted here: adopt the observed state of the named cells and of this list
      std::vector<int> before = H.ent;
      bool moved = false; for (int id : named) if (!(cells[static_cast<size_t>(id)].obj->getValue() == cells[static_cast<size_t>(id)].v)) moved = true;
      resync(h, named, false);
      if (!isPrefix(before, H.ent)) ctx.fail("model-mismatch:existing-entries-disturbed", "model-mismatch:existing-entries-disturbed:" + KN, KN + " raised and the entries present before are no longer the leading entries of the list");
      if (moved || H.ent.size() > before.size()) ctx.probe("compound-add-raised-midway");
      ctx.fault(kind == 0 ? "name-collision" : "reject@k");
      if (kind == 0) ctx.probe("add-refused");
      ctx.rejected();
      return;
    }
    size_t pos = H.ent.size();
    if (L.size() != H.ent.size() + appended) ctx.fail("model-mismatch:list-size", "model-mismatch:list-size:" + KN, KN + ": " + std::to_string(appended) + " new names, list grew from " + std::to_string(H.ent.size()) + " to " + std::to_string(L.size()));
    std::vector<Cell> snap; for (auto& st : steps) snap.push_back(cells[static_cast<size_t>(st.sc)]);
    for (size_t k = 0; k < steps.size(); ++k) {
      const Step& st = steps[k];
      if (st.kind == 0) cells[static_cast<size_t>(st.tc)].v = snap[k].v;
      else if (st.kind == 1) { int id = registerFreshExpect(L.getParameter(pos), snap[k].name, snap[k].v, snap[k].c, KN); cells[static_cast<size_t>(id)].origin = st.sc; H.ent.push_back(id); ++pos; }
      else {
        if (L.getParameter(pos).get() != cells[static_cast<size_t>(st.sc)].obj.get()) ctx.fail("invariant:shared-identity", "invariant:shared-identity:" + KN, KN + ": appended entry '" + snap[k].name + "' is not the very parameter object of the source");
        H.ent.push_back(st.sc); ++pos;
      }
    }
    if (collided && kind == 1) ctx.probe("include-became-update");
    if (collided && kind == 2) ctx.probe("share-became-update");
    if (collidedDiffering) ctx.probe("collision-updated-differing-value");
    ctx.ok();
    maybeKeepSource(s, (o.b >> 3) & 1, o.d);
  }

  // ------------------------------------------------------------------ shareParameter (one)
  void opShare1(const Op& o) {
    size_t h = static_cast<size_t>(o.a) % hs.size();
    size_t j = static_cast<size_t>(o.b) % hs.size();
    if (!room()) { ctx.outcome("skip"); return; }
    int sid;
    if (((o.d >> 1) & 1) || hs[j].ent.empty()) {
      int c = static_cast<int>((o.d >> 2) % (NPOOL + 1)) - 1;
      sid = newOwnCell(NAMES[static_cast<size_t>(o.c) % NNAMES], pickAccepted(c, static_cast<long>(o.x), 0, false), c);
    } else sid = hs[j].ent[static_cast<size_t>(o.c) % hs[j].ent.size()];
    Handle& H = hs[h];
    const Cell sc = cells[static_cast<size_t>(sid)];
    int ti = findName(H.ent, sc.name);
    if (ti < 0 && H.ent.size() >= MAXLEN) { ctx.outcome("skip"); return; }
    bool viaOwner = H.owner && (o.d & 1);
    Out want = RET;
    if (ti >= 0) { const Cell& tc = cells[static_cast<size_t>(H.ent[static_cast<size_t>(ti)])]; if (tc.v != sc.v && !accepts(tc.c, sc.v)) want = CONSTRAINT; }
    bpp::ParameterList& L = H.L();
    Out got = attempt([&] { if (viaOwner) H.owner->share(cells[static_cast<size_t>(sid)].obj); else L.shareParameter(cells[static_cast<size_t>(sid)].obj); });
    expect(got, want, "shareParameter");
    if (got != RET) { ctx.fault("reject@k"); ctx.rejected(); return; }     // one value update, refused: the invariants check that nothing moved
    if (ti >= 0) {
      int tid = H.ent[static_cast<size_t>(ti)];
      if (tid != sid) { ctx.probe("share-became-update"); if (cells[static_cast<size_t>(tid)].v != sc.v) ctx.probe("collision-updated-differing-value"); }
      cells[static_cast<size_t>(tid)].v = sc.v;
    } else {
      if (L.size() != H.ent.size() + 1 || L.getParameter(L.size() - 1).get() != sc.obj.get()) ctx.fail("invariant:shared-identity", "invariant:shared-identity:shareParameter", "shareParameter of a new name did not append the very parameter object");
      H.ent.push_back(sid);
    }
    ctx.ok();
  }

  // ------------------------------------------------------------------ setParameter(index, param)
  void opSetP(const Op& o) {
    size_t h = static_cast<size_t>(o.a) % hs.size(); Handle& H = hs[h];
    if (!room()) { ctx.outcome("skip"); return; }
    size_t n = H.ent.size();
    size_t idx = ((o.d >> 3) & 1) || n == 0 ? static_cast<size_t>(o.b) % (n + 1) + (((o.d >> 4) & 1) ? 2 : 0) : static_cast<size_t>(o.b) % n;
    // the replacing parameter keeps the replaced entry's name or brings a name the list does not hold
    // (a name held at ANOTHER position is outside the statement: see assumptions)
    std::string name = idx < n ? cells[static_cast<size_t>(H.ent[idx])].name : std::string("a");
    if (!(o.d & 1) || idx >= n) for (int t = 0; t < NNAMES; ++t) { std::string cand = NAMES[static_cast<size_t>((o.c + t) % NNAMES)]; if (findName(H.ent, cand) < 0) { name = cand; break; } }
    int c = static_cast<int>(o.c % (NPOOL + 1)) - 1;
    double v = pickAccepted(c, static_cast<long>(o.x), 0, false);
    bpp::Parameter tmp(name, v, cobj(c));
    bpp::ParameterList& L = H.L();
    Out got = attempt([&] { L.setParameter(idx, tmp); });
    expect(got, idx >= n ? INDEXOOB : RET, "setParameter");
    if (got != RET) { ctx.fault("index-out-of-range"); ctx.rejected(); return; }
    if (L.size() != n) ctx.fail("model-mismatch:list-size", "model-mismatch:list-size:setParameter", "setParameter changed the size of the list");
    H.ent[idx] = registerFreshExpect(L.getParameter(idx), name, v, c, "setParameter");
    ctx.probe("entry-replaced");
    ctx.ok();
  }

  // ------------------------------------------------------------------ one value
  void opSetV(const Op& o) {
    size_t h = static_cast<size_t>(o.a) % hs.size(); Handle& H = hs[h];
    std::string name = ((o.d & 1) && !H.ent.empty()) ? cells[static_cast<size_t>(H.ent[static_cast<size_t>(o.b) % H.ent.size()])].name : std::string(NAMES[static_cast<size_t>(o.b) % NNAMES]);
    int ti = findName(H.ent, name);
    long route = (o.d >> 1) % 4;                   // 0 list.setParameterValue 1 owner.setParameterValue 2 list.parameter(name).setValue 3 list[i].setValue
    if (route == 1 && !H.owner) route = 0;
    if (route == 3 && ti < 0) route = 2;
    double val = 0; Out want = NOTFOUND; int tid = -1;
    if (ti >= 0) {
      tid = H.ent[static_cast<size_t>(ti)]; const Cell& tc = cells[static_cast<size_t>(tid)];
      long mode = o.c % 4; val = tc.v;
      if (mode == 1) val = pickAccepted(tc.c, static_cast<long>(o.x), tc.v, true);
      else if (mode == 2) { if (!pickRejected(tc.c, static_cast<long>(o.x), val)) val = tc.v; }
      else if (mode == 3) val = o.y;
      want = (val != tc.v && !accepts(tc.c, val)) ? CONSTRAINT : RET;
    }
    if (H.owner) H.owner->fires.clear();
    bpp::ParameterList& L = H.L();
    Out got = attempt([&] {
      if (route == 0) L.setParameterValue(name, val); else if (route == 1) H.owner->setParameterValue(name, val);
      else if (route == 2) L.parameter(name).setValue(val); else L[static_cast<size_t>(ti)].setValue(val);
    });
    expect(got, want, "setParameterValue");
    if (got != RET) {
      if (H.owner && !H.owner->fires.empty()) ctx.fail("invariant:rejected-bulk-notified", "invariant:rejected-bulk-notified:owner-setParameterValue", "setParameterValue raised but fireParameterChanged was called");
      ctx.fault(got == NOTFOUND ? "absent-name" : "reject@k"); ctx.rejected(); return;
    }
    Cell& tc = cells[static_cast<size_t>(tid)];
    bool changed = tc.v != val;
    tc.v = val;
    if (route == 1) {
      std::vector<Fire>& F = H.owner->fires;
      if (F.size() != 1 || F[0].names.size() != 1 || F[0].names[0] != name) ctx.fail("model-mismatch:owner-notification", "model-mismatch:owner-notification-entries:owner-setParameterValue", "setParameterValue('" + name + "') did not notify exactly that parameter");
    }
    if (changed && inOtherHandle(tid, h)) ctx.probe("write-through-shared-cell");
    if (changed && tc.origin >= 0 && inOtherHandle(tc.origin, hs.size())) ctx.probe("write-on-copy-while-source-live");
    if (changed) for (size_t i = 0; i < cells.size(); ++i) if (cells[i].origin == tid && inOtherHandle(static_cast<int>(i), hs.size())) { ctx.probe("write-on-source-while-copy-live"); break; }
    ctx.ok();
  }

  // ------------------------------------------------------------------ deletions
  // after a raise the statement leaves the partial effect open: what is asserted is that entries not addressed survive, in order
  void afterPartialDelete(size_t h, const std::vector<int>& before, const std::vector<bool>& addressed, const std::string& KN) {
    resync(h, std::vector<int>(), false);
    const std::vector<int>& now = hs[h].ent;
    if (!isSubsequence(now, before)) ctx.fail("model-mismatch:delete-disturbed-list", "model-mismatch:delete-disturbed-list:" + KN, KN + " raised and the list is no longer a sub-sequence of what it was");
    for (size_t i = 0; i < before.size(); ++i) if (!addressed[i] && std::find(now.begin(), now.end(), before[i]) == now.end())
      ctx.fail("model-mismatch:deleted-unaddressed-entry", "model-mismatch:deleted-unaddressed-entry:" + KN, KN + " removed '" + cells[static_cast<size_t>(before[i])].name + "', which was not addressed");
  }
  void opDelete(const Op& o) {
    size_t h = static_cast<size_t>(o.a) % hs.size(); Handle& H = hs[h];
    bpp::ParameterList& L = H.L();
    size_t n = H.ent.size();
    bool viaOwner = H.owner && ((o.d >> 1) & 1);
    if (o.k == "deln") {
      std::string name = ((o.d & 1) && n > 0) ? cells[static_cast<size_t>(H.ent[static_cast<size_t>(o.b) % n])].name : std::string(NAMES[static_cast<size_t>(o.b) % NNAMES]);
      int ti = findName(H.ent, name);
      Out got = attempt([&] { if (viaOwner) H.owner->delName(name); else L.deleteParameter(name); });
      expect(got, ti < 0 ? NOTFOUND : RET, "deleteParameter-name");
      if (got != RET) { ctx.fault("absent-name"); ctx.rejected(); return; }
      H.ent.erase(H.ent.begin() + ti);
      ctx.ok();
    } else if (o.k == "deli") {
      size_t idx = (((o.d >> 2) & 1) || n == 0) ? static_cast<size_t>(o.b) % (n + 1) + (((o.d >> 3) & 1) ? 3 : 0) : static_cast<size_t>(o.b) % n;
      Out got = attempt([&] { if (viaOwner) H.owner->delIndex(idx); else L.deleteParameter(idx); });
      expect(got, idx >= n ? INDEXOOB : RET, "deleteParameter-index");
      if (got != RET) { ctx.fault("index-out-of-range"); ctx.rejected(); return; }
      H.ent.erase(H.ent.begin() + static_cast<long>(idx));
      ctx.ok();
    } else if (o.k == "delns") {
      bool mustExist = viaOwner ? true : (o.d & 1);
      std::vector<std::string> names;
      for (size_t i = 0; i < n; ++i) if ((o.c >> (i % 8)) & 1) names.push_back(cells[static_cast<size_t>(H.ent[i])].name);
      if ((o.d >> 3) & 1) std::reverse(names.begin(), names.end());
      if ((o.d >> 4) & 1) for (int t = 0; t < NNAMES; ++t) { std::string cand = NAMES[static_cast<size_t>((o.b + t) % NNAMES)]; if (findName(H.ent, cand) < 0) { names.insert(names.begin() + static_cast<long>(static_cast<size_t>(o.b) % (names.size() + 1)), cand); break; } }
      // a name may legitimately be given twice (names collected from overlapping sources): the repeat addresses nothing
      if (((o.d >> 5) & 1) && !names.empty()) { std::string rep = names[static_cast<size_t>(o.b) % names.size()]; names.insert(names.begin() + static_cast<long>(static_cast<size_t>(o.b / 2) % (names.size() + 1)), rep); ctx.probe("delete-names-repeated-name"); }
      std::vector<int> cur = H.ent; std::vector<bool> addressed(n, false); Out want = RET;
      for (size_t i = 0; i < n; ++i) if (std::find(names.begin(), names.end(), cells[static_cast<size_t>(H.ent[i])].name) != names.end()) addressed[i] = true;
      for (auto& nm : names) { int ti = findName(cur, nm); if (ti < 0) { if (mustExist) { want = NOTFOUND; break; } continue; } cur.erase(cur.begin() + ti); }
      std::vector<int> before = H.ent;
      Out got = attempt([&] { if (viaOwner) H.owner->delNames(names); else L.deleteParameters(names, mustExist); });
      expect(got, want, "deleteParameters-names");
      if (got != RET) { afterPartialDelete(h, before, addressed, "deleteParameters-names"); ctx.fault("absent-name"); ctx.rejected(); return; }
      if (!mustExist && names.size() > n - cur.size()) ctx.probe("delete-names-tolerated-absent");
      if (names.size() >= 2) ctx.probe("delete-several-names");
      H.ent = cur;
      ctx.ok();
    } else {   // delis: unsorted, repetition-free index set
      std::vector<size_t> idx;
      for (size_t i = 0; i < n; ++i) if ((o.c >> (i % 8)) & 1) idx.push_back(i);
      if ((o.d >> 4) & 1) idx.push_back(n + static_cast<size_t>(o.b) % 3);
      if ((o.d >> 3) & 1) std::reverse(idx.begin(), idx.end());
      if (idx.size() > 1) std::rotate(idx.begin(), idx.begin() + static_cast<long>(static_cast<size_t>(o.b) % idx.size()), idx.end());
      if (idx.size() > 2 && (o.d & 1)) std::swap(idx[0], idx[idx.size() / 2]);
      std::vector<bool> addressed(n, false); bool oob = false;
      for (size_t i : idx) { if (i < n) addressed[i] = true; else oob = true; }
      std::vector<int> before = H.ent, cur;
      for (size_t i = 0; i < n; ++i) if (!addressed[i]) cur.push_back(H.ent[i]);
      Out got = attempt([&] { L.deleteParameters(idx); });
      expect(got, oob ? INDEXOOB : RET, "deleteParameters-indices");
      if (got != RET) { afterPartialDelete(h, before, addressed, "deleteParameters-indices"); ctx.fault("index-out-of-range"); ctx.rejected(); return; }
      if (idx.size() >= 2 && !std::is_sorted(idx.begin(), idx.end())) ctx.probe("delete-indices-unsorted");
      H.ent = cur;
      ctx.ok();
    }
  }

  // ------------------------------------------------------------------ sub-list extraction
  void opSub(const Op& o) {
    size_t h = static_cast<size_t>(o.a) % hs.size();
    if (!room(12)) { ctx.outcome("skip"); return; }
    long kind = o.b % 7;   // 0 createSubList(names) 1 createSubList(name) 2 createSubList(indices) 3 createSubList(index) 4 shareSubList(names) 5 shareSubList(indices) 6 getCommonParametersWith
    static const char* KN0[] = {"createSubList-names", "createSubList-name", "createSubList-indices", "createSubList-index", "shareSubList-names", "shareSubList-indices", "getCommonParametersWith"};
    std::string KN = KN0[kind];
    const std::vector<int> ent = hs[h].ent; size_t n = ent.size();
    bpp::ParameterList& L = hs[h].L();
    bool inject = (o.d >> 4) & 1;
    std::unique_ptr<bpp::ParameterList> res;
    std::vector<size_t> sel;           // selected positions, in request order
    for (size_t i = 0; i < n; ++i) if ((o.c >> (i % 8)) & 1) sel.push_back(i);
    if ((o.d >> 3) & 1) std::reverse(sel.begin(), sel.end());
    if (sel.size() > 1 && (o.d & 1)) std::rotate(sel.begin(), sel.begin() + 1, sel.end());
    std::string absent; for (int t = 0; t < NNAMES; ++t) { std::string cand = NAMES[static_cast<size_t>((o.d / 32 + t) % NNAMES)]; if (findName(ent, cand) < 0) { absent = cand; break; } }
    if (kind == 6) {
      size_t j = static_cast<size_t>(o.d / 32) % hs.size();
      const std::vector<int> other = hs[j].ent;
      Out got = attempt([&] { res.reset(new bpp::ParameterList(L.getCommonParametersWith(hs[j].L()))); });
      expect(got, RET, KN);
      // exactly the names both hold; which side's value the copy carries is not stated: either is accepted
      std::vector<std::string> wantN, gotN;
      for (int e : other) if (findName(ent, cells[static_cast<size_t>(e)].name) >= 0) wantN.push_back(cells[static_cast<size_t>(e)].name);
      std::vector<int> rent;
      for (size_t i = 0; i < res->size(); ++i) {
        int id = registerFresh(res->getParameter(i), KN); rent.push_back(id); const Cell& rc = cells[static_cast<size_t>(id)]; gotN.push_back(rc.name);
        int a = findName(ent, rc.name), b = findName(other, rc.name);
        if (a >= 0 && b >= 0) {
          const Cell& ca = cells[static_cast<size_t>(ent[static_cast<size_t>(a)])]; const Cell& cb = cells[static_cast<size_t>(other[static_cast<size_t>(b)])];
          if (!(rc.v == ca.v || rc.v == cb.v)) ctx.fail("model-mismatch:copied-value", "model-mismatch:copied-value:" + KN, "common parameter '" + rc.name + "' carries a value neither list holds");
        }
      }
      std::sort(wantN.begin(), wantN.end()); std::sort(gotN.begin(), gotN.end());
      if (wantN != gotN) ctx.fail("model-mismatch:common-names", "model-mismatch:common-names", "getCommonParametersWith returned " + std::to_string(gotN.size()) + " names, the lists share " + std::to_string(wantN.size()));
      if (!wantN.empty() && wantN.size() < other.size()) ctx.probe("common-parameters-proper-subset");
      installList(std::move(res), nullptr, rent, o.d / 32 + 1);
      ctx.ok(); return;
    }
    bool byName = kind == 0 || kind == 1 || kind == 4, single = kind == 1 || kind == 3, shared = kind == 4 || kind == 5;
    if (single) { if (!sel.empty()) sel.resize(1); }
    bool bad = false;
    std::vector<std::string> names; std::vector<size_t> idx;
    for (size_t i : sel) { names.push_back(cells[static_cast<size_t>(ent[i])].name); idx.push_back(i); }
    if (single && sel.empty()) inject = true;                      // nothing to address: ask for an absent entry
    if (inject) {
      if (byName) { if (absent.empty()) inject = false; else { if (single) names.assign(1, absent); else names.insert(names.begin() + static_cast<long>(static_cast<size_t>(o.d / 32) % (names.size() + 1)), absent); bad = true; } }
      else { if (single) idx.assign(1, n + static_cast<size_t>(o.d / 32) % 2); else idx.insert(idx.begin() + static_cast<long>(static_cast<size_t>(o.d / 32) % (idx.size() + 1)), n + static_cast<size_t>(o.d / 32) % 2); bad = true; }
    }
    Out got = attempt([&] {
      switch (kind) {
        case 0: res.reset(new bpp::ParameterList(L.createSubList(names))); break;
        case 1: res.reset(new bpp::ParameterList(L.createSubList(names[0]))); break;
        case 2: res.reset(new bpp::ParameterList(L.createSubList(idx))); break;
        case 3: res.reset(new bpp::ParameterList(L.createSubList(idx[0]))); break;
        case 4: res.reset(new bpp::ParameterList(L.shareSubList(names))); break;
        default: res.reset(new bpp::ParameterList(L.shareSubList(idx)));
      }
    });
    if (bad && byName) { expect(got, NOTFOUND, KN); ctx.fault("absent-name"); ctx.rejected(); return; }
    if (bad && !byName) {
      // an index beyond the end: the documentation is silent (skipped or refused); either is accepted
      if (got != RET) { ctx.fault("index-out-of-range"); ctx.rejected(); return; }
      ctx.fault("index-out-of-range");
      if (single) sel.clear();
    } else expect(got, RET, KN);
    if (res->size() != sel.size()) ctx.fail("model-mismatch:sublist-size", "model-mismatch:sublist-size:" + KN, KN + " addressed " + std::to_string(sel.size()) + " entries and returned " + std::to_string(res->size()));
    std::vector<int> rent;
    for (size_t k = 0; k < sel.size(); ++k) {
      int src = ent[sel[k]]; const Cell sc = cells[static_cast<size_t>(src)];
      if (shared) {
        if (res->getParameter(k).get() != sc.obj.get()) ctx.fail("invariant:shared-identity", "invariant:shared-identity:" + KN, KN + ": entry " + std::to_string(k) + " is not the very parameter object '" + sc.name + "' of the source list");
        rent.push_back(src);
      } else {
        int id = registerFreshExpect(res->getParameter(k), sc.name, sc.v, sc.c, KN); cells[static_cast<size_t>(id)].origin = src; rent.push_back(id);
      }
    }
    if (!sel.empty()) ctx.probe(shared ? "sublist-shared" : "sublist-created");
    if (sel.size() >= 2 && !std::is_sorted(sel.begin(), sel.end())) ctx.probe("sublist-request-unsorted");
    installList(std::move(res), nullptr, rent, o.d / 32 + 1);
    ctx.ok();
  }

  // ------------------------------------------------------------------ copies
  void opCopy(const Op& o) {
    size_t h = static_cast<size_t>(o.a) % hs.size();
    if (!room(12)) { ctx.outcome("skip"); return; }
    long variant = o.b % 4;            // 0 copy-construct 1 clone() 2 assign onto a live list 3 clone of the owning object
    size_t dst = static_cast<size_t>(o.d) % hs.size();
    if (variant == 2 && (hs.size() < 2 || dst == h)) variant = 0;
    if (variant == 3 && !hs[h].owner) variant = 1;
    const std::vector<int> ent = hs[h].ent;
    std::unique_ptr<bpp::ParameterList> res; std::unique_ptr<SimOwner2> ores;
    bpp::ParameterList* R = nullptr;
    if (variant == 0) { res.reset(new bpp::ParameterList(hs[h].L())); R = res.get(); }
    else if (variant == 1) { res.reset(hs[h].L().clone()); R = res.get(); }
    else if (variant == 2) { hs[dst].L() = hs[h].L(); R = &hs[dst].L(); }
    else { ores.reset(hs[h].owner->clone()); ores->fires.clear(); R = &ores->plist(); }
    static const char* KN0[] = {"copy-constructor", "clone", "assignment", "owner-clone"};
    std::string KN = KN0[variant];
    if (R->size() != ent.size()) ctx.fail("model-mismatch:list-size", "model-mismatch:list-size:" + KN, KN + " of " + std::to_string(ent.size()) + " entries has " + std::to_string(R->size()));
    std::vector<int> rent;
    for (size_t k = 0; k < ent.size(); ++k) {
      const Cell sc = cells[static_cast<size_t>(ent[k])];
      int id = registerFreshExpect(R->getParameter(k), sc.name, sc.v, sc.c, KN); cells[static_cast<size_t>(id)].origin = ent[k]; rent.push_back(id);
    }
    if (variant == 2) { hs[dst].ent = rent; ctx.probe("assigned-over-live-list"); }
    else installList(std::move(res), std::move(ores), rent, o.d);
    if (!ent.empty()) ctx.probe("copy-made");
    ctx.ok();
  }

  void opReset(const Op& o) {
    size_t h = static_cast<size_t>(o.a) % hs.size(); Handle& H = hs[h];
    if (H.owner && (o.d & 1)) H.owner->resetAll(); else H.L().reset();
    H.ent.clear();
    ctx.ok();
  }
  void opDrop(const Op& o) {
    if (hs.size() <= 2) { ctx.outcome("skip"); return; }
    size_t slot = 1 + static_cast<size_t>(o.a) % (hs.size() - 1);
    hs.erase(hs.begin() + static_cast<long>(slot));
    ctx.probe("live-list-destroyed");
    ctx.ok();
  }

  // ------------------------------------------------------------------ lookups
  void opLook(const Op& o) {
    size_t h = static_cast<size_t>(o.a) % hs.size(); Handle& H = hs[h];
    const bpp::ParameterList& L = H.L();
    for (int t = 0; t < NNAMES; ++t) {
      std::string nm = NAMES[t];
      int ti = findName(H.ent, nm);
      if (L.hasParameter(nm) != (ti >= 0)) ctx.fail("model-mismatch:hasParameter", "model-mismatch:hasParameter", "hasParameter('" + nm + "') is " + (ti >= 0 ? "false" : "true"));
      if (H.owner && H.owner->hasParameter(nm) != (ti >= 0)) ctx.fail("model-mismatch:hasParameter", "model-mismatch:hasParameter:owner", "owner hasParameter('" + nm + "')");
      size_t w = 0; double v = 0; const bpp::Parameter* q = nullptr; const bpp::Parameter* q2 = nullptr;
      Out g1 = attempt([&] { w = L.whichParameterHasName(nm); });
      Out g2 = attempt([&] { v = L.getParameterValue(nm); });
      Out g3 = attempt([&] { q = &L.parameter(nm); });
      Out g4 = attempt([&] { q2 = L.getParameter(nm).get(); });
      Out want = ti >= 0 ? RET : NOTFOUND;
      expect(g1, want, "whichParameterHasName"); expect(g2, want, "getParameterValue"); expect(g3, want, "parameter-by-name"); expect(g4, want, "getParameter-by-name");
      if (ti >= 0) {
        const Cell& c = cells[static_cast<size_t>(H.ent[static_cast<size_t>(ti)])];
        if (w != static_cast<size_t>(ti)) ctx.fail("model-mismatch:whichParameterHasName", "model-mismatch:whichParameterHasName", "'" + nm + "' is at " + std::to_string(ti) + ", reported " + std::to_string(w));
        if (!(v == c.v)) ctx.fail("model-mismatch:getParameterValue", "model-mismatch:getParameterValue", "getParameterValue('" + nm + "') = " + fmtd(v) + ", model " + fmtd(c.v));
        if (q != c.obj.get() || q2 != c.obj.get()) ctx.fail("model-mismatch:lookup-object", "model-mismatch:lookup-object", "lookup of '" + nm + "' returned another parameter object");
        if (H.owner) { double ov = 0; Out g5 = attempt([&] { ov = H.owner->getParameterValue(nm); }); expect(g5, RET, "owner-getParameterValue"); if (!(ov == c.v)) ctx.fail("model-mismatch:getParameterValue", "model-mismatch:getParameterValue:owner", "owner getParameterValue('" + nm + "')"); }
      } else ctx.probe("lookup-absent-name");
    }
    if (H.owner && H.owner->getNumberOfParameters() != H.ent.size()) ctx.fail("model-mismatch:list-size", "model-mismatch:list-size:owner", "getNumberOfParameters");
    ctx.outcome("read");
  }

  // ------------------------------------------------------------------ driver
  void step(const Op& o) {
    opk = o.k;
    if (o.k == "add") opAdd(o);
    else if (o.k == "addm" || o.k == "incl" || o.k == "shrm") opMany(o);
    else if (o.k == "shr1") opShare1(o);
    else if (o.k == "setp") opSetP(o);
    else if (o.k == "setv") opSetV(o);
    else if (o.k == "bulk") opBulk(o);
    else if (o.k == "obulk") opObjBulk(o);
    else if (o.k == "deln" || o.k == "deli" || o.k == "delns" || o.k == "delis") opDelete(o);
    else if (o.k == "sub") opSub(o);
    else if (o.k == "copy") opCopy(o);
    else if (o.k == "reset") opReset(o);
    else if (o.k == "drop") opDrop(o);
    else if (o.k == "look") opLook(o);
    else ctx.fail("harness", "harness:unknown-op", o.k);
  }
  void run() {
    for (size_t i = 0; i < p.ops.size(); ++i) {
      ctx.beginStep(static_cast<long>(i), p.ops[i]);
      step(p.ops[i]);
      invariants();
    }
  }
};


class C02 : public Harness {
public:
  const char* id() const override { return "C02"; }
  HarnessInfo info() const override {
    HarnessInfo i;
    i.real = {"bpp::ParameterList", "bpp::AbstractParametrizable (forwarders + notification)", "bpp::Parameter", "bpp::IntervalConstraint", "ParameterException/ConstraintException/ParameterNotFoundException/IndexOutOfBoundsException"};
    i.stub = {"SimOwner2 (AbstractParametrizable subclass: records every fireParameterChanged argument, exposes the protected add/share/include/delete forwarders)"};
    i.rule = "plans: seeded histories of 5-40 add/addParameters/include/share/setParameter/set*/match*/test/delete/sub-list/copy/assign/reset/lookup operations over <=6 live lists (0..8 parameters, 10 names, 5 constraints + none, one list owned by a parametrizable object) sharing or copying parameter objects, plus an enumerated prefix over every (size<=5, offending position or none, change mask, bulk setter, list/owner) combination; non-trivial = >=3 accepted state-changing steps and (>=1 injected fault fired or >=1 bulk update applied to >=2 entries); distinct = distinct fingerprint of the executed op-kind/outcome sequence";
    i.simTime = "steps (no clock in this component)";
    i.faultKinds = {"reject@k", "absent-name", "name-collision", "index-out-of-range"};
    i.probeNames = {"bulk-reject-first-position", "bulk-reject-middle-position", "bulk-reject-last-position", "bulk-reject-after-changing-entry", "bulk-reject-before-changing-entry",
                    "bulk-reject-target-shared-elsewhere", "owner-bulk-rejected", "bulk-applied-several", "bulk-from-live-list", "source-is-live-list", "source-kept-as-live-list",
                    "match-partial-change", "match-nothing-differs", "changed-positions-with-foreign-names", "owner-fire-strict-subset",
                    "add-refused", "include-became-update", "share-became-update", "collision-updated-differing-value", "compound-add-raised-midway", "entry-replaced",
                    "write-through-shared-cell", "write-on-copy-while-source-live", "write-on-source-while-copy-live",
                    "delete-indices-unsorted", "delete-several-names", "delete-names-tolerated-absent", "delete-names-repeated-name",
                    "sublist-created", "sublist-shared", "sublist-request-unsorted", "common-parameters-proper-subset", "copy-made", "assigned-over-live-list",
                    "object-level-update-applied", "live-list-destroyed", "lookup-absent-name"};
    i.assumptions = {"all parameters have precision 0 and finite values (the statement's quantifier); -0.0 is not generated",
                     "atomicity is asserted for setParametersValues / matchParametersValues / setAllParametersValues / testParametersValues (list and owner) and for single updates; NOT for includeParameters / shareParameters / addParameters / setParameters / setAllParameters / deleteParameters(names, mustExist) after a raise: the model adopts the observed state of the addressed cells, and only uniqueness, untouched-ness of unaddressed cells, 'existing entries stay the leading entries' (add/include/share) and 'unaddressed entries survive in order' (deletions) are checked",
                     "setParameter(index, p) is only called with the replaced entry's own name or a name the list does not hold; a name held at another position (which ParameterList accepts and which duplicates the name) is treated as outside the statement",
                     "index vectors are repetition-free (deleteParameters, createSubList, shareSubList); name vectors for createSubList/shareSubList are repetition-free",
                     "an index beyond the end in createSubList/shareSubList(indices): skipping it or raising a bpp::Exception are both accepted",
                     "getCommonParametersWith: exactly the common names, fresh objects; the copy may carry either list's value",
                     "setParametersValues with a name the target does not hold: ParameterList skips it, Parametrizable documents ParameterNotFoundException; both accepted (nothing may change on a raise)",
                     "owner notifications: after matchParametersValues exactly the differing entries (names compared as multisets) iff the flag is true; after a successful setParametersValues/setAllParametersValues/setParameterValue exactly one notification (class documentation); none after a raise",
                     "the out-vector of matchParametersValues is passed empty and compared as a set of source positions",
                     "self-assignment of a list is not generated; a list used as its own source of a compound call is"};
    return i;
  }
  long defaultRuns(Tier t) const override { return t == QUICK ? 120000 : 2500000; }
  bool nontrivial(const Ctx& c) const override { return c.okSteps >= 3 && (c.faultsFired >= 1 || c.custom >= 1); }

  // enumerated prefix: list of m constrained entries owned by the object and shared into a second list; one bulk
  // value update naming all of them (plus a foreign name in the middle); every offending position or none x every
  // change mask x the four bulk calls x list/owner route
  static long block(long m) { return (m + 1) * (1L << m) * 8; }
  long enumCount(Tier) const override { long s = 0; for (long m = 1; m <= 5; ++m) s += block(m); return s; }
  Plan enumPlan(long idx, Tier) const override {
    Plan p; p.cfg["enumerated"] = 1;
    long m = 1; while (idx >= block(m)) { idx -= block(m); ++m; }
    long bad = idx % (m + 1); idx /= (m + 1); long change = idx % (1L << m); idx /= (1L << m); long kind = idx % 4; idx /= 4; long via = idx % 2;
    for (long i = 0; i < m; ++i) { Op a("add"); a.a = 0; a.b = i; a.c = i % NPOOL + 1; a.d = i % 3; a.x = static_cast<double>(i); p.ops.push_back(a); }
    { Op s("sub"); s.a = 0; s.b = 5; s.c = 255; s.d = 0; p.ops.push_back(s); }
    Op b("bulk"); b.a = 0; b.b = kind | (via << 2) | (1 << 4); b.c = 255 | ((1L << 3) << 8); b.d = change | (bad << 8); b.x = static_cast<double>(m); p.ops.push_back(b);
    { Op l("look"); l.a = 2; p.ops.push_back(l); }
    return p;
  }

  Plan generate(Rng& rng, Tier) const override {
    Plan p;
    static const char* K[] = {"add", "addm", "incl", "shrm", "shr1", "setp", "setv", "bulk", "obulk", "deln", "deli", "delns", "delis", "sub", "copy", "reset", "drop", "look"};
    std::vector<double> w = {5, 1.5, 2.5, 2, 2, 1, 3, 8, 1.5, 1, 1, 1.2, 1.5, 3, 2, 0.3, 0.4, 1};
    for (auto& x : w) if (rng.chance(0.25)) x *= rng.chance(0.5) ? 0 : 3;       // swarm: switch kinds off or boost them
    w[0] = std::max(w[0], 2.0); w[7] = std::max(w[7], 2.0);
    double rejectRate = rng.pick(std::vector<double>{0.0, 0.35, 0.7});          // faults-off arm included
    double oobRate = rng.pick(std::vector<double>{0.0, 0.15, 0.3});
    double liveRate = rng.pick(std::vector<double>{0.0, 0.15, 0.4});
    p.cfg["rejectPct"] = static_cast<long>(rejectRate * 100); p.cfg["oobPct"] = static_cast<long>(oobRate * 100); p.cfg["livePct"] = static_cast<long>(liveRate * 100);
    long n = rng.range(5, 40), warm = rng.range(2, 9);
    auto srcOperands = [&](Op& o, bool sparse, bool withBad) {
      long mask = rng.below(256); if (sparse) mask &= rng.below(256); else if (rng.chance(0.3)) mask = 255;
      long fl = (rng.chance(0.3) ? 1 : 0) | (rng.chance(0.2) ? 2 : 0) | (rng.chance(sparse ? 0.5 : 0.25) ? 4 : 0) | (rng.chance(sparse ? 0.5 : 0.25) ? 8 : 0) | (rng.chance(sparse ? 0.5 : 0.25) ? 16 : 0)
                | (rng.chance(0.2) ? 32 : 0) | (rng.chance(0.15) ? 64 : 0) | (rng.chance(liveRate) ? 128 : 0);
      o.c = mask | (fl << 8) | (rng.below(6) << 16);
      long change = rng.below(256); if (rng.chance(0.2)) change = 0; else if (rng.chance(0.2)) change = 255;
      long badSel = (withBad && rng.chance(rejectRate)) ? 1 + rng.below(8) : 0;
      o.d = change | (badSel << 8);
      o.x = static_cast<double>(rng.below(10)); o.y = rng.chance(0.15) ? rng.real(-3, 3) : 0;
    };
    for (long i = 0; i < n; ++i) {
      size_t k = i < warm ? 0 : rng.weighted(w);
      Op o(K[k]); std::string kk = K[k];
      o.a = rng.below(6);
      if (i < warm) o.a = rng.below(2);
      if (kk == "add") { o.b = rng.below(10); o.c = rng.below(6); o.d = rng.below(3); o.x = static_cast<double>(rng.below(10)); }
      else if (kk == "bulk") { if (rng.chance(0.4)) o.a = 0; srcOperands(o, false, true); o.b = rng.below(4) | (rng.chance(0.5) ? 4 : 0) | (rng.chance(0.1) ? 8 : 0) | (rng.chance(0.8) ? 16 : 0); }
      else if (kk == "obulk") { srcOperands(o, false, false); o.b = rng.below(3) | (rng.chance(0.1) ? 8 : 0); }
      else if (kk == "addm" || kk == "incl" || kk == "shrm") { srcOperands(o, true, kk != "addm"); o.b = rng.below(2) | (rng.chance(0.1) ? 8 : 0); }
      else if (kk == "shr1") { o.b = rng.below(6); o.c = rng.below(16); o.d = rng.below(32); o.x = static_cast<double>(rng.below(10)); }
      else if (kk == "setp") { o.b = rng.below(9); o.c = rng.below(12); o.d = rng.below(2) | (rng.chance(oobRate) ? 8 : 0) | (rng.chance(0.3) ? 16 : 0); o.x = static_cast<double>(rng.below(10)); }
      else if (kk == "setv") { if (rng.chance(0.3)) o.a = 0; o.b = rng.below(10); o.c = rng.below(4); if (o.c == 2 && !rng.chance(rejectRate + 0.1)) o.c = 1; o.d = (rng.chance(0.8) ? 1 : 0) | (rng.below(4) << 1); o.x = static_cast<double>(rng.below(10)); o.y = rng.real(-3, 3); }
      else if (kk == "deln") { o.b = rng.below(10); o.d = (rng.chance(0.75) ? 1 : 0) | (rng.chance(0.3) ? 2 : 0); }
      else if (kk == "deli") { o.b = rng.below(9); o.d = (rng.chance(0.3) ? 2 : 0) | (rng.chance(oobRate) ? 4 : 0) | (rng.chance(0.3) ? 8 : 0); }
      else if (kk == "delns") { o.b = rng.below(10); o.c = rng.below(256) & rng.below(256); o.d = rng.below(2) | (rng.chance(0.3) ? 2 : 0) | (rng.chance(0.5) ? 8 : 0) | (rng.chance(0.3) ? 16 : 0) | (rng.chance(0.25) ? 32 : 0); }
      else if (kk == "delis") { o.b = rng.below(8); o.c = rng.below(256) & rng.below(256); o.d = rng.below(2) | (rng.chance(0.5) ? 8 : 0) | (rng.chance(oobRate) ? 16 : 0); }
      else if (kk == "sub") { o.b = rng.below(7); o.c = rng.below(256); o.d = rng.below(2) | (rng.chance(0.5) ? 8 : 0) | (rng.chance(oobRate) ? 16 : 0) | (rng.below(64) * 32); }
      else if (kk == "copy") { o.b = rng.below(4); o.d = rng.below(6); }
      else if (kk == "reset") { o.d = rng.below(2); }
      p.ops.push_back(o);
    }
    return p;
  }
  void execute(const Plan& p, Ctx& ctx) const override {
    Exec e(p, ctx);
    try { e.run(); }
    catch (SimViolation&) { throw; }
    catch (bpp::Exception& ex) { ctx.fail("foreign-exception:bpp-unexpected", "foreign-exception:bpp-unexpected", ex.what()); }
    catch (std::exception& ex) { ctx.fail("foreign-exception:std", "foreign-exception:std", ex.what()); }
  }
};

Registrar reg(new C02());


}  // namespace
