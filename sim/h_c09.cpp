// C09 — a discretised distribution is always a valid partition of its continuous parent.
// World (real code): every DiscreteDistribution family of bpp-core (gamma with/without offset, beta with its
// three discretisation schemes, gaussian, exponential, truncated exponential, uniform, simple, constant,
// invariant-mixed, mixture), AbstractDiscreteDistribution, RandomTools::p*/q* behind them.
// Actors: one live object plus up to two copies (clone / assignment) that must stay independent parties.
// Reference model: the partition laws of the statement evaluated on the object's own pProb/qProb/Expectation
// (internal consistency), plus a freshly built twin for history independence.
#include "engine.h"
#include <Bpp/Numeric/Prob/GammaDiscreteDistribution.h>
#include <Bpp/Numeric/Prob/BetaDiscreteDistribution.h>
#include <Bpp/Numeric/Prob/GaussianDiscreteDistribution.h>
#include <Bpp/Numeric/Prob/ExponentialDiscreteDistribution.h>
#include <Bpp/Numeric/Prob/TruncatedExponentialDiscreteDistribution.h>
#include <Bpp/Numeric/Prob/UniformDiscreteDistribution.h>
#include <Bpp/Numeric/Prob/SimpleDiscreteDistribution.h>
#include <Bpp/Numeric/Prob/ConstantDistribution.h>
#include <Bpp/Numeric/Prob/InvariantMixedDiscreteDistribution.h>
#include <Bpp/Numeric/Prob/MixtureOfDiscreteDistributions.h>
#include <Bpp/Numeric/Constraints.h>
#include <Bpp/Numeric/ParameterList.h>
#include <algorithm>
#include <memory>

using namespace dsim;

namespace {

typedef bpp::DiscreteDistributionInterface DD;

enum Fam { GAMMA = 0, GAMMA_OFF, BETA, GAUSS, EXPO, TEXP, UNIF, SIMPLE, CONSTANT, INVMIX, MIXTURE, NFAM };
const char* FAMNAME[] = {"Gamma", "GammaOffset", "Beta", "Gaussian", "Exponential", "TruncExponential", "Uniform", "Simple", "Constant", "Invariant", "Mixture"};
const char* FAMNS[] = {"Gamma.", "Gamma.", "Beta.", "Gaussian.", "Exponential.", "TruncExponential.", "Uniform.", "Simple.", "Constant.", "Invariant.", "Mixture."};
bool continuousFam(int f) { return f <= UNIF; }
// |parent mass over a class - p*M| / M : calibrated >= 100x the worst ratio seen on the unchanged tree (closed-form families: rounding only)
double massTol(int fam) { switch (fam) { case GAUSS: return 1e-3; case GAMMA: return 1e-6; case GAMMA_OFF: case BETA: return 1e-5; default: return 1e-10; } }

// ---- generator-side avoidance of the one defect that stays known (rescaled medians leave their class, see known_findings.json).
// Every other hazard flag of the first version is gone: its defect is repaired in the library (fixes 01-08) and its trigger is
// generated at the full rate.
const double RATE_MEDIAN_WITH_OFFSET = 0.05;          // median-valued classes on a gamma with offset (scaled medians leave their class)
const double MIN_MASS = 1e-3;                         // least share of the parent's mass a restricted domain keeps (quantifier guard); exactly 0 is allowed

struct Spec {
  int fam = GAMMA;
  std::vector<double> par;      // constructor arguments (family order), Simple: values then probabilities
  long n = 4;
  int scheme = 1;               // beta only
  double p = 0.2;               // invariant-mixed: proportion of invariants
  std::vector<Spec> sub;        // invariant-mixed: 1 nested ; mixture: 2..3 nested
  std::vector<double> mixP;     // mixture proportions
};

std::vector<std::string> parNames(const Spec& s) {
  switch (s.fam) {
    case GAMMA: return {"alpha", "beta"};
    case GAMMA_OFF: return {"alpha", "beta", "offset"};
    case BETA: return {"alpha", "beta"};
    case GAUSS: return {"mu", "sigma"};
    case EXPO: return {"lambda"};
    case TEXP: return {"lambda", "tp"};
    case CONSTANT: return {"value"};
    default: return {};
  }
}

std::unique_ptr<DD> build(const Spec& s) {
  size_t n = static_cast<size_t>(s.n);
  switch (s.fam) {
    case GAMMA: return std::unique_ptr<DD>(new bpp::GammaDiscreteDistribution(n, s.par[0], s.par[1]));
    case GAMMA_OFF: return std::unique_ptr<DD>(new bpp::GammaDiscreteDistribution(n, s.par[0], s.par[1], 0.05, 0.05, true, s.par[2]));
    case BETA: return std::unique_ptr<DD>(new bpp::BetaDiscreteDistribution(n, s.par[0], s.par[1], static_cast<short>(s.scheme)));
    case GAUSS: return std::unique_ptr<DD>(new bpp::GaussianDiscreteDistribution(n, s.par[0], s.par[1]));
    case EXPO: return std::unique_ptr<DD>(new bpp::ExponentialDiscreteDistribution(n, s.par[0]));
    case TEXP: return std::unique_ptr<DD>(new bpp::TruncatedExponentialDiscreteDistribution(n, s.par[0], s.par[1]));
    case UNIF: return std::unique_ptr<DD>(new bpp::UniformDiscreteDistribution(static_cast<unsigned int>(n), s.par[0], s.par[1]));
    case SIMPLE: {
      size_t k = s.par.size() / 2;
      std::vector<double> v(s.par.begin(), s.par.begin() + static_cast<long>(k)), p(s.par.begin() + static_cast<long>(k), s.par.end());
      return std::unique_ptr<DD>(new bpp::SimpleDiscreteDistribution(v, p));
    }
    case CONSTANT: return std::unique_ptr<DD>(new bpp::ConstantDistribution(s.par[0]));
    case INVMIX: return std::unique_ptr<DD>(new bpp::InvariantMixedDiscreteDistribution(build(s.sub[0]), s.p, 0.));
    default: {
      std::vector<std::unique_ptr<DD>> v;
      for (auto& x : s.sub) v.push_back(build(x));
      return std::unique_ptr<DD>(new bpp::MixtureOfDiscreteDistributions(v, s.mixP));
    }
  }
}

// the spec a fresh twin is built from: structure of `base`, parameter values read back from the live object
Spec specFromObject(const Spec& base, const DD& top, const std::string& prefix) {
  Spec s = base;
  std::vector<std::string> nm = parNames(base);
  for (size_t i = 0; i < nm.size(); ++i) s.par[i] = top.getParameterValue(prefix + nm[i]);
  if (base.fam == SIMPLE) {
    size_t k = base.par.size() / 2; double rest = 1;
    for (size_t i = 0; i < k; ++i) {
      s.par[i] = top.getParameterValue(prefix + "V" + std::to_string(i + 1));
      if (i + 1 < k) { double th = top.getParameterValue(prefix + "theta" + std::to_string(i + 1)); s.par[k + i] = th * rest; rest *= 1 - th; }
      else s.par[k + i] = rest;
    }
  } else if (base.fam == INVMIX) {
    s.p = top.getParameterValue(prefix + "p");
    s.sub[0] = specFromObject(base.sub[0], top, prefix + FAMNS[base.sub[0].fam]);
  } else if (base.fam == MIXTURE) {
    size_t k = base.sub.size(); double rest = 1;
    for (size_t i = 0; i < k; ++i) {
      if (i + 1 < k) { double th = top.getParameterValue(prefix + "theta" + std::to_string(i + 1)); s.mixP[i] = th * rest; rest *= 1 - th; }
      else s.mixP[i] = rest;
      s.sub[i] = specFromObject(base.sub[i], top, prefix + std::to_string(i + 1) + "_" + FAMNS[base.sub[i].fam]);
    }
  }
  return s;
}
void setAllN(Spec& s, long n) { if (s.fam != SIMPLE && s.fam != CONSTANT) s.n = n; for (auto& x : s.sub) setAllN(x, n); }

template <class T> bool assignAs(DD& dst, const DD& src) {
  T* d = dynamic_cast<T*>(&dst); const T* s = dynamic_cast<const T*>(&src);
  if (!d || !s) return false;
  *d = *s; return true;
}
bool assignDist(int fam, DD& dst, const DD& src) {
  switch (fam) {
    case GAMMA: case GAMMA_OFF: return assignAs<bpp::GammaDiscreteDistribution>(dst, src);
    case BETA: return assignAs<bpp::BetaDiscreteDistribution>(dst, src);
    case GAUSS: return assignAs<bpp::GaussianDiscreteDistribution>(dst, src);
    case EXPO: return assignAs<bpp::ExponentialDiscreteDistribution>(dst, src);
    case TEXP: return assignAs<bpp::TruncatedExponentialDiscreteDistribution>(dst, src);
    case UNIF: return assignAs<bpp::UniformDiscreteDistribution>(dst, src);
    case SIMPLE: return assignAs<bpp::SimpleDiscreteDistribution>(dst, src);
    case CONSTANT: return assignAs<bpp::ConstantDistribution>(dst, src);
    case INVMIX: return assignAs<bpp::InvariantMixedDiscreteDistribution>(dst, src);
    default: return assignAs<bpp::MixtureOfDiscreteDistributions>(dst, src);
  }
}

struct Restr { double lo, hi; bool il, ih; };

struct Snapshot {
  std::vector<double> cats, probs, bounds, pars;
  bool operator==(const Snapshot& o) const {
    auto eq = [](const std::vector<double>& a, const std::vector<double>& b) { return a.size() == b.size() && (a.empty() || std::memcmp(a.data(), b.data(), a.size() * sizeof(double)) == 0); };
    return eq(cats, o.cats) && eq(probs, o.probs) && eq(bounds, o.bounds) && eq(pars, o.pars);
  }
};

struct Party {
  std::unique_ptr<DD> d;
  long n = 0;                    // requested class count (nested count for compounds)
  bool median = false;
  std::vector<Restr> restr;      // accepted restrictions, in order
  bool histOk = true;            // false once the statement is silent about the expected state (a restriction raised)
  bool restrTouched = false;     // restrictToConstraint has been called (even as a no-op some families re-tie parameter constraints)
  std::vector<char> betaSub;     // per nested component: its beta parameters were reached by an accepted update
  bool betaFired = false;        // an accepted update reached a beta distribution's parameters
  bool sawUpdate = false;        // a parameter update has been accepted on this party (or on the one it was copied from)
};

#ifdef C09_CALIBRATE
std::map<std::string, double> g_worst;
struct CalDump { ~CalDump() { for (auto& kv : g_worst) fprintf(stderr, "CAL %-40s %.3g\n", kv.first.c_str(), kv.second); } } g_calDump;
#endif

class Exec {
  const Plan& p; Ctx& ctx;
  Spec spec;
  std::vector<Party> parties;
  bool lookupsBeyondFirst, offsetUpdates, betaFree, medianOffset;
public:
  Exec(const Plan& pl, Ctx& c) : p(pl), ctx(c) {
    lookupsBeyondFirst = true; offsetUpdates = true; betaFree = true;     // repaired defects: full rate
    medianOffset = p.geti("medianOffset") != 0;
  }

  // ------------------------------------------------------------ plan -> spec
  static Spec readSpec(const Plan& p, const std::string& pre, long n) {
    Spec s; s.fam = static_cast<int>(p.geti(pre + "fam")); s.n = n; s.scheme = static_cast<int>(p.geti(pre + "scheme", 1));
    long np = p.geti(pre + "np");
    for (long i = 0; i < np; ++i) s.par.push_back(p.getd(pre + "p" + std::to_string(i)));
    if (s.fam == INVMIX) { s.p = p.getd(pre + "invp", 0.2); s.sub.push_back(readSpec(p, pre + "s0.", n)); }
    if (s.fam == MIXTURE) {
      long k = p.geti(pre + "nsub", 2);
      for (long i = 0; i < k; ++i) { s.sub.push_back(readSpec(p, pre + "s" + std::to_string(i) + ".", n)); s.mixP.push_back(p.getd(pre + "mix" + std::to_string(i))); }
    }
    if (s.fam == SIMPLE) s.n = static_cast<long>(s.par.size() / 2);
    if (s.fam == CONSTANT) s.n = 1;
    return s;
  }

  // ------------------------------------------------------------ numeric check helper
  void num(const std::string& name, const std::string& fam, double err, double tol, const std::string& detail) {
#ifdef C09_CALIBRATE
    double r = err / tol; if (!(r <= g_worst[name + ":" + fam])) g_worst[name + ":" + fam] = r;
    g_worst["COUNT checks:" + name] += 1;
    if (!(r <= 1)) fprintf(stderr, "CALFAIL %s:%s %.3g %s\n", name.c_str(), fam.c_str(), r, detail.c_str());
    return;
#endif
    if (!(err <= tol)) ctx.fail("invariant:" + name, "invariant:" + name + ":" + fam, detail + " (error " + fmtd(err) + " > tolerance " + fmtd(tol) + ")");
  }

  static std::string vecStr(const std::vector<double>& v) { std::string s = "["; for (size_t i = 0; i < v.size() && i < 8; ++i) s += (i ? " " : "") + fmtd(v[i]); if (v.size() > 8) s += " ..."; return s + "]"; }

  Snapshot snap(const DD& d) {
    Snapshot s; s.cats = d.getCategories(); s.probs = d.getProbabilities();
    const bpp::ParameterList& pl = d.getParameters();
    for (size_t i = 0; i < pl.size(); ++i) s.pars.push_back(pl[i].getValue());
    if (continuousFam(spec.fam) && d.getNumberOfCategories() == s.cats.size()) s.bounds = d.getBounds();
    return s;
  }

  std::string famTag(const Spec& s) const {
    std::string t = FAMNAME[s.fam];
    if (s.fam == BETA) t += "-scheme" + std::to_string(s.scheme);
    if (s.fam == INVMIX) t += "-" + std::string(FAMNAME[s.sub[0].fam]);
    return t;
  }

  // ------------------------------------------------------------ invariants of the statement, on one party
  // `order` permutes the reads (read-order perturbation: which derived quantity is read first after an update)
  void checkParty(size_t which, long order) {
    Party& P = parties[which];
    const DD& d = *P.d;
    const std::string fam = famTag(spec);
    const std::string who = "party" + std::to_string(which) + " " + fam;
    std::vector<double> cats, probs, bounds; double lo = 0, hi = 0; size_t n = 0;
    int seq[5] = {0, 1, 2, 3, 4};
    for (int i = 4; i > 0; --i) { int j = static_cast<int>((static_cast<unsigned long>(order) / static_cast<unsigned long>(i + 1) + static_cast<unsigned long>(order)) % static_cast<unsigned long>(i + 1)); std::swap(seq[i], seq[j]); order = order * 7 + 3; }
    for (int r : seq) {
      switch (r) {
        case 0: cats = d.getCategories(); break;
        case 1: probs = d.getProbabilities(); break;
        case 2: n = d.getNumberOfCategories(); break;
        case 3: lo = d.getLowerBound(); hi = d.getUpperBound(); break;
        default: if (continuousFam(spec.fam)) bounds = d.getBounds();
      }
    }
    long invExpected = -1;
    if (spec.fam == INVMIX) {
      // classes of the compound = the invariant plus the nested class values, those the 1e-12 key comparator cannot tell apart sharing one class
      auto* im = dynamic_cast<const bpp::InvariantMixedDiscreteDistribution*>(&d);
      std::vector<double> nc = im ? im->variableSubDistribution().getCategories() : std::vector<double>();
      std::vector<double> keys = {0.0};
      for (double v : nc) { bool dup = false; for (double k : keys) if (std::abs(v - k) <= 1e-12) dup = true; if (!dup) keys.push_back(v); }
      invExpected = static_cast<long>(keys.size());
      if (invExpected < static_cast<long>(nc.size()) + 1 && !nc.empty() && nc[0] != 0) ctx.probe("invariant-nested-values-within-map-precision");
    }
    // class count
    ctx.check(cats.size() == n && probs.size() == n, "invariant:class-count", "invariant:class-count:" + fam, who + ": getNumberOfCategories()=" + std::to_string(n) + " but " + std::to_string(cats.size()) + " class values / " + std::to_string(probs.size()) + " probabilities");
    if (continuousFam(spec.fam)) ctx.check(static_cast<long>(n) == P.n, "invariant:class-count", "invariant:class-count:" + fam, who + ": " + std::to_string(P.n) + " classes requested, " + std::to_string(n) + " present");
    if (spec.fam == INVMIX) ctx.check(static_cast<long>(n) == invExpected && invExpected <= P.n + 1, "invariant:class-count", "invariant:class-count:" + fam, who + ": " + std::to_string(P.n) + " nested classes requested, invariant + nested values give " + std::to_string(invExpected) + " distinct classes, " + std::to_string(n) + " present");
    ctx.check(n >= 1, "invariant:class-count", "invariant:class-count:" + fam, who + ": no class");
    // normalisation
    double sum = 0;
    for (size_t i = 0; i < n; ++i) {
      ctx.check(probs[i] >= 0, "invariant:prob-nonneg", "invariant:prob-nonneg:" + fam, who + ": p[" + std::to_string(i) + "]=" + fmtd(probs[i]));
      sum += probs[i];
    }
    num("prob-sum", fam, std::abs(sum - 1), 1e-9, who + ": probabilities sum to " + fmtd(sum) + " " + vecStr(probs));
    // strictly increasing class values
    for (size_t i = 0; i + 1 < n; ++i)
      ctx.check(cats[i] < cats[i + 1], "invariant:values-increasing", "invariant:values-increasing:" + fam, who + ": class values not strictly increasing at " + std::to_string(i) + " " + vecStr(cats));
    for (size_t i = 0; i < n; ++i) ctx.check(std::isfinite(cats[i]) && std::isfinite(probs[i]), "invariant:finite", "invariant:finite:" + fam, who + ": non-finite class value or probability");
    // cumulative class queries (generic code, every family)
    {
      size_t stride = n > 8 ? n / 4 : 1;
      std::vector<double> pre(n + 1, 0); for (size_t i = 0; i < n; ++i) pre[i + 1] = pre[i] + probs[i];
      for (size_t k = 0; k < n; k += stride) {
        double c = cats[k], tol = 1e-12 * static_cast<double>(n + 1);
        num("cumulative-inf", fam, std::abs(d.getInfCumulativeProbability(c) - pre[k]), tol, who + ": Pr(X<c) for class " + std::to_string(k));
        num("cumulative-iinf", fam, std::abs(d.getIInfCumulativeProbability(c) - pre[k + 1]), tol + 1e-9, who + ": Pr(X<=c) for class " + std::to_string(k));
        num("cumulative-sup", fam, std::abs(d.getSupCumulativeProbability(c) - (pre[n] - pre[k + 1])), tol, who + ": Pr(X>c) for class " + std::to_string(k));
        num("cumulative-ssup", fam, std::abs(d.getSSupCumulativeProbability(c) - (1 - pre[k])), tol + 1e-9, who + ": Pr(X>=c) for class " + std::to_string(k));
      }
    }
    uint64_t sh = 0x9e37 + static_cast<uint64_t>(spec.fam) * 131 + n;
    for (size_t i = 0; i < n; ++i) sh = (sh ^ strHash(hexfloat(cats[i]))) * 1099511628211ULL ^ strHash(hexfloat(probs[i]));
    ctx.state(sh);
    if (!continuousFam(spec.fam)) return;       // compounds: normalisation only (statement)

    // ---- continuous parents: bounds, values inside classes, masses, mean
    if (bounds.size() != n + 1) bounds = d.getBounds();
    ctx.check(bounds.size() == n + 1, "invariant:bounds-count", "invariant:bounds-count:" + fam, who + ": getBounds has " + std::to_string(bounds.size()) + " entries for " + std::to_string(n) + " classes");
    ctx.check(bounds[0] == lo && bounds[n] == hi, "invariant:bounds-ends", "invariant:bounds-ends:" + fam, who + ": getBounds ends differ from getLowerBound/getUpperBound");
    for (size_t i = 0; i + 1 < n; ++i) ctx.check(d.getBound(i) == bounds[i + 1], "invariant:bounds-ends", "invariant:bounds-ends:" + fam, who + ": getBound(i) differs from getBounds()[i+1]");
    for (size_t i = 0; i < n; ++i)
      ctx.check(bounds[i] <= bounds[i + 1], "invariant:bounds-ordered", "invariant:bounds-ordered:" + fam + (i == 0 || i + 1 == n ? ":domain-end" : ":interior"), who + ": bounds not non-decreasing inside the domain at " + std::to_string(i) + " " + vecStr(bounds));
    for (size_t i = 0; i < n; ++i) {
      double eps = 1e-10 * (1 + std::abs(cats[i]));
      bool in = cats[i] >= bounds[i] - eps && cats[i] <= bounds[i + 1] + eps;
#ifdef C09_CALIBRATE
      if (!in) { g_worst[std::string("COUNT value-outside:") + fam + (P.median ? ":median" : ":mean")] += 1; continue; }
#endif
      if (!in) {
        // the one known finding of this clause is the DOCUMENTED rescaling of the class medians (median * expectation / sum of medians / class
        // mass) leaving the class; a median-valued class outside its interval that is NOT that documented value is a different violation
        bool documented = false;
        if (P.median) {
          double minX = d.pProb(lo), ec = (d.pProb(hi) - minX) / static_cast<double>(n), t = 0;
          std::vector<double> q(n); for (size_t k2 = 0; k2 < n; ++k2) { q[k2] = d.qProb(minX + (static_cast<double>(k2) + 0.5) * ec); t += q[k2]; }
          // the value found may be the rescaled median of ANOTHER class (a negative or large factor reorders the values, which are then
          // listed in ascending order), or a rescaled median clamped next to a domain end
          double mean0 = d.Expectation(hi) - d.Expectation(lo), factor = t != 0 ? mean0 / t / ec : 1;
          for (size_t k2 = 0; k2 < n; ++k2) { double want = q[k2] * factor; if (std::abs(cats[i] - want) <= 1e-9 * (1 + std::abs(want))) documented = true; }
          if (std::abs(cats[i] - lo) <= 1e-6 * (1 + std::abs(lo)) || std::abs(cats[i] - hi) <= 1e-6 * (1 + std::abs(hi))) documented = true;
        }
        ctx.fail("invariant:value-in-class", documented ? std::string("invariant:value-in-class:median-scaled") : "invariant:value-in-class:" + fam + (P.median ? ":median" : ":mean"), who + ": class " + std::to_string(i) + " of " + std::to_string(n) + " has value " + fmtd(cats[i]) + " outside its interval [" + fmtd(bounds[i]) + ", " + fmtd(bounds[i + 1]) + "]");
      }
    }
    double Plo = d.pProb(lo), Phi = d.pProb(hi), M = Phi - Plo;
    ctx.check(M >= 0 && M <= 1 + 1e-9, "invariant:domain-mass", "invariant:domain-mass:" + fam, who + ": domain mass " + fmtd(M));
    if (M == 0) { ctx.probe("zero-mass-domain-checked"); return; }      // no parent mass to compare with: the structural laws above are all that is left
    bool equalP = true;
    for (size_t i = 0; i < n; ++i) if (std::abs(probs[i] - 1.0 / static_cast<double>(n)) > 1e-12) equalP = false;
    bool equalScheme = spec.fam != BETA || spec.scheme == 1;
    if (equalScheme) ctx.check(equalP, "invariant:equal-masses", "invariant:equal-masses:" + fam, who + ": equal-probability scheme with unequal probabilities " + vecStr(probs));
    {
      // tolerance = calibrated quantile accuracy of the family (relative to the domain mass) + the effect of rounding the
      // stored bound itself by a few ulps (derived from the operands: matters next to singular end points and large offsets)
      double base = massTol(spec.fam);
      auto wiggle = [&](double b) { double u = 16 * (std::nextafter(std::abs(b), INFINITY) - std::abs(b)); double bl = std::max(lo, b - u), bh = std::min(hi, b + u); return std::abs(d.pProb(bh) - d.pProb(bl)); };
      double prev = Plo, prevW = 0;
      for (size_t i = 0; i < n; ++i) {
        double nx = (i + 1 == n) ? Phi : d.pProb(bounds[i + 1]);
        double w = (i + 1 == n) ? 0 : wiggle(bounds[i + 1]);
        num("class-mass", fam, std::abs((nx - prev) - probs[i] * M), base * M + 1e-12 + prevW + w, who + ": class " + std::to_string(i) + " of " + std::to_string(n) + ": p=" + fmtd(probs[i]) + " but parent mass over [" + fmtd(bounds[i]) + "," + fmtd(bounds[i + 1]) + "] / domain mass = " + fmtd((nx - prev) / M));
        prev = nx; prevW = w;
      }
    }
    if (!P.median && equalScheme) {
      double mean = (d.Expectation(hi) - d.Expectation(lo)) / M, dm = 0, sc = 0;
      for (size_t i = 0; i < n; ++i) { dm += probs[i] * cats[i]; sc += probs[i] * std::abs(cats[i]); }
      // a class whose raw mean (difference of partial expectations / nominal class mass) left its interval is given the interval's
      // midpoint by the library: the telescoping sum that makes the discrete mean exact is then broken (named trigger of a known finding)
      bool midFallback = false;
      for (size_t i = 0; i < n; ++i) if (cats[i] == (bounds[i] + bounds[i + 1]) / 2.) midFallback = true;
      num("mean", midFallback ? fam + ":class-at-midpoint-fallback" : fam, std::abs(dm - mean), 1e-6 * (sc + std::abs(mean)) + 1e-9, who + ": discrete mean " + fmtd(dm) + " vs parent mean over the domain " + fmtd(mean) + " (n=" + std::to_string(n) + ", domain [" + fmtd(lo) + "," + fmtd(hi) + "] of mass " + fmtd(M) + ", " + paramStr(d) + ")");
    }
  }

  static std::string paramStr(const DD& d) {
    std::string r; const bpp::ParameterList& pl = d.getParameters();
    for (size_t i = 0; i < pl.size(); ++i) r += (i ? " " : "") + pl[i].getName() + "=" + fmtd(pl[i].getValue());
    return r;
  }
  void checkAll(long order) { for (size_t i = 0; i < parties.size(); ++i) checkParty(i, order + static_cast<long>(i)); }

  // ------------------------------------------------------------ parent functions: monotone / inverse / derivative relation
  void checkFunctions(Party& P, const Op& o) {
    const DD& d = *P.d; const std::string fam = famTag(spec);
    std::vector<double> xs = d.getCategories();
    std::vector<double> b = d.getBounds();
    double lo = b.front(), hi = b.back();
    for (size_t i = 1; i + 1 < b.size(); ++i) xs.push_back(b[i]);
    double a = xs.front(), z = xs.back();
    for (double x : xs) { a = std::min(a, x); z = std::max(z, x); }
    xs.push_back(a + (z - a) * o.x); xs.push_back(a + (z - a) * o.y);
    std::sort(xs.begin(), xs.end());
    double prevP = -1, prevX = 0, span = (z - a) > 0 ? (z - a) : 1 + std::abs(a);
    for (size_t i = 0; i < xs.size(); ++i) {
      double x = xs[i]; if (!(x >= lo && x <= hi)) continue;
      double px = d.pProb(x);
      ctx.check(px >= -1e-12 && px <= 1 + 1e-9, "invariant:cdf-range", "invariant:cdf-range:" + fam, "pProb(" + fmtd(x) + ")=" + fmtd(px));
      if (prevP >= 0) num("cdf-monotone", fam, prevP - px, 1e-12, "pProb(" + fmtd(prevX) + ")=" + fmtd(prevP) + " > pProb(" + fmtd(x) + ")=" + fmtd(px));
      prevP = px; prevX = x;
      if (px > 1e-3 && px < 1 - 1e-3) {
        double q = d.qProb(px), pq = d.pProb(q);
        num("quantile-inverse-p", fam, std::abs(pq - px), 1e-6, "pProb(qProb(p)) = " + fmtd(pq) + " for p = pProb(" + fmtd(x) + ") = " + fmtd(px));
        num("quantile-inverse-x", fam, std::abs(q - x), 3e-4 * (span + std::abs(x)), "qProb(pProb(x)) = " + fmtd(q) + " for x = " + fmtd(x));
      }
      // derivative relation dE = x dP, as a rigorous bracket over [x-h, x+h]
      double h = 1e-3 * span;
      double x0 = std::max(lo, x - h), x1 = std::min(hi, x + h);
      if (x1 > x0) {
        double dP = d.pProb(x1) - d.pProb(x0), dE = d.Expectation(x1) - d.Expectation(x0);
        double eps = 1e-7 * (1 + std::abs(x0) + std::abs(x1));
        double lower = std::min(x0 * dP, x1 * dP) - eps, upper = std::max(x0 * dP, x1 * dP) + eps;
        double err = dE < lower ? lower - dE : (dE > upper ? dE - upper : 0);
        num("expectation-derivative", fam, err, eps, "Expectation(" + fmtd(x1) + ")-Expectation(" + fmtd(x0) + ") = " + fmtd(dE) + " outside [x0,x1]*(pProb difference " + fmtd(dP) + ")");
      }
    }
  }

  // ------------------------------------------------------------ value lookup
  void lookup(Party& P, const Op& o) {
    const DD& d = *P.d; const std::string fam = famTag(spec);
    std::vector<double> cats = d.getCategories(), b = d.getBounds();
    size_t n = cats.size();
    size_t k = lookupsBeyondFirst ? static_cast<size_t>(o.b) % n : 0;
    if (k > 0) ctx.probe("lookup-beyond-first-class");
    // a point well inside class k
    double l = b[k], u = b[k + 1];
    double x = cats[k];
    if (o.c % 2 == 1) { double ll = std::max(l, cats[k] - (1 + std::abs(cats[k]))), uu = std::min(u, cats[k] + (1 + std::abs(cats[k]))); x = ll + (uu - ll) * (0.1 + 0.8 * o.x); }
    if (!(x > l && x < u) || !(x >= b[0] && x <= b[n])) { ctx.outcome("skip"); return; }
    double got = 0; size_t idx = 0; int st = 0;
    try { got = d.getValueCategory(x); } catch (bpp::Exception&) { st = 1; }
    if (st) ctx.fail("model-mismatch:getValueCategory", "model-mismatch:getValueCategory:raised:" + fam, "getValueCategory(" + fmtd(x) + ") raised for a value inside the domain [" + fmtd(b[0]) + "," + fmtd(b[n]) + "]");
    if (got != cats[k]) ctx.fail("model-mismatch:getValueCategory", std::string("model-mismatch:getValueCategory:wrong-class") + (k == 0 ? ":first" : ":beyond-first"), fam + " n=" + std::to_string(n) + ": getValueCategory(" + fmtd(x) + ") = " + fmtd(got) + " but the value lies in class " + std::to_string(k) + " [" + fmtd(l) + "," + fmtd(u) + "] whose value is " + fmtd(cats[k]));
    if (lookupsBeyondFirst) {
      ctx.probe("lookup-index");
      int ist = 0;
      try { idx = d.getCategoryIndex(x); }
      catch (bpp::Exception&) { ist = 1; }
      catch (std::exception&) { ist = 2; }
      catch (SimViolation&) { throw; }
      catch (...) { ist = 3; }
      if (ist == 3) ctx.fail("foreign-exception:non-std", "foreign-exception:non-std:getCategoryIndex", fam + " n=" + std::to_string(n) + ": getCategoryIndex(" + fmtd(x) + ") threw an object that is not a std::exception (value in class " + std::to_string(k) + ")");
      if (ist) ctx.fail("model-mismatch:getCategoryIndex", "model-mismatch:getCategoryIndex:raised", "getCategoryIndex(" + fmtd(x) + ") raised for a value inside the domain");
      if (idx != k) ctx.fail("model-mismatch:getCategoryIndex", "model-mismatch:getCategoryIndex:wrong-class", fam + " n=" + std::to_string(n) + ": getCategoryIndex(" + fmtd(x) + ") = " + std::to_string(idx) + " but the value lies in class " + std::to_string(k));
    }
    ctx.outcome("read");
  }

  // ------------------------------------------------------------ parameter values
  // maps a unit draw to the regular range of the parameter called `name` (3 decades, log-uniform)
  double regularValue(const std::string& name, double u, long signBit, double current) const {
    std::string base = name; size_t dot = base.find_last_of("._"); if (dot != std::string::npos) base = base.substr(dot + 1);
    auto lg = [&](double a, double b) { return a * std::pow(b / a, u); };
    bool inBeta = name.find("Beta.") != std::string::npos || spec.fam == BETA;
    if (base == "alpha" || base == "beta") {
      if (inBeta && !betaFree) return current <= 1 ? lg(0.1, 1.0) : lg(1.001, 100);   // stay on the same side of 1 (see report: beta domain end points)
      return lg(0.1, 100);
    }
    if (base == "offset") return lg(0.01, 10);
    if (base == "mu" && u < 0.08) return 0;                 // the default location
    if (base == "mu" || base == "value") return (signBit & 1 ? -1 : 1) * lg(0.01, 10);
    if (base == "sigma" || base == "lambda") return lg(0.01, 10);
    if (base == "tp") return lg(0.05, 50);
    if (base == "p") return 0.01 + 0.89 * u;
    if (base.size() > 5 && base.compare(0, 5, "theta") == 0) return 0.05 + 0.9 * u;
    if (base.size() > 1 && base[0] == 'V') return lg(0.01, 10);
    return lg(0.01, 10);
  }
  static bool rejectedValue(const bpp::Parameter& q, double& x) {
    if (!q.hasConstraint()) return false;
    auto ic = std::dynamic_pointer_cast<const bpp::IntervalConstraint>(q.getConstraint());
    if (!ic) return false;
    double l = ic->getLowerBound(), u = ic->getUpperBound();
    if (std::isfinite(l) && l > -1e20) { x = l - 1 - std::abs(l); return true; }
    if (std::isfinite(u) && u < 1e20) { x = u + 1 + std::abs(u); return true; }
    return false;
  }
  static double frac(double v) { return v - std::floor(v); }

  // which parameters may be the target of an update in this run
  std::vector<size_t> updatable(const Party& P) const {
    const DD& d = *P.d;
    std::vector<size_t> r; const bpp::ParameterList& pl = d.getParameters();
    for (size_t i = 0; i < pl.size(); ++i) {
      const std::string& nm = pl[i].getName();
      r.push_back(i);
    }
    return r;
  }

  // ---- quantifier guard: a restricted domain must keep a regular share of the parent's mass (>= MIN_MASS) under the
  // candidate parameter values; updates / restrictions that would leave less are skipped (zero-mass domains: see report)
  static double nestedMass(const DD& d, const Spec& s, double lo, double hi) {
    if (s.fam == INVMIX) { auto* x = dynamic_cast<const bpp::InvariantMixedDiscreteDistribution*>(&d); return x ? nestedMass(x->variableSubDistribution(), s.sub[0], lo, hi) : 0; }
    if (s.fam == MIXTURE) {
      auto* x = dynamic_cast<const bpp::MixtureOfDiscreteDistributions*>(&d); if (!x) return 0;
      double m = 1; for (size_t i = 0; i < s.sub.size(); ++i) m = std::min(m, nestedMass(x->nDistribution(i), s.sub[i], lo, hi));
      return m;
    }
    if (!continuousFam(s.fam)) return 1;
    double l = std::max(lo, d.getLowerBound()), h = std::min(hi, d.getUpperBound());
    if (!(l < h)) return 0;
    return d.pProb(h) - d.pProb(l);
  }
  bool massGuard = true, zeroMassTaken = false;
  bool restricted(const Party& P) const { return !P.restr.empty() || !P.histOk || P.restrTouched; }
  // mass the current domain of P would keep if the parameters named in `cand` took the given values
  double massAfter(const Party& P, const bpp::ParameterList& cand) {
    if (!continuousFam(spec.fam)) return 1;
    Spec fs = specFromObject(spec, *P.d, "");
    std::vector<std::string> nm = parNames(spec); std::string ns = P.d->getNamespace();
    for (size_t i = 0; i < nm.size(); ++i) if (cand.hasParameter(ns + nm[i])) fs.par[i] = cand.parameter(ns + nm[i]).getValue();
    fs.n = 1;
    std::unique_ptr<DD> sc = build(fs);
    double lo = P.d->getLowerBound(), hi = P.d->getUpperBound();
    if (spec.fam == TEXP) hi = sc->getUpperBound();     // the truncation point redefines the upper end
    lo = std::max(lo, sc->getLowerBound());
    if (!(lo < hi)) return 0;
    return sc->pProb(hi) - sc->pProb(lo);
  }
  bool updateKeepsMass(const Party& P, const bpp::ParameterList& cand) {
    if (!massGuard || !restricted(P)) return true;
    if (!continuousFam(spec.fam)) {
      // compounds: after a restriction only their own weights (p, theta) are updated
      for (size_t i = 0; i < cand.size(); ++i) { std::string b = cand[i].getName(); size_t dot = b.find_last_of("._"); if (dot != std::string::npos) b = b.substr(dot + 1); if (!(b == "p" || b.compare(0, 5, "theta") == 0)) return false; }
      return true;
    }
    double m = massAfter(P, cand);
    if (m == 0 && (spec.fam == GAMMA || spec.fam == GAUSS || spec.fam == EXPO)) { ctx.probe("zero-mass-domain-update"); zeroMassTaken = true; return true; }   // uniform fallback of the library
    return m >= MIN_MASS;
  }

  // 0 returned, 1 ConstraintException, 2 ParameterNotFoundException, 3 other bpp::Exception
  template <class F> int attempt(F call) {
    try { call(); return 0; }
    catch (bpp::ConstraintException&) { return 1; }
    catch (bpp::ParameterNotFoundException&) { return 2; }
    catch (bpp::Exception&) { return 3; }
  }

  void afterUpdate(Party& P, const std::string& opName, int got, int want, const Snapshot& before) {
    static const char* N[] = {"returns", "ConstraintException", "ParameterNotFoundException", "bpp::Exception"};
    if (got == 1 && want == 0 && !continuousFam(spec.fam) && constrainsParameters(spec) && restricted(P)) {
      // a nested family narrowed its own parameter constraint during a restriction; the compound's copy of the parameter does not
      // know: the update is refused from inside.  Outside this statement (it is not an accepted change): validity is still checked.
      P.histOk = false; ctx.probe("compound-update-refused-by-nested-constraint"); ctx.outcome("refused"); return;
    }
    if (got != want) ctx.fail("model-mismatch:" + opName, "model-mismatch:" + opName + ":" + N[want] + "-expected", opName + ": expected " + N[want] + ", observed " + N[got]);
    if (got != 0) {
      Snapshot after = snap(*P.d);
      if (!(after == before)) ctx.fail("invariant:rejected-update-changed-state", "invariant:rejected-update-changed-state:" + opName, opName + " raised but the partition or the parameter values changed: " + vecStr(before.cats) + " -> " + vecStr(after.cats));
      ctx.fault("reject@k"); ctx.rejected();
    } else {
      P.sawUpdate = true;
      // the domain object keeps only the intersection of support and restrictions: once the offset moves under a restriction the
      // library cannot tell the two apart any more, so the expected content is not compared with a twin (validity still is)
      // a twin would have to pass through restricted domains with a last ulp of mass on its way to the zero-mass one (outside the quantifier guard)
      if (zeroMassTaken) { P.histOk = false; zeroMassTaken = false; }
      if (touchesOffset && restricted(P)) { P.histOk = false; ctx.probe("offset-moved-under-restriction"); }
      if (touchesBeta) { P.betaFired = true; P.betaSub.resize(spec.sub.size(), 0); for (size_t k : touchedSubs) if (k < P.betaSub.size()) P.betaSub[k] = 1; }
      if (spec.fam == GAMMA_OFF && !restricted(P)) {
        double off = P.d->getParameterValue("offset"), l = P.d->getLowerBound();
        if (l != off) ctx.fail("invariant:domain-follows-offset", "invariant:domain-follows-offset:GammaOffset", opName + " moved the offset to " + fmtd(off) + " but the domain still starts at " + fmtd(l) + " (the parent's support starts at the offset)");
      }
      ctx.ok();
    }
  }
  bool touchesBeta = false, touchesOffset = false;
  static bool isOffsetParam(const std::string& nm) { return nm.size() >= 6 && nm.compare(nm.size() - 6, 6, "offset") == 0; }
  std::vector<size_t> touchedSubs;
  bool isBetaParam(const std::string& fullName) {
    if (spec.fam == BETA) return true;
    size_t p = fullName.find("Beta."); if (p == std::string::npos) return false;
    size_t sub = 0;
    if (spec.fam == MIXTURE && p >= 2 && fullName[p - 1] == '_' && isdigit(static_cast<unsigned char>(fullName[p - 2]))) sub = static_cast<size_t>(fullName[p - 2] - '1');
    touchedSubs.push_back(sub);
    return true;
  }

  void opSet(Party& P, const Op& o) {
    DD& d = *P.d;
    std::vector<size_t> upd = updatable(P);
    if (upd.empty()) { ctx.outcome("skip"); return; }
    const bpp::ParameterList& pl = d.getParameters();
    const bpp::Parameter& q = pl[upd[static_cast<size_t>(o.a) % upd.size()]];
    std::string nm = d.getParameterNameWithoutNamespace(q.getName());
    double x = regularValue(q.getName(), o.x, o.c, q.getValue());
    bool wantReject = false;
    if (o.d == 1) { double r; if (rejectedValue(q, r)) { x = r; wantReject = true; } }
    if (o.d == 2) nm = "nosuch";
    int want = o.d == 2 ? 2 : ((q.hasConstraint() && !q.getConstraint()->isCorrect(x)) ? 1 : 0);
    if (want == 1 && !wantReject) ctx.probe("regular-value-rejected-by-narrowed-constraint");
    if (want == 0) { bpp::ParameterList cand; cand.addParameter(bpp::Parameter(q.getName(), x)); if (!updateKeepsMass(P, cand)) { ctx.probe("update-skipped-mass-guard"); ctx.outcome("skip"); return; } }
    touchedSubs.clear(); touchesBeta = isBetaParam(q.getName()); touchesOffset = isOffsetParam(q.getName());
    Snapshot before = snap(d);
    int got = attempt([&] { d.setParameterValue(nm, x); });
    if (o.d == 2) ctx.probe("absent-parameter-name");
    afterUpdate(P, "setParameterValue", got, want, before);
  }

  void opBulk(Party& P, const Op& o) {
    DD& d = *P.d;
    std::vector<size_t> upd = updatable(P);
    const bpp::ParameterList& pl = d.getParameters();
    if (upd.empty()) { ctx.outcome("skip"); return; }
    long kind = o.d % 3;       // 0 setParametersValues 1 matchParametersValues 2 setAllParametersValues
    bpp::ParameterList src; bool anyReject = false; size_t included = 0; touchesBeta = false; touchesOffset = false; touchedSubs.clear();
    long badPos = o.c % static_cast<long>(upd.size() + 2) - 1;    // -1 and size: none
    std::vector<bool> isUpd(pl.size(), false); for (size_t i : upd) isUpd[i] = true;
    size_t rank = 0; bool missing = false;
    for (size_t i = 0; i < pl.size(); ++i) {
      const bpp::Parameter& q = pl[i];
      double x = q.getValue();
      if (isUpd[i]) {
        bool take = kind == 2 || ((o.b >> rank) & 1);
        if (take) {
          x = regularValue(q.getName(), frac(o.x + 0.6180339887 * static_cast<double>(rank + 1)), o.a + static_cast<long>(rank), q.getValue());
          if (static_cast<long>(rank) == badPos) { double r; if (rejectedValue(q, r)) x = r; }
        }
        ++rank;
        if (!take) continue;
      } else if (kind != 2) continue;
      if (kind == 2 && ((o.b >> 20) & 1) && i == static_cast<size_t>(o.a) % pl.size()) { missing = true; continue; }   // absent item
      if (q.hasConstraint() && !q.getConstraint()->isCorrect(x)) anyReject = true;
      src.addParameter(bpp::Parameter(q.getName(), x));
      if (x != q.getValue() && isBetaParam(q.getName())) touchesBeta = true;
      if (isOffsetParam(q.getName())) touchesOffset = true;
      ++included;
    }
    if ((o.b >> 21) & 1) { src.addParameter(bpp::Parameter("foreign.name", 1.0)); ctx.probe("bulk-with-foreign-name"); }
    if (!anyReject && !missing && !updateKeepsMass(P, src)) { ctx.probe("update-skipped-mass-guard"); ctx.outcome("skip"); return; }
    Snapshot before = snap(d);
    int got = -1;
    try {
      got = attempt([&] { if (kind == 0) d.setParametersValues(src); else if (kind == 1) d.matchParametersValues(src); else d.setAllParametersValues(src); });
    } catch (SimViolation&) { throw; }
    static const char* KN[] = {"setParametersValues", "matchParametersValues", "setAllParametersValues"};
    int want = anyReject ? 1 : (missing ? 2 : 0);
    if (missing && anyReject && (got == 1 || got == 2)) want = got;     // both faults present: either report is fine
    if (got != 0 && anyReject && included > 1) ctx.probe("bulk-rejected-with-other-entries");
    if (missing) ctx.probe("absent-parameter-name");
    afterUpdate(P, KN[kind], got, want, before);
  }

  // ------------------------------------------------------------ restriction to a sub-interval of the current domain
  void opRestrict(Party& P, const Op& o) {
    DD& d = *P.d;
    std::vector<double> cats = d.getCategories();
    double lo = d.getLowerBound(), hi = d.getUpperBound();
    if (!(lo < hi)) { ctx.outcome("skip"); return; }
    double a = cats.front(), z = cats.back();
    double span = z > a ? z - a : 1 + std::abs(a);
    double A = std::max(lo, a - 0.5 * span), B = std::min(hi, z + 0.5 * span);
    if (!(B > A)) { ctx.outcome("skip"); return; }
    long mode = o.c % 4;                      // 0 both ends, 1 lower only, 2 upper only, 3 a superset of the domain (no-op)
    double nl = A + 0.45 * o.x * (B - A), nh = B - 0.45 * o.y * (B - A);
    bool il = (o.b & 1) != 0, ih = (o.b & 2) != 0;
    std::unique_ptr<bpp::IntervalConstraint> ic;
    Restr r;
    if (mode == 1) { ic.reset(new bpp::IntervalConstraint(true, nl, il)); r = Restr{nl, INFINITY, il, false}; }
    else if (mode == 2) { ic.reset(new bpp::IntervalConstraint(false, nh, ih)); r = Restr{-INFINITY, nh, false, ih}; }
    else if (mode == 3) { ic.reset(new bpp::IntervalConstraint(lo - 1 - std::abs(lo), hi + 1 + std::abs(hi), true, true)); r = Restr{lo - 1 - std::abs(lo), hi + 1 + std::abs(hi), true, true}; ctx.probe("restriction-superset-noop"); }
    else { ic.reset(new bpp::IntervalConstraint(nl, nh, il, ih)); r = Restr{nl, nh, il, ih}; }
    if (mode != 3 && nestedMass(d, spec, std::isfinite(r.lo) ? r.lo : -INFINITY, std::isfinite(r.hi) ? r.hi : INFINITY) < MIN_MASS) { ctx.probe("restriction-skipped-mass-guard"); ctx.outcome("skip"); return; }
    Snapshot before = snap(d);
    P.restrTouched = true;
    int got = attempt([&] { d.restrictToConstraint(*ic); });
    if (got == 0) {
      if (mode == 3) { Snapshot after = snap(d); ctx.check(after == before || !P.histOk, "invariant:noop-restriction-changed-state", "invariant:noop-restriction-changed-state:" + famTag(spec), "restriction to a superset of the domain changed the partition"); }
      else {
        P.restr.push_back(r);
        if (continuousFam(spec.fam)) {
          double l2 = d.getLowerBound(), h2 = d.getUpperBound();
          double wl = std::max(lo, std::isfinite(r.lo) ? r.lo : lo), wh = std::min(hi, std::isfinite(r.hi) ? r.hi : hi);
          ctx.check(l2 == wl && h2 == wh, "invariant:restricted-domain", "invariant:restricted-domain:" + famTag(spec), "domain after restriction is [" + fmtd(l2) + "," + fmtd(h2) + "], expected [" + fmtd(wl) + "," + fmtd(wh) + "]");
        }
        if (P.restr.size() >= 2) ctx.probe("nested-restriction");
      }
      ctx.ok();
    } else {
      // the statement is silent on restrictions a family refuses: the partition must stay valid (checked by the caller),
      // the expected content is no longer known
      P.histOk = false; ctx.probe("restriction-refused"); ctx.outcome("refused");
    }
  }

  // ------------------------------------------------------------ history independence
  void opHist(Party& P, size_t which, const Op& o) {
    if (!P.histOk) { ctx.outcome("skip"); return; }
    const std::string fam = famTag(spec);
    Spec fs = specFromObject(spec, *P.d, "");
    setAllN(fs, P.n);
    bool viaSet = (o.c % 2) == 1;
    if (hasBeta(spec) && !betaFree) viaSet = P.betaFired;     // same route as the live object (see report: beta domain end points)
    std::unique_ptr<DD> f;
    long order = o.b % 3;
    if (viaSet && order == 0) order = 1;   // restrictions only after the final values: under the twin's provisional values the sub-interval may carry no mass
    try {
      if (viaSet) {
        // twin built with other parameter values and class count, then given the final ones through the update path
        twinBetaSub = &P.betaSub;
        Spec other = perturbed(fs);
        f = build(other);
        if (order == 0) applyRestr(*f, P);
        if (order != 2) f->setMedian(P.median);
        bpp::ParameterList pl = P.d->getParameters();
        std::string ns = P.d->getNamespace(), base = FAMNS[spec.fam];
        if (ns != base) f->setNamespace(ns);
        if (pl.size() > 0) f->setParametersValues(pl);
        if (order != 0) applyRestr(*f, P);
        if (order == 2) f->setMedian(P.median);
        f->setNumberOfCategories(static_cast<size_t>(P.n));
      } else {
        f = build(fs);
        if (order == 0) { applyRestr(*f, P); f->setMedian(P.median); }
        else { f->setMedian(P.median); applyRestr(*f, P); }
      }
    } catch (bpp::Exception& e) {
      ctx.fail("model-mismatch:history-twin", "model-mismatch:history-twin:raised:" + fam, std::string("building the fresh twin raised: ") + e.what());
    }
    if (P.sawUpdate || !P.restr.empty()) ctx.probe("history-twin-after-updates");
    std::vector<double> c1 = P.d->getCategories(), c2 = f->getCategories(), p1 = P.d->getProbabilities(), p2 = f->getProbabilities();
    double l1 = P.d->getLowerBound(), l2 = f->getLowerBound(), h1 = P.d->getUpperBound(), h2 = f->getUpperBound();
    std::string who = "party" + std::to_string(which) + " " + fam + (viaSet ? " (twin: built elsewhere then updated)" : " (twin: constructed with the final values)");
    if (l1 != l2 || h1 != h2) ctx.fail("invariant:history-independence", "invariant:history-independence:domain:" + fam, who + ": domain [" + fmtd(l1) + "," + fmtd(h1) + "] vs fresh twin [" + fmtd(l2) + "," + fmtd(h2) + "]");
    ctx.check(c1.size() == c2.size(), "invariant:history-independence", "invariant:history-independence:class-count:" + fam, who + ": " + std::to_string(c1.size()) + " classes vs fresh twin " + std::to_string(c2.size()));
    double span = std::abs(c1.back() - c1.front());
    for (size_t i = 0; i < c1.size(); ++i) {
      num("history-independence:values", fam, std::abs(c1[i] - c2[i]), 1e-10 * (std::abs(c1[i]) + std::abs(c2[i])) + 1e-13 * span + 1e-300, who + ": class " + std::to_string(i) + " value " + fmtd(c1[i]) + " vs fresh twin " + fmtd(c2[i]) + " " + vecStr(c1) + " / " + vecStr(c2));
      num("history-independence:probabilities", fam, std::abs(p1[i] - p2[i]), 1e-10 * (p1[i] + p2[i]) + 1e-15, who + ": class " + std::to_string(i) + " probability " + fmtd(p1[i]) + " vs fresh twin " + fmtd(p2[i]));
    }
    if (continuousFam(spec.fam)) {
      std::vector<double> b1 = P.d->getBounds(), b2 = f->getBounds();
      for (size_t i = 0; i < b1.size() && i < b2.size(); ++i)
        num("history-independence:bounds", fam, std::abs(b1[i] - b2[i]), 1e-10 * (std::abs(b1[i]) + std::abs(b2[i])) + 1e-13 * span + 1e-300, who + ": bound " + std::to_string(i) + " " + fmtd(b1[i]) + " vs fresh twin " + fmtd(b2[i]));
    }
    ctx.outcome("read");
  }
  static bool constrainsParameters(const Spec& s) { if (s.fam == TEXP || s.fam == SIMPLE || s.fam == CONSTANT) return true; for (auto& x : s.sub) if (constrainsParameters(x)) return true; return false; }
  static bool hasFixedCount(const Spec& s) { if (s.fam == SIMPLE || s.fam == CONSTANT) return true; for (auto& x : s.sub) if (hasFixedCount(x)) return true; return false; }
  static bool hasBeta(const Spec& s) { if (s.fam == BETA) return true; for (auto& x : s.sub) if (hasBeta(x)) return true; return false; }
  const std::vector<char>* twinBetaSub = nullptr;
  Spec perturbed(const Spec& s) const {
    return perturbed1(s);
  }
  static void restoreN(Spec& o, const Spec& s) { o.n = s.n; for (size_t i = 0; i < o.sub.size(); ++i) restoreN(o.sub[i], s.sub[i]); }
  Spec perturbed1(const Spec& s) const {
    Spec o = s;
    if (o.fam != SIMPLE && o.fam != CONSTANT && o.fam != UNIF) { for (auto& v : o.par) v = v * 1.37 + 0.011; o.n = s.n == 3 ? 5 : 3; }
    if (o.fam == UNIF) o.n = s.n == 3 ? 5 : 3;
    if (o.fam == CONSTANT) o.par[0] = o.par[0] * 1.37 + 0.011;
    if (o.fam == SIMPLE) { size_t k = o.par.size() / 2; for (size_t i = 0; i < k; ++i) o.par[i] = o.par[i] * 1.37 + 0.011; }
    if (o.fam == BETA) for (size_t i = 0; i < 2; ++i) o.par[i] = s.par[i] <= 1 ? std::min(1.0, s.par[i] * 1.1) : s.par[i] * 1.37;
    if (o.fam == INVMIX) o.p = 0.5 * s.p + 0.1;
    for (size_t i = 0; i < o.sub.size(); ++i) {
      bool keep = s.sub[i].fam == BETA && !betaFree && !(twinBetaSub && i < twinBetaSub->size() && (*twinBetaSub)[i]);   // a nested beta the live object never updated stays on the constructor route
      if (!keep) o.sub[i] = perturbed1(s.sub[i]); else { long nn = o.sub[i].n; o.sub[i] = s.sub[i]; (void)nn; }
    }
    return o;
  }
  void applyRestr(DD& f, const Party& P) {
    for (const Restr& r : P.restr) {
      if (!std::isfinite(r.hi)) { bpp::IntervalConstraint ic(true, r.lo, r.il); f.restrictToConstraint(ic); }
      else if (!std::isfinite(r.lo)) { bpp::IntervalConstraint ic(false, r.hi, r.ih); f.restrictToConstraint(ic); }
      else { bpp::IntervalConstraint ic(r.lo, r.hi, r.il, r.ih); f.restrictToConstraint(ic); }
    }
  }

  // ------------------------------------------------------------ main loop
  void run() {
    spec = readSpec(p, "", p.geti("n", 4));
    {
      Party P; P.d = build(spec); P.n = spec.fam == INVMIX || spec.fam == MIXTURE ? p.geti("n", 4) : spec.n; parties.push_back(std::move(P));
      checkAll(0);
    }
    for (size_t i = 0; i < p.ops.size(); ++i) {
      const Op& o = p.ops[i];
      ctx.beginStep(static_cast<long>(i), o);
      size_t np = parties.size();
      size_t w = static_cast<size_t>(o.a / 16) % np;        // acting party (o.a's low bits select the parameter)
      if (o.k == "copy" || o.k == "drop" || o.k == "hist" || o.k == "ncat" || o.k == "ncatfixed" || o.k == "medianzero" || o.k == "median" || o.k == "restrict" || o.k == "ns" || o.k == "fun" || o.k == "lookup") w = static_cast<size_t>(o.a) % np;
      // independence of the other parties: snapshot before, compare after
      std::vector<Snapshot> others;
      for (size_t j = 0; j < np; ++j) others.push_back(j == w ? Snapshot() : snap(*parties[j].d));
      Party& P = parties[w];
      bool mutating = true;
      if (o.k == "set" || o.k == "zeromass") { massGuard = o.k == "set"; Op q = o; q.a = o.a % 16; q.d = o.d % 4; opSet(P, q); }
      else if (o.k == "bulk") { Op q = o; q.a = o.a % 16; q.d = o.d % 4; opBulk(P, q); }
      else if (o.k == "ncat" || o.k == "ncatfixed") {
        // class count of Simple/Constant is fixed by construction; a mixture forwards the call to them (memory error, see report):
        // only the hand-written probe op "ncatfixed" does that
        {
          long nn = 1 + (o.b - 1 + 32) % 32;
          P.d->setNumberOfCategories(static_cast<size_t>(nn));
          if (spec.fam != SIMPLE && spec.fam != CONSTANT) P.n = nn; else ctx.probe("class-count-request-on-fixed-count-family");
          if (spec.fam == MIXTURE && hasFixedCount(spec)) ctx.probe("class-count-request-on-fixed-count-family");
          if (nn == 1) ctx.probe("single-class"); if (nn >= 24) ctx.probe("many-classes");
          ctx.ok();
        }
      }
      else if (o.k == "median" && spec.fam == GAMMA_OFF && !medianOffset) { ctx.outcome("skip"); mutating = false; }
      else if (o.k == "median" || o.k == "medianzero") { bool m = o.b % 2 == 1; P.d->setMedian(m); P.median = m; if (m) ctx.probe("median-on"); ctx.ok(); }
      else if (o.k == "restrict") opRestrict(P, o);
      else if (o.k == "ns") {
        static const char* NS[] = {"X.", "", "dist1.", "a.b."};
        P.d->setNamespace(NS[o.b % 4]); ctx.probe("namespace-changed"); ctx.ok();
      }
      else if (o.k == "copy") {
        if (np < 3) {
          Party C; C.d.reset(P.d->clone()); C.n = P.n; C.median = P.median; C.restr = P.restr; C.histOk = P.histOk; C.restrTouched = P.restrTouched; C.sawUpdate = P.sawUpdate; C.betaFired = P.betaFired; C.betaSub = P.betaSub;
          parties.push_back(std::move(C));
        } else {
          size_t dst = (w + 1 + static_cast<size_t>(o.b) % (np - 1)) % np;
          Party& D = parties[dst];
          if (!assignDist(spec.fam, *D.d, *P.d)) ctx.fail("harness", "harness:assign-type", "assignment between parties of different dynamic type");
          D.n = P.n; D.median = P.median; D.restr = P.restr; D.histOk = P.histOk; D.restrTouched = P.restrTouched; D.sawUpdate = P.sawUpdate; D.betaFired = P.betaFired; D.betaSub = P.betaSub;
          others[dst] = Snapshot(); others[dst] = snap(*D.d);
          ctx.probe("assigned");
        }
        ctx.probe("copy-made"); ctx.ok();
      }
      else if (o.k == "drop") {
        mutating = false;
        if (np > 1) { parties.erase(parties.begin() + static_cast<long>(w)); others.erase(others.begin() + static_cast<long>(w)); ctx.probe("source-destroyed"); ctx.ok(); w = parties.size(); }
        else ctx.outcome("skip");
      }
      else if (o.k == "hist") { mutating = false; opHist(P, w, o); }
      else if (o.k == "fun") { mutating = false; if (continuousFam(spec.fam)) { checkFunctions(P, o); ctx.outcome("read"); } else ctx.outcome("skip"); }
      else if (o.k == "lookup") { mutating = false; if (continuousFam(spec.fam)) lookup(P, o); else ctx.outcome("skip"); }
      else ctx.fail("harness", "harness:unknown-op", o.k);
      // other parties untouched
      for (size_t j = 0; j < parties.size() && j < others.size(); ++j) {
        if (j == w) continue;
        Snapshot now = snap(*parties[j].d);
        if (!(now == others[j])) ctx.fail("invariant:copy-independence", "invariant:copy-independence:" + o.k, "party" + std::to_string(j) + " changed while " + o.k + " acted on party" + std::to_string(w));
      }
      long order = o.d / 4;
      if (mutating && order % 120 != 0) ctx.fault("read-order");
      checkAll(mutating ? order : 0);
    }
  }
};

// ================================================================ generator
void putSpec(Plan& p, const std::string& pre, const Spec& s) {
  p.cfg[pre + "fam"] = s.fam; p.cfg[pre + "scheme"] = s.scheme; p.cfg[pre + "np"] = static_cast<long>(s.par.size());
  for (size_t i = 0; i < s.par.size(); ++i) p.cfgd[pre + "p" + std::to_string(i)] = s.par[i];
  if (s.fam == INVMIX) { p.cfgd[pre + "invp"] = s.p; putSpec(p, pre + "s0.", s.sub[0]); }
  if (s.fam == MIXTURE) {
    p.cfg[pre + "nsub"] = static_cast<long>(s.sub.size());
    for (size_t i = 0; i < s.sub.size(); ++i) { putSpec(p, pre + "s" + std::to_string(i) + ".", s.sub[i]); p.cfgd[pre + "mix" + std::to_string(i)] = s.mixP[i]; }
  }
}

Spec drawBasic(Rng& rng, int fam) {
  Spec s; s.fam = fam;
  switch (fam) {
    case GAMMA: s.par = {rng.logUniform(0.1, 100), rng.logUniform(0.1, 100)}; break;
    case GAMMA_OFF: s.par = {rng.logUniform(0.1, 100), rng.logUniform(0.1, 100), rng.logUniform(0.01, 10)}; break;
    case BETA: s.par = {rng.logUniform(0.1, 100), rng.logUniform(0.1, 100)}; s.scheme = static_cast<int>(rng.range(1, 3)); break;
    case GAUSS: s.par = {(rng.chance(0.5) ? -1 : 1) * rng.logUniform(0.01, 10), rng.logUniform(0.01, 10)}; if (rng.chance(0.1)) s.par[0] = 0; break;
    case EXPO: s.par = {rng.logUniform(0.01, 10)}; break;
    case TEXP: s.par = {rng.logUniform(0.01, 10), rng.logUniform(0.05, 50)}; break;
    case UNIF: { double a = (rng.chance(0.3) ? -1 : 1) * rng.logUniform(0.01, 10); s.par = {a, a + rng.logUniform(0.01, 10)}; break; }
    case SIMPLE: {
      long k = rng.range(1, 6); std::vector<double> v, pr; double x = rng.logUniform(0.01, 1), rest = 1;
      for (long i = 0; i < k; ++i) { v.push_back(x); x += rng.logUniform(0.01, 3); }
      for (long i = 0; i < k; ++i) { double q = i + 1 == k ? rest : rest * rng.real(0.1, 0.8); pr.push_back(q); rest -= q; }
      s.par = v; s.par.insert(s.par.end(), pr.begin(), pr.end());
      break;
    }
    default: s.par = {(rng.chance(0.3) ? -1 : 1) * rng.logUniform(0.01, 10)};
  }
  return s;
}

class C09 : public Harness {
public:
  const char* id() const override { return "C09"; }
  HarnessInfo info() const override {
    HarnessInfo i;
    i.real = {"bpp::GammaDiscreteDistribution (with and without offset parameter)", "bpp::BetaDiscreteDistribution (equal-probability, equal-interval, equal-probability-when-possible)", "bpp::GaussianDiscreteDistribution", "bpp::ExponentialDiscreteDistribution", "bpp::TruncatedExponentialDiscreteDistribution", "bpp::UniformDiscreteDistribution", "bpp::SimpleDiscreteDistribution", "bpp::ConstantDistribution", "bpp::InvariantMixedDiscreteDistribution", "bpp::MixtureOfDiscreteDistributions", "bpp::AbstractDiscreteDistribution", "bpp::RandomTools p*/q* functions", "bpp::IntervalConstraint / Parameter / ParameterList (update and restriction routes)"};
    i.stub = {};
    i.rule = "plans: one family per run (compound families wrap seeded basic ones), seeded history of parameter updates (single / bulk, accepted and rejected), class-count changes 1..32, median toggles, nested restrictions, copies/assignments/destroyed sources, namespace changes, interleaved reads, lookups, parent-function probes and fresh-twin comparisons; invariants of the statement evaluated on every live party after every step; non-trivial = >=3 accepted state-changing steps and >=1 fault (rejected update or permuted read order) fired; distinct = distinct fingerprint of the executed op-kind/outcome sequence";
    i.simTime = "steps (no clock in this component)";
    i.faultKinds = {"reject@k", "read-order"};
    i.probeNames = {"single-class", "many-classes", "median-on", "nested-restriction", "restriction-refused", "restriction-superset-noop", "copy-made", "assigned", "source-destroyed", "namespace-changed", "absent-parameter-name", "bulk-rejected-with-other-entries", "bulk-with-foreign-name", "history-twin-after-updates", "lookup-beyond-first-class", "lookup-index", "regular-value-rejected-by-narrowed-constraint", "zero-mass-domain-checked", "class-count-request-on-fixed-count-family", "offset-moved-under-restriction"};
    i.tolerances["prob-sum"] = "|sum p - 1| <= 1e-9 (statement)";
    i.tolerances["class-mass"] = "|pProb(b[i+1]) - pProb(b[i]) - p[i]*M| <= t*M + 1e-12 + |pProb(b+16ulp) - pProb(b-16ulp)| at both class ends; M = domain mass; t = 1e-10 closed-form families, 1e-6 gamma, 1e-5 gamma+offset and beta, 1e-3 gaussian (quantile accuracy of the library, >= 100x the worst unchanged-tree ratio over 48k runs)";
    i.tolerances["mean"] = "|sum p*c - (E(hi)-E(lo))/M| <= 1e-6*(sum p|c| + |mean|) + 1e-9";
    i.tolerances["value-in-class"] = "b[i] - 1e-10(1+|c|) <= c[i] <= b[i+1] + 1e-10(1+|c|)";
    i.tolerances["history-independence"] = "1e-10 relative on class values, probabilities and bounds (+1e-13 of the value span)";
    i.tolerances["quantile-inverse"] = "|pProb(qProb(p)) - p| <= 1e-6 ; |qProb(pProb(x)) - x| <= 3e-4*(span+|x|), p in [1e-3, 1-1e-3]";
    i.tolerances["expectation-derivative"] = "E(x1)-E(x0) inside [min,max](x0,x1)*(P(x1)-P(x0)) widened by 1e-7*(1+|x0|+|x1|) (mean-value bracket, no density needed)";
    i.tolerances["cumulative"] = "1e-12*(n+1) (+1e-9 for the two queries computed as 1 - sum)";
    i.assumptions = {"accuracy of pProb/qProb/Expectation against an external reference is not asserted (C08, not applicable): only their mutual consistency",
                     "compound families (simple, constant, invariant-mixed, mixture): class count consistency, normalisation, strictly increasing values, cumulative queries, copy independence and history independence; bounds/masses/mean/lookup are asserted for continuous parents only (statement: 'obey the same normalisation')",
                     "setNumberOfCategories on Simple and Constant distributions (directly or through a mixture) must leave their class count unchanged",
                     "equal-interval classes (beta scheme 2, and scheme 3 when it falls back) carry mid-point values: the mean relation is asserted for the equal-probability scheme only",
                     "a restriction a family refuses with a bpp::Exception is outside the statement: the partition must stay valid, its content is no longer compared with a fresh twin",
                     "parameters stay in the regular range (shapes in [0.1,100], rates/scales in [0.01,10], locations +-[0.01,10], truncation point in [0.05,50]); a gaussian location of exactly 0 (the default) is drawn in about 10% of gaussian runs",
                     "quantifier guard: restrictions and parameter updates after a restriction are applied only when the (restricted) domain keeps at least 1e-3 of the parent's mass under the new values; a domain with exactly zero mass is allowed for gamma/gaussian/exponential (uniform fallback: structural laws only); on compounds only the compound's own weights are updated after a restriction",
                     "generator-side avoidance of the one defect kept as known finding (rescaled medians leave their class): median on a gamma with offset only in 5% of runs; all other triggers of the first version run at full rate since fixes 01-08",
                     "an offset update on a gamma whose domain was restricted: the domain object only stores the intersection, so the content is no longer compared with a fresh twin (validity still is)",
                     "a bulk update that a compound's own list accepts but a nested family refuses (its constraint was narrowed by a restriction) is treated as refused: validity only",
                     "getCategoryIndex is read as 0-based, like getCategory(i)/getProbability(i)/getBound(i)"};
    return i;
  }
  long defaultRuns(Tier t) const override { return t == QUICK ? 12000 : 200000; }

  Plan generate(Rng& rng, Tier) const override {
    Plan p;
    // family: continuous ones carry most of the statement
    static const std::vector<double> FW = {3, 2, 3.5, 2.5, 1.5, 2, 1, 1.2, 0.5, 2, 2};
    int fam = static_cast<int>(rng.weighted(FW));
    Spec s;
    if (fam == INVMIX) { s.fam = INVMIX; s.p = rng.real(0.01, 0.9); s.sub.push_back(drawBasic(rng, static_cast<int>(rng.below(UNIF + 1)))); }
    else if (fam == MIXTURE) {
      s.fam = MIXTURE; long k = rng.range(2, 3); double rest = 1;
      for (long i = 0; i < k; ++i) {
        s.sub.push_back(drawBasic(rng, static_cast<int>(rng.below(CONSTANT + 1))));
        double q = i + 1 == k ? rest : rest * rng.real(0.1, 0.8); s.mixP.push_back(q); rest -= q;
      }
    } else s = drawBasic(rng, fam);
    putSpec(p, "", s);
    long n0 = rng.chance(0.15) ? 1 : (rng.chance(0.2) ? rng.range(17, 32) : rng.range(2, 16));
    p.cfg["n"] = n0;
    p.cfg["medianOffset"] = rng.chance(RATE_MEDIAN_WITH_OFFSET) ? 1 : 0;
    static const char* K[] = {"set", "bulk", "ncat", "median", "restrict", "copy", "drop", "ns", "hist", "fun", "lookup"};
    std::vector<double> w = {5, 4, 3, 1.5, 2.5, 1.2, 0.4, 0.5, 2.5, 1, 1};
    for (auto& x : w) if (rng.chance(0.25)) x *= rng.chance(0.5) ? 0 : 3;       // swarm
    bool faultsOff = rng.chance(0.15);                                          // fault-free arm
    double rejRate = faultsOff ? 0 : rng.pick(std::vector<double>{0.1, 0.25, 0.5});
    long len = rng.range(3, 20);
    for (long i = 0; i < len; ++i) {
      Op o(K[rng.weighted(w)]);
      o.a = rng.below(48); o.b = rng.below(1 << 10); o.c = rng.below(16); o.d = 0;
      o.x = rng.unit(); o.y = rng.unit();
      long order = faultsOff ? 0 : rng.below(120);
      if (o.k == "set") { o.d = rng.chance(rejRate) ? (rng.chance(0.15) ? 2 : 1) : 0; }
      if (o.k == "bulk") { o.d = rng.below(3); o.b = rng.below(1 << 6) | 1 | (rng.chance(0.1) ? 1 << 20 : 0) | (rng.chance(0.15) ? 1 << 21 : 0); o.c = rng.chance(rejRate) ? 1 + rng.below(6) : 0; if (faultsOff) o.b &= ~(1 << 20); }
      if (o.k == "ncat") { o.b = rng.chance(0.12) ? 1 : (rng.chance(0.2) ? rng.range(17, 32) : rng.range(2, 16)); }
      if (o.k == "median") o.b = rng.below(2);
      if (o.k == "restrict") { o.c = rng.pick(std::vector<long>{0, 0, 0, 1, 1, 2, 2, 3}); o.b = rng.chance(0.7) ? 3 : rng.below(4); }
      if (o.k == "copy" || o.k == "drop" || o.k == "hist" || o.k == "fun" || o.k == "lookup" || o.k == "ns") o.a = rng.below(3);
      if (o.k == "hist") { o.b = rng.below(3); o.c = rng.below(2); }
      if (o.k == "lookup") { o.b = rng.below(32); o.c = rng.below(4); }
      // the read order after the step rides in d's upper bits and b for mutating ops
      if (o.k == "set" || o.k == "bulk") o.d += 4 * order; else if (o.k == "ncat" || o.k == "median" || o.k == "restrict") o.d = 4 * order;
      p.ops.push_back(o);
    }
    if (rng.chance(0.6)) { Op h("hist"); h.a = rng.below(3); h.b = rng.below(3); h.c = rng.below(2); p.ops.push_back(h); }
    return p;
  }

  void execute(const Plan& p, Ctx& ctx) const override {
    Exec e(p, ctx);
    try { e.run(); }
    catch (SimViolation&) { throw; }
    catch (bpp::Exception& ex) { ctx.fail("foreign-exception:bpp-unexpected", "foreign-exception:bpp-unexpected", ex.what()); }
    catch (std::exception& ex) { ctx.fail("foreign-exception:std", "foreign-exception:std", ex.what()); }
  }
};

Registrar reg(new C09());

}  // namespace
