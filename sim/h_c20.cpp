// C20 — range collections behave as sets of points.
// World: real Range<T>/MultiRange<T>/RangeSet<T> for int, unsigned, double; up to 3 live collections
// (copies are independent parties).  Model: bitset over half-unit cells of the 0..24 universe.
#include "engine.h"
#include <Bpp/Numeric/Range.h>
#include <Bpp/Exceptions.h>
#include <bitset>
#include <memory>

using namespace dsim;

namespace {

const int U = 24;           // universe 0..24
const int CELLS = 2 * U;    // half-unit cells
typedef std::bitset<CELLS> Cells;

// coordinate index (0..48, half units) -> value of type T
template <class T> T coord(long h, bool halves) { return halves ? static_cast<T>(static_cast<double>(h) / 2.0) : static_cast<T>(h / 2); }
template <class T> long toHalf(T v) { return static_cast<long>(std::llround(static_cast<double>(v) * 2.0)); }

Cells cellsOf(long b, long e) { Cells c; for (long i = std::max(0L, b); i < e && i < CELLS; ++i) c.set(static_cast<size_t>(i)); return c; }

struct MRange { long b, e; };  // model range, half units

template <class T> struct World {
  bool halves;                                   // only for double
  std::vector<std::unique_ptr<bpp::MultiRange<T>>> multi;
  std::vector<Cells> mmodel;
  std::vector<std::unique_ptr<bpp::RangeSet<T>>> sets;
  std::vector<std::vector<MRange>> smodel;
};

template <class T> void checkMulti(Ctx& ctx, const bpp::MultiRange<T>& m, const Cells& model, size_t which) {
  Cells u; long measure2 = 0; bool integral = true;
  std::string w = "multi" + std::to_string(which);
  size_t n = m.size();
  if (static_cast<long>(n) > ctx.custom) ctx.custom = static_cast<long>(n);
  ctx.check(m.isEmpty() == (n == 0), "invariant:isEmpty", "invariant:isEmpty", w + " isEmpty disagrees with size");
  std::vector<T> bounds = m.getBounds();
  ctx.check(bounds.size() == 2 * n, "invariant:getBounds", "invariant:getBounds", w + " getBounds size");
  std::string str = "{ ";
  long prevEnd = -1000;
  for (size_t i = 0; i < n; ++i) {
    const bpp::Range<T>& r = m.getRange(i);
    long b = toHalf<T>(r.begin()), e = toHalf<T>(r.end());
    ctx.check(b < e, "invariant:nonempty", "invariant:nonempty", w + " stores empty/reversed range " + r.toString());
    ctx.check(b >= prevEnd, "invariant:disjoint-ascending", "invariant:disjoint-ascending", w + " ranges not ascending/disjoint at " + std::to_string(i) + " " + m.toString());
    prevEnd = e;
    u |= cellsOf(b, e);
    measure2 += e - b; if ((e - b) % 2) integral = false;
    ctx.check(bounds[2 * i] == r.begin() && bounds[2 * i + 1] == r.end(), "invariant:getBounds", "invariant:getBounds", w + " getBounds mismatch");
    str += r.toString() + " ";
  }
  str += "}";
  ctx.check(u == model, "model-mismatch:union", "model-mismatch:union", w + " stores " + m.toString() + " but model point set is " + model.to_string());
  if (integral) ctx.check(m.totalLength() == static_cast<size_t>(measure2 / 2), "model-mismatch:totalLength", "model-mismatch:totalLength", w + " totalLength " + std::to_string(m.totalLength()) + " vs measure " + std::to_string(measure2 / 2));
  ctx.check(m.toString() == str, "invariant:toString", "invariant:toString", w + " toString");
  ctx.state(strHash(str) ^ (0x20 + which));
}

template <class T> void checkSet(Ctx& ctx, const bpp::RangeSet<T>& s, const std::vector<MRange>& model, size_t which) {
  std::string w = "set" + std::to_string(which);
  ctx.check(s.size() == model.size(), "model-mismatch:set-size", "model-mismatch:set-size", w + " size " + std::to_string(s.size()) + " vs " + std::to_string(model.size()) + " " + s.toString());
  long tot2 = 0; bool integral = true;
  for (size_t i = 0; i < model.size(); ++i) {
    const bpp::Range<T>& r = s.getRange(i);
    long b = toHalf<T>(r.begin()), e = toHalf<T>(r.end());
    ctx.check(b == model[i].b && e == model[i].e, "model-mismatch:set-range", "model-mismatch:set-range", w + " range " + std::to_string(i) + " is " + r.toString());
    tot2 += e - b; if ((e - b) % 2) integral = false;
  }
  if (integral) ctx.check(s.totalLength() == static_cast<size_t>(tot2 / 2), "model-mismatch:set-totalLength", "model-mismatch:set-totalLength", w + " totalLength");
  ctx.check(s.isEmpty() == model.empty(), "invariant:isEmpty", "invariant:isEmpty", w);
  if (static_cast<long>(model.size()) > ctx.custom) ctx.custom = static_cast<long>(model.size());
}

template <class T> void checkPrimitives(Ctx& ctx, long a, long b, long c, long d, bool halves, long sub, double shift) {
  bpp::Range<T> r1(coord<T>(a, halves), coord<T>(b, halves)), r2(coord<T>(c, halves), coord<T>(d, halves));
  long b1 = toHalf<T>(r1.begin()), e1 = toHalf<T>(r1.end()), b2 = toHalf<T>(r2.begin()), e2 = toHalf<T>(r2.end());
  // reversed arguments are normalised
  ctx.check(b1 <= e1 && b2 <= e2, "model-mismatch:ctor", "model-mismatch:ctor", "constructor did not order its bounds");
  long na = std::min(halves ? a : (a / 2) * 2, halves ? b : (b / 2) * 2), nb = std::max(halves ? a : (a / 2) * 2, halves ? b : (b / 2) * 2);
  ctx.check(b1 == na && e1 == nb, "model-mismatch:ctor", "model-mismatch:ctor", "constructor bounds");
  ctx.check(toHalf<T>(r1.length()) == e1 - b1, "model-mismatch:length", "model-mismatch:length", "length");
  ctx.check(r1.isEmpty() == (b1 == e1), "model-mismatch:isEmpty", "model-mismatch:isEmpty", "isEmpty");
  bool ne = b1 < e1 && b2 < e2;
  Cells c1 = cellsOf(b1, e1), c2 = cellsOf(b2, e2);
  if (ne) {
    ctx.check(r1.overlap(r2) == (c1 & c2).any(), "model-mismatch:overlap", "model-mismatch:overlap", r1.toString() + " overlap " + r2.toString());
    ctx.check(r1.contains(r2) == ((c1 & c2) == c2), "model-mismatch:contains", "model-mismatch:contains", r1.toString() + " contains " + r2.toString());
    ctx.check(r1.overlap(r2) == r2.overlap(r1), "model-mismatch:overlap-sym", "model-mismatch:overlap", "overlap not symmetric");
  }
  ctx.check(r1.isContiguous(r2) == (b2 == e1 || e2 == b1), "model-mismatch:isContiguous", "model-mismatch:isContiguous", r1.toString() + " isContiguous " + r2.toString());
  switch (sub % 3) {
    case 0: {
      bpp::Range<T> s(r1); s.sliceWith(r2);
      Cells got = cellsOf(toHalf<T>(s.begin()), toHalf<T>(s.end()));
      ctx.check(got == (c1 & c2), "model-mismatch:sliceWith", "model-mismatch:sliceWith", r1.toString() + " sliceWith " + r2.toString() + " = " + s.toString());
      ctx.check(toHalf<T>(s.begin()) <= toHalf<T>(s.end()), "model-mismatch:sliceWith", "model-mismatch:sliceWith", "reversed result");
      break;
    }
    case 1: {
      bpp::Range<T> s(r1); s.expandWith(r2);
      long eb = b1, ee = e1;
      if (b2 <= e1 && e2 >= b1) { eb = std::min(b1, b2); ee = std::max(e1, e2); }   // closed intervals meet: hull
      ctx.check(toHalf<T>(s.begin()) == eb && toHalf<T>(s.end()) == ee, "model-mismatch:expandWith", "model-mismatch:expandWith", r1.toString() + " expandWith " + r2.toString() + " = " + s.toString());
      break;
    }
    default: {
      T v = coord<T>(static_cast<long>(shift), halves);
      bpp::Range<T> s = r1 + v;
      ctx.check(s.length() == r1.length(), "model-mismatch:shift-length", "model-mismatch:shift-length", "operator+ changed length");
      ctx.check(s.begin() == static_cast<T>(r1.begin() + v), "model-mismatch:shift", "model-mismatch:shift", "operator+ begin");
      bpp::Range<T> s2 = s - v;
      ctx.check(s2 == r1 && !(s2 != r1), "model-mismatch:shift", "model-mismatch:shift", "operator- does not undo operator+");
      bpp::Range<T> s3(r1); s3 += v; s3 -= v;
      ctx.check(s3 == r1, "model-mismatch:shift", "model-mismatch:shift", "+= then -= not identity");
    }
  }
}

template <class T> void runTyped(const Plan& p, Ctx& ctx) {
  World<T> w; w.halves = p.geti("halves") != 0;
  w.multi.emplace_back(new bpp::MultiRange<T>()); w.mmodel.emplace_back();
  w.sets.emplace_back(new bpp::RangeSet<T>()); w.smodel.emplace_back();
  for (size_t i = 0; i < p.ops.size(); ++i) {
    const Op& o = p.ops[i];
    ctx.beginStep(static_cast<long>(i), o);
    size_t nm = w.multi.size();
    size_t k = static_cast<size_t>(o.c) % nm;
    long ha = o.a, hb = o.b;
    if (!w.halves) { ha = (ha / 2) * 2; hb = (hb / 2) * 2; }
    long lo = std::min(ha, hb), hi = std::max(ha, hb);
    bpp::Range<T> r(coord<T>(o.a, w.halves), coord<T>(o.b, w.halves));
    if (o.k == "add") {
      w.multi[k]->addRange(r); w.mmodel[k] |= cellsOf(lo, hi);
      w.sets[k]->addRange(r); if (lo < hi) w.smodel[k].push_back(MRange{lo, hi});
      if (o.a > o.b) ctx.probe("reversed-arguments");
      if (lo == hi) ctx.probe("empty-range-added");
      ctx.ok();
    } else if (o.k == "restrict") {
      w.multi[k]->restrictTo(r); w.mmodel[k] &= cellsOf(lo, hi);
      w.sets[k]->restrictTo(r);
      std::vector<MRange> nv;
      for (auto& m : w.smodel[k]) { long b = std::max(m.b, lo), e = std::min(m.e, hi); if (b < e) nv.push_back(MRange{b, e}); }
      w.smodel[k] = nv;
      ctx.ok();
    } else if (o.k == "filter") {
      // expected result from the observed (already verified) decomposition before the call
      Cells keep;
      for (size_t j = 0; j < w.multi[k]->size(); ++j) {
        long b = toHalf<T>(w.multi[k]->getRange(j).begin()), e = toHalf<T>(w.multi[k]->getRange(j).end());
        if (b >= lo && e <= hi) keep |= cellsOf(b, e);
      }
      w.multi[k]->filterWithin(r); w.mmodel[k] = keep;
      w.sets[k]->filterWithin(r);
      std::vector<MRange> nv;
      for (auto& m : w.smodel[k]) if (m.b >= lo && m.e <= hi) nv.push_back(m);
      w.smodel[k] = nv;
      ctx.ok();
    } else if (o.k == "clear") {
      w.multi[k]->clear(); w.mmodel[k].reset();
      w.sets[k]->clear(); w.smodel[k].clear();
      ctx.ok();
    } else if (o.k == "copy") {
      if (nm < 3) {
        w.multi.emplace_back(new bpp::MultiRange<T>(*w.multi[k])); w.mmodel.push_back(w.mmodel[k]);
        w.sets.emplace_back(new bpp::RangeSet<T>(*w.sets[k])); w.smodel.push_back(w.smodel[k]);
      } else {
        size_t dst = (k + 1 + static_cast<size_t>(o.d) % (nm - 1)) % nm;
        *w.multi[dst] = *w.multi[k]; w.mmodel[dst] = w.mmodel[k];
        *w.sets[dst] = *w.sets[k]; w.smodel[dst] = w.smodel[k];
      }
      ctx.probe("copy-made");
      ctx.ok();
    } else if (o.k == "drop") {
      if (nm > 1) { w.multi.erase(w.multi.begin() + static_cast<long>(k)); w.mmodel.erase(w.mmodel.begin() + static_cast<long>(k)); w.sets.erase(w.sets.begin() + static_cast<long>(k)); w.smodel.erase(w.smodel.begin() + static_cast<long>(k)); ctx.probe("source-destroyed"); }
      ctx.ok();
    } else if (o.k == "prim") {
      checkPrimitives<T>(ctx, o.a, o.b, o.c, o.d, w.halves, static_cast<long>(o.x), o.y);
      ctx.outcome("read");
    } else {
      ctx.fail("harness", "harness:unknown-op", o.k);
    }
    for (size_t j = 0; j < w.multi.size(); ++j) { checkMulti<T>(ctx, *w.multi[j], w.mmodel[j], j); checkSet<T>(ctx, *w.sets[j], w.smodel[j], j); }
  }
}

class C20 : public Harness {
public:
  const char* id() const override { return "C20"; }
  HarnessInfo info() const override {
    HarnessInfo i;
    i.real = {"bpp::Range<T>", "bpp::MultiRange<T>", "bpp::RangeSet<T>", "TextTools::toString (via toString)"};
    i.stub = {};
    i.rule = "plans: seeded histories of add/restrict/filter/clear/copy/assign/drop/primitive ops over up to 3 live collections (plus an enumerated prefix of all short histories); non-trivial = >=3 state-changing steps and >=2 ranges stored at some point; distinct = distinct fingerprint of the executed op-kind/outcome sequence";
    i.simTime = "steps (no clock exists in this component)";
    i.faultKinds = {};
    i.probeNames = {"copy-made", "reversed-arguments", "empty-range-added", "source-destroyed"};
    i.assumptions = {"totalLength is compared with the measure only when every stored range has integer length (the API returns size_t)",
                     "overlap/contains are compared with point-set semantics only for non-empty operands",
                     "self-assignment of a collection (m = m empties it on the unchanged tree) is outside the property's quantifier and is not generated"};
    return i;
  }
  long defaultRuns(Tier t) const override { return t == QUICK ? 300000 : 4000000; }

  // enumerated prefix: all histories of length <= L over the 0..6 universe, for the 3 coordinate types
  static const long NOPS = 49 * 3 + 2;   // add/restrict/filter (a,b in 0..6) + clear + copy
  static long pw(long n) { long r = 1; for (long i = 0; i < n; ++i) r *= NOPS; return r; }
  static long perType(Tier t) { long L = t == QUICK ? 2 : 3, s = 0; for (long l = 0; l <= L; ++l) s += pw(l); return s; }
  long enumCount(Tier t) const override { return 3 * perType(t); }
  Plan enumPlan(long idx, Tier t) const override {
    Plan p; long per = perType(t);
    long type = idx / per, r = idx % per, len = 0;
    while (r >= pw(len)) { r -= pw(len); ++len; }
    p.cfg["type"] = type; p.cfg["halves"] = 0; p.cfg["enumerated"] = 1;
    for (long l = 0; l < len; ++l) {
      long code = r % NOPS; r /= NOPS;
      if (code < 147) { static const char* K[3] = {"add", "restrict", "filter"}; long ab = code % 49; p.ops.push_back(Op(K[code / 49], 2 * (ab / 7), 2 * (ab % 7))); }
      else if (code == 147) p.ops.push_back(Op("clear"));
      else p.ops.push_back(Op("copy"));
    }
    return p;
  }
  Plan generate(Rng& rng, Tier) const override {
    Plan p;
    long type = rng.below(3);
    p.cfg["type"] = type;
    p.cfg["halves"] = (type == 2 && rng.chance(0.5)) ? 1 : 0;
    long n = rng.range(3, 12);
    long span = rng.pick(std::vector<long>{6, 12, 24, 24});        // swarm: universe actually used
    std::vector<double> w = {6, rng.real(0, 3), rng.real(0, 2), rng.real(0, 0.5), rng.real(0, 1.5), rng.real(0, 0.5), rng.real(0, 2)};
    static const char* K[] = {"add", "restrict", "filter", "clear", "copy", "drop", "prim"};
    for (long i = 0; i < n; ++i) {
      size_t k = rng.weighted(w);
      Op o(K[k]);
      long a = rng.range(0, 2 * span), b;
      switch (rng.below(6)) {            // shapes: short, long, empty, touching grid, reversed
        case 0: b = a; break;
        case 1: b = a + rng.range(1, 4); break;
        case 2: b = rng.range(0, 2 * span); break;
        case 3: a = (a / 4) * 4; b = a + 4; break;
        case 4: b = a - rng.range(1, 6); break;
        default: b = a + rng.range(1, 2 * span);
      }
      o.a = std::max(0L, std::min(2L * U, a)); o.b = std::max(0L, std::min(2L * U, b));
      o.c = rng.below(3); o.d = rng.below(4);
      if (o.k == "prim") { o.c = rng.range(0, 2 * span); o.d = rng.range(0, 2 * span); if (rng.chance(0.3)) o.c = o.b; if (rng.chance(0.2)) o.d = o.a; o.x = static_cast<double>(rng.below(3)); o.y = static_cast<double>(rng.range(0, 12)); }
      p.ops.push_back(o);
    }
    return p;
  }
  void execute(const Plan& p, Ctx& ctx) const override {
    try {
      switch (p.geti("type")) {
        case 0: runTyped<int>(p, ctx); break;
        case 1: runTyped<unsigned int>(p, ctx); break;
        default: runTyped<double>(p, ctx);
      }
    } catch (bpp::Exception& e) {
      ctx.fail("foreign-exception:bpp", "foreign-exception:bpp", e.what());
    } catch (std::exception& e) {
      ctx.fail("foreign-exception:std", "foreign-exception:std", e.what());
    }
  }
  bool nontrivial(const Ctx& c) const override { return c.okSteps >= 3 && c.custom >= 2; }
};

Registrar reg(new C20());

}  // namespace
