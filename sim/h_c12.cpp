// C12 — numerical derivatives are transparent and exact on low-degree polynomials.
// World (real code): Two/Three/FivePointsNumericalDerivative over AbstractNumericalDerivative, Parameter,
// ParameterList, IntervalConstraint, AbstractParametrizable.
// Stub peer: SimPolynomial — a sparse polynomial of total degree 0..5 in 1..4 variables with plan-given
// coefficients, real constrained Parameters (the box), an optional hidden feasibility region and a one-shot
// refusal (peer-raise), optional analytic First/SecondOrderDerivable interfaces (delegation), and a log of
// every update call it receives (accepted or refused, and the point it was left at).
#include "engine.h"
#include <Bpp/Numeric/Function/TwoPointsNumericalDerivative.h>
#include <Bpp/Numeric/Function/ThreePointsNumericalDerivative.h>
#include <Bpp/Numeric/Function/FivePointsNumericalDerivative.h>
#include <Bpp/Numeric/Function/Functions.h>
#include <Bpp/Numeric/AbstractParametrizable.h>
#include <Bpp/Numeric/ParameterList.h>
#include <Bpp/Numeric/Parameter.h>
#include <Bpp/Numeric/Constraints.h>
#include <Bpp/Exceptions.h>
#include <algorithm>
#include <cstdlib>
#include <limits>
#include <memory>

using namespace dsim;

namespace {

// ---- rarity of the triggers of findings that are known to fire on the unchanged tree (by construction of the
// generator: one run in N may produce the trigger; all other runs skip it).  Set to 1-3 once a finding is fixed.
const long XOK_ONE_IN = 50;     // three-point cross-derivative probes with >= 2 selected variables in the update
const long STALE_ONE_IN = 50;   // read of a selected variable's derivative that the last (partial) update did not refresh
const long NONE_ONE_IN = 1;     // two/three-point update where a selected variable without any feasible nominal probe follows another selected variable

const int MAXV = 4;
const double INF = std::numeric_limits<double>::infinity();
const double EPS = 2.220446049250313e-16;
const double CR = 1024.0;       // rounding constant, see info().tolerances (calibrated: worst unchanged-tree ratio 5.9, margin > 170x)

// ---------------------------------------------------------------- polynomial
struct Term { double c; int e[MAXV]; };
struct Poly {
  int nv = 1;
  std::vector<Term> t;
  double eval(const double* x) const {
    double s = 0;
    for (const Term& m : t) { double p = m.c; for (int i = 0; i < nv; ++i) for (int k = 0; k < m.e[i]; ++k) p *= x[i]; s += p; }
    return s;
  }
  Poly deriv(int v) const {
    Poly r; r.nv = nv;
    for (const Term& m : t) if (m.e[v] > 0) { Term d = m; d.c = m.c * m.e[v]; --d.e[v]; r.t.push_back(d); }
    return r;
  }
  Poly absP() const { Poly r = *this; for (Term& m : r.t) m.c = std::abs(m.c); return r; }
};

// calibration aid: DSIM_C12_CAL=1 prints the worst observed error/unit ratios at process exit (stderr only; read once at
// start-up, never inside a run, and it does not influence any outcome)
struct Calib {
  bool on; double worst[4]; const char* name[4];
  Calib() : on(getenv("DSIM_C12_CAL") != nullptr) { for (double& w : worst) w = 0; name[0] = "d1"; name[1] = "d2"; name[2] = "cross"; name[3] = "bound-use"; }
  void see(int k, double r) { if (on && r > worst[k]) worst[k] = r; }
  ~Calib() { if (on) for (int k = 0; k < 4; ++k) fprintf(stderr, "C12-CAL %s worst=%g\n", name[k], worst[k]); }
} g_cal;

// ---------------------------------------------------------------- stub peer
enum { K_SET = 0, K_SETALL = 1, K_SETONE = 2, K_SETVALS = 3, K_MATCH = 4, K_F = 5 };
struct LogEntry { int kind; int outcome; double pt[MAXV]; };   // outcome 0 accepted, 1 refused by own constraint, 2 hidden region, 3 one-shot

struct StubCfg {
  Poly poly; int nv;
  double lo[MAXV], hi[MAXV]; bool hasC[MAXV];
  bool hasHid[MAXV]; double hlo[MAXV], hhi[MAXV];
  double x0[MAXV];
  bool lazyEnable = false;     // peer variant: enabling analytic derivatives only sets the flag (the library's own PolynomialFunction1Der1 idiom); they are recomputed at the next parameter change
};

std::string vname(int i) { return "p" + std::to_string(i); }

class SimPoly0 :
  public virtual bpp::FunctionInterface,
  public bpp::AbstractParametrizable
{
public:
  StubCfg cfg;
  std::vector<Poly> d1p;                    // analytic first derivatives
  std::vector<std::vector<Poly>> d2p;       // analytic second / cross derivatives
  std::vector<std::shared_ptr<bpp::IntervalConstraint>> cons;
  std::vector<LogEntry> log;
  long ownRejects = 0, peerRaises = 0;
  double req[MAXV];                          // the point the harness asked for (calls that lead there are never refused by the one-shot)
  long oneShotAt = -1, probeCalls = 0; bool oneShotFired = false;
  double fval = 0;
  bool d1On = false, d2On = false;
  bool hasD1 = false, hasD2 = false;     // which analytic interfaces this peer variant offers
  double c1[MAXV]; double c2[MAXV][MAXV];

  explicit SimPoly0(const StubCfg& c) : bpp::AbstractParametrizable(""), cfg(c) {
    for (int i = 0; i < cfg.nv; ++i) {
      std::shared_ptr<bpp::IntervalConstraint> ic;
      if (cfg.hasC[i]) ic.reset(new bpp::IntervalConstraint(cfg.lo[i], cfg.hi[i], std::isfinite(cfg.lo[i]), std::isfinite(cfg.hi[i])));
      cons.push_back(ic);
      addParameter_(new bpp::Parameter(vname(i), cfg.x0[i], ic));
      req[i] = cfg.x0[i];
      d1p.push_back(cfg.poly.deriv(i));
    }
    for (int i = 0; i < cfg.nv; ++i) { d2p.emplace_back(); for (int j = 0; j < cfg.nv; ++j) d2p[static_cast<size_t>(i)].push_back(d1p[static_cast<size_t>(i)].deriv(j)); }
    for (int i = 0; i < MAXV; ++i) { c1[i] = 0; for (int j = 0; j < MAXV; ++j) c2[i][j] = 0; }
    recompute();
  }
  SimPoly0* clone() const override { return new SimPoly0(*this); }

  void point(double* x) const { for (int i = 0; i < cfg.nv; ++i) x[i] = getParameterValue(vname(i)); }
  int idx(const std::string& n) const { for (int i = 0; i < cfg.nv; ++i) if (vname(i) == n) return i; throw bpp::Exception("SimPolynomial: no such variable " + n); }

  void recompute() { double x[MAXV]; point(x); fval = cfg.poly.eval(x); if (d1On) computeD1(x); if (d2On) computeD2(x); }
  void computeD1(const double* x) { for (int i = 0; i < cfg.nv; ++i) c1[i] = d1p[static_cast<size_t>(i)].eval(x); }
  void computeD2(const double* x) { for (int i = 0; i < cfg.nv; ++i) for (int j = 0; j < cfg.nv; ++j) c2[i][j] = d2p[static_cast<size_t>(i)][static_cast<size_t>(j)].eval(x); }

  void fireParameterChanged(const bpp::ParameterList&) override { recompute(); }
  double getValue() const override { return fval; }

  void beginCall(const double* r, long oneShot) { for (int i = 0; i < cfg.nv; ++i) req[i] = r[i]; oneShotAt = oneShot; probeCalls = 0; oneShotFired = false; }

  void record(int kind, int outcome) { LogEntry e; e.kind = kind; e.outcome = outcome; for (int i = 0; i < MAXV; ++i) e.pt[i] = 0; point(e.pt); log.push_back(e); }

  template <class F> void guarded(int kind, const bpp::ParameterList* pl, const std::string* oneName, double oneVal, F base) {
    double tgt[MAXV]; point(tgt);
    for (int i = 0; i < cfg.nv; ++i) {
      if (pl) { if (pl->hasParameter(vname(i))) tgt[i] = pl->parameter(vname(i)).getValue(); }
      else if (vname(i) == *oneName) tgt[i] = oneVal;
    }
    bool isProbe = false;
    for (int i = 0; i < cfg.nv; ++i) if (!(tgt[i] == req[i])) isProbe = true;
    for (int i = 0; i < cfg.nv; ++i)
      if (cfg.hasHid[i] && (tgt[i] < cfg.hlo[i] || tgt[i] > cfg.hhi[i])) {
        record(kind, 2); ++peerRaises;
        throw bpp::ConstraintException("SimPolynomial: point outside the feasible region", &parameter(vname(i)), tgt[i]);
      }
    if (isProbe && oneShotAt >= 0 && !oneShotFired) {
      if (probeCalls++ == oneShotAt) {
        oneShotFired = true; record(kind, 3); ++peerRaises;
        throw bpp::ConstraintException("SimPolynomial: evaluation refused", &parameter(vname(0)), tgt[0]);
      }
    }
    try { base(); }
    catch (bpp::ConstraintException&) { record(kind, 1); ++ownRejects; throw; }
    record(kind, 0);
  }

  void setParameters(const bpp::ParameterList& pl) override { guarded(K_SET, &pl, nullptr, 0, [&] { bpp::AbstractParametrizable::matchParametersValues(pl); }); }
  void setAllParametersValues(const bpp::ParameterList& pl) override { guarded(K_SETALL, &pl, nullptr, 0, [&] { bpp::AbstractParametrizable::setAllParametersValues(pl); }); }
  void setParameterValue(const std::string& name, double value) override { guarded(K_SETONE, nullptr, &name, value, [&] { bpp::AbstractParametrizable::setParameterValue(name, value); }); }
  void setParametersValues(const bpp::ParameterList& pl) override { guarded(K_SETVALS, &pl, nullptr, 0, [&] { bpp::AbstractParametrizable::setParametersValues(pl); }); }
  bool matchParametersValues(const bpp::ParameterList& pl) override { bool r = false; guarded(K_MATCH, &pl, nullptr, 0, [&] { r = bpp::AbstractParametrizable::matchParametersValues(pl); }); return r; }

  // analytic interfaces (only reachable through SimPoly1 / SimPoly2)
  void en1(bool yn, bool force = false) { bool was = d1On; d1On = yn; if (yn && !was && (force || !cfg.lazyEnable)) { double x[MAXV]; point(x); computeD1(x); } }
  void en2(bool yn, bool force = false) { bool was = d2On; d2On = yn; if (yn && !was && (force || !cfg.lazyEnable)) { double x[MAXV]; point(x); computeD2(x); } }
  void rearm(bool on1, bool on2) { d1On = false; d2On = false; if (hasD1) en1(on1, true); if (hasD2) en2(on2, true); }
  double get1(const std::string& v) const { if (!d1On) throw bpp::Exception("SimPolynomial: first order derivatives are not computed"); return c1[idx(v)]; }
  double get2(const std::string& v, const std::string& u) const { if (!d2On) throw bpp::Exception("SimPolynomial: second order derivatives are not computed"); return c2[idx(v)][idx(u)]; }
};

class SimPoly1 :
  public SimPoly0,
  public virtual bpp::FirstOrderDerivable
{
public:
  explicit SimPoly1(const StubCfg& c) : SimPoly0(c) { hasD1 = true; en1(true, true); }
  SimPoly1* clone() const override { return new SimPoly1(*this); }
  void enableFirstOrderDerivatives(bool yn) override { en1(yn); }
  bool enableFirstOrderDerivatives() const override { return d1On; }
  double getFirstOrderDerivative(const std::string& v) const override { return get1(v); }
};

class SimPoly2 :
  public SimPoly1,
  public virtual bpp::SecondOrderDerivable
{
public:
  explicit SimPoly2(const StubCfg& c) : SimPoly1(c) { hasD2 = true; en2(true, true); }
  SimPoly2* clone() const override { return new SimPoly2(*this); }
  void enableSecondOrderDerivatives(bool yn) override { en2(yn); }
  bool enableSecondOrderDerivatives() const override { return d2On; }
  double getSecondOrderDerivative(const std::string& v) const override { return get2(v, v); }
  double getSecondOrderDerivative(const std::string& v, const std::string& u) const override { return get2(v, u); }
};

// ---------------------------------------------------------------- executor + model
enum { CLS_NONE = 0, CLS_ONE = 1, CLS_SYM = 2 };
enum { F_NO = 0, F_YES = 1, F_AMB = 2 };

struct Fresh { bool valid = false; int cls = CLS_NONE; double hmin = 0, hmax = 0; long seq = -1; double at[MAXV]; };

const char* ENTRY[] = {"setParameters", "setAllParametersValues", "setParameterValue", "setParametersValues", "matchParametersValues", "f"};

double clamp01(double v) { if (!(v >= 0)) return 0; if (v > 1) return 1; return v; }

class Exec {
  const Plan& p; Ctx& ctx;
  int scheme, nv, iface;
  StubCfg sc; Poly apoly;
  double elo[MAXV], ehi[MAXV];
  std::shared_ptr<SimPoly0> f0; std::shared_ptr<SimPoly1> f1; std::shared_ptr<SimPoly2> f2;
  SimPoly0* f = nullptr;
  std::unique_ptr<bpp::AbstractNumericalDerivative> w;
  // model
  double cur[MAXV]; double h = 1e-4; bool d1 = true, d2 = true, cross = false;
  std::vector<int> sel;
  Fresh fr[MAXV]; long crossSeq[MAXV][MAXV]; bool crossSym[MAXV][MAXV];
  long updSeq = 0; bool cfgFresh = false, valueFresh = false;
  bool xok, staleok, xfirst, noneok;

public:
  Exec(const Plan& pl, Ctx& c) : p(pl), ctx(c) {}

  bool isSel(int v) const { return std::find(sel.begin(), sel.end(), v) != sel.end(); }

  void setup() {
    scheme = static_cast<int>(p.geti("scheme", 3)); if (scheme != 2 && scheme != 5) scheme = 3;
    nv = static_cast<int>(std::max(1L, std::min<long>(MAXV, p.geti("nv", 1))));
    iface = static_cast<int>(std::max(0L, std::min(2L, p.geti("iface", 0)))); if (scheme == 2 && iface > 1) iface = 1;
    xok = p.geti("xok") != 0; staleok = p.geti("staleok") != 0; xfirst = p.geti("xfirst") != 0; noneok = p.geti("noneok") != 0;
    sc.nv = nv; sc.poly.nv = nv;
    long nt = std::max(0L, std::min(16L, p.geti("nt", 0)));
    for (long j = 0; j < nt; ++j) {
      Term t; t.c = p.getd("c" + std::to_string(j), 0);
      if (!std::isfinite(t.c)) t.c = 1;
      long code = std::max(0L, p.geti("e" + std::to_string(j), 0)); int tot = 0;
      for (int i = 0; i < MAXV; ++i) { t.e[i] = static_cast<int>(code % 6); code /= 6; if (i >= nv) t.e[i] = 0; tot += t.e[i]; }
      while (tot > 5) for (int i = 0; i < MAXV && tot > 5; ++i) if (t.e[i] > 0) { --t.e[i]; --tot; }      // stay inside the quantifier (total degree <= 5)
      sc.poly.t.push_back(t);
    }
    apoly = sc.poly.absP();
    sc.lazyEnable = p.geti("lazyen") != 0;
    for (int i = 0; i < MAXV; ++i) { sc.lo[i] = -INF; sc.hi[i] = INF; sc.hasC[i] = false; sc.hasHid[i] = false; sc.hlo[i] = -INF; sc.hhi[i] = INF; sc.x0[i] = 0; elo[i] = -INF; ehi[i] = INF; }
    for (int i = 0; i < nv; ++i) {
      std::string si = std::to_string(i);
      long bt = p.geti("bt" + si, 0);
      double lo = p.getd("lo" + si, 0), wd = std::abs(p.getd("wd" + si, 1));
      if (!std::isfinite(lo)) lo = 0; if (!std::isfinite(wd) || wd < 1e-9) wd = 1e-9;
      if (bt == 1 || bt == 4) { sc.hasC[i] = true; sc.lo[i] = lo; sc.hi[i] = lo + wd; }
      else if (bt == 2) { sc.hasC[i] = true; sc.lo[i] = lo; }
      else if (bt == 3) { sc.hasC[i] = true; sc.hi[i] = lo; }
      elo[i] = sc.lo[i]; ehi[i] = sc.hi[i];
      long hid = p.geti("hid" + si, 0);          // 1 lower side, 2 upper side, 3 both
      if (hid && bt != 4) {
        double a = clamp01(p.getd("ha" + si, 0.2)) * 0.4 + 0.05, b = clamp01(p.getd("hb" + si, 0.2)) * 0.4 + 0.05;
        double l = std::isfinite(elo[i]) ? elo[i] : (std::isfinite(ehi[i]) ? ehi[i] - 6 : -3), u = std::isfinite(ehi[i]) ? ehi[i] : (std::isfinite(elo[i]) ? elo[i] + 6 : 3);
        double wv = u - l;
        sc.hasHid[i] = true;
        if (hid & 1) { sc.hlo[i] = l + a * wv; elo[i] = sc.hlo[i]; }
        if (hid & 2) { sc.hhi[i] = u - b * wv; ehi[i] = sc.hhi[i]; }
      }
      sc.x0[i] = place(i, 0, clamp01(p.getd("x0" + si, 0.5)), 0.5, 1e-2, 0);
    }
    if (iface == 2) { f2 = std::make_shared<SimPoly2>(sc); f = f2.get(); }
    else if (iface == 1) { f1 = std::make_shared<SimPoly1>(sc); f = f1.get(); }
    else { f0 = std::make_shared<SimPoly0>(sc); f = f0.get(); }
    if (scheme == 2) {
      if (iface == 1) w.reset(new bpp::TwoPointsNumericalDerivative(std::shared_ptr<bpp::FirstOrderDerivable>(f1)));
      else w.reset(new bpp::TwoPointsNumericalDerivative(std::shared_ptr<bpp::FunctionInterface>(f0)));
    } else if (scheme == 3) {
      if (iface == 2) w.reset(new bpp::ThreePointsNumericalDerivative(std::shared_ptr<bpp::SecondOrderDerivable>(f2)));
      else if (iface == 1) w.reset(new bpp::ThreePointsNumericalDerivative(std::shared_ptr<bpp::FirstOrderDerivable>(f1)));
      else w.reset(new bpp::ThreePointsNumericalDerivative(std::shared_ptr<bpp::FunctionInterface>(f0)));
    } else {
      if (iface == 2) w.reset(new bpp::FivePointsNumericalDerivative(std::shared_ptr<bpp::SecondOrderDerivable>(f2)));
      else if (iface == 1) w.reset(new bpp::FivePointsNumericalDerivative(std::shared_ptr<bpp::FirstOrderDerivable>(f1)));
      else w.reset(new bpp::FivePointsNumericalDerivative(std::shared_ptr<bpp::FunctionInterface>(f0)));
    }
    for (int i = 0; i < MAXV; ++i) { cur[i] = i < nv ? sc.x0[i] : 0; for (int j = 0; j < MAXV; ++j) { crossSeq[i][j] = -1; crossSym[i][j] = false; } }
    h = w->getInterval();
  }

  // evaluation point for variable i from a geometry code, relative to the effective box and the step hh
  double place(int i, long code, double frac, double y, double hh, double keep) const {
    double lo = elo[i], hi = ehi[i]; bool fl = std::isfinite(lo), fh = std::isfinite(hi);
    double x;
    double Hlo = fl ? (1 + std::abs(lo)) * hh : 0, Hhi = fh ? (1 + std::abs(hi)) * hh : 0;
    switch (code % 8) {
      case 1: if (fl) { x = lo; break; }            // exactly on a bound
      case 2: if (fh) { x = hi; break; } if (fl) { x = lo; break; }
      case 0: default: {
        if (fl && fh) { double mg = std::min(6 * (1 + std::max(std::abs(lo), std::abs(hi))) * hh, 0.25 * (hi - lo)); x = lo + mg + frac * (hi - lo - 2 * mg); }
        else if (fl) x = lo + 6 * Hlo + 0.01 + 5 * frac;
        else if (fh) x = hi - 6 * Hhi - 0.01 - 5 * frac;
        else x = -3 + 6 * frac;
        break;
      }
      case 3: if (fl) { x = lo + (0.05 + 0.9 * y) * 0.9 * Hlo; break; } if (fh) { x = hi - (0.05 + 0.9 * y) * 0.9 * Hhi; break; } x = -3 + 6 * frac; break;   // within h of a bound
      case 4: if (fh) { x = hi - (0.05 + 0.9 * y) * 0.9 * Hhi; break; } if (fl) { x = lo + (0.05 + 0.9 * y) * 0.9 * Hlo; break; } x = -3 + 6 * frac; break;
      case 5: if (fl) { x = lo + (1.1 + 0.8 * y) * Hlo; break; } if (fh) { x = hi - (1.1 + 0.8 * y) * Hhi; break; } x = -3 + 6 * frac; break;               // between h and 2h of a bound
      case 6: if (fh) { x = hi - (1.1 + 0.8 * y) * Hhi; break; } if (fl) { x = lo + (1.1 + 0.8 * y) * Hlo; break; } x = -3 + 6 * frac; break;
      case 7: x = keep; break;
    }
    if (fl && x < lo) x = lo;
    if (fh && x > hi) x = hi;
    if (x == 0) x = 0.0;          // no negative zero: the library compares values with ==
    return x;
  }

  int feas(int v, double pt, double m) const {
    if (pt >= elo[v] + m && pt <= ehi[v] - m) return F_YES;
    if (pt < elo[v] - m || pt > ehi[v] + m) return F_NO;
    return F_AMB;
  }
  // class of a selected variable for an update to point x: which nominal probes are feasible (model of the box, not of the library)
  int classify(int v, const double* x, bool* constraintRejects) const {
    double H = (1 + std::abs(x[v])) * h, m = 1e-6 * H;
    int k = scheme == 5 ? 2 : 1;
    int L = feas(v, x[v] - k * H, m), R = feas(v, x[v] + k * H, m);
    if (constraintRejects) {
      bool lOut = x[v] - k * H < sc.lo[v], rOut = x[v] + k * H > sc.hi[v];
      *constraintRejects = scheme == 2 ? lOut : (lOut || rOut);
    }
    if (L == F_YES && R == F_YES) return CLS_SYM;
    if (L == F_YES || R == F_YES) return CLS_ONE;
    return CLS_NONE;
  }

  static int exactDeg(int scheme, int d, int cls) {
    if (scheme == 2) return 1;
    if (cls != CLS_SYM) return d == 1 ? 1 : 2;
    if (scheme == 3) return d == 1 ? 2 : 3;
    return d == 1 ? 4 : 5;
  }

  // per-call error bound for the d-th derivative along v at x: rounding unit + Taylor remainder of the known polynomial
  double tolD(int d, int v, const double* x, int cls, double hmin, double hmax, double* unit, double* rem) const {
    int E = exactDeg(scheme, d, cls);
    Poly q = sc.poly; double fact = 1, r = 0;
    for (int k = 0; k <= 5; ++k) {
      if (k >= std::max(E + 1, d)) r += 2.0 * k * std::abs(q.eval(x) / fact) * std::pow(hmax, k - d);
      q = q.deriv(v); fact *= (k + 1);
    }
    double xa[MAXV]; for (int i = 0; i < MAXV; ++i) xa[i] = i < nv ? std::abs(x[i]) : 0; xa[v] += hmax;
    double pabs = apoly.eval(xa);
    Poly dp = apoly; for (int k = 0; k < d; ++k) dp = dp.deriv(v);
    double u = EPS * pabs / std::pow(hmin, d) + EPS * dp.eval(xa);
    if (unit) *unit = u; if (rem) *rem = r;
    return CR * u + r;
  }
  double tolCross(int a, int b, const double* x, double* unit, double* rem) const {
    double h1 = (1 + std::abs(x[a])) * h, h2 = (1 + std::abs(x[b])) * h, hm = std::max(h1, h2);
    double r = 0; Poly qa = sc.poly; double fa = 1;
    for (int i = 0; i <= 5; ++i) {
      Poly qb = qa; double fb = 1;
      for (int j = 0; i + j <= 5; ++j) {
        if (i >= 1 && j >= 1 && i + j >= 4) r += 2.0 * (i + j) * std::abs(qb.eval(x) / (fa * fb)) * std::pow(hm, i + j - 2);
        qb = qb.deriv(b); fb *= (j + 1);
      }
      qa = qa.deriv(a); fa *= (i + 1);
    }
    double xa[MAXV]; for (int i = 0; i < MAXV; ++i) xa[i] = i < nv ? std::abs(x[i]) : 0; xa[a] += h1; xa[b] += h2;
    double u = EPS * apoly.eval(xa) / (h1 * h2) + EPS * apoly.deriv(a).deriv(b).eval(xa);
    if (unit) *unit = u; if (rem) *rem = r;
    return CR * u + r;
  }

  uint64_t stateHash() const {
    uint64_t s = 0x12 + static_cast<uint64_t>(scheme) * 31 + (d1 ? 1 : 0) + (d2 ? 2 : 0) + (cross ? 4 : 0);
    for (int i = 0; i < nv; ++i) s = s * 1099511628211ULL ^ strHash(hexfloat(cur[i]));
    for (int v : sel) s = s * 1099511628211ULL ^ static_cast<uint64_t>(v + 11);
    return s ^ strHash(hexfloat(h));
  }

  void invalidate() { for (Fresh& x : fr) x.valid = false; for (auto& r : crossSeq) for (long& s : r) s = -1; cfgFresh = false; }

  void run() {
    setup();
    for (size_t i = 0; i < p.ops.size(); ++i) {
      const Op& o = p.ops[i];
      ctx.beginStep(static_cast<long>(i), o);
      if (o.k == "sel") opSel(o);
      else if (o.k == "seth") { static const double M[] = {1, 0.5, 0.2, 0.1}; h = M[static_cast<size_t>(std::abs(o.b)) % 4] * std::pow(10.0, -(2.0 + static_cast<double>(std::abs(o.a) % 4))); w->setInterval(h); if (w->getInterval() != h) ctx.fail("model-mismatch:getInterval", "model-mismatch:getInterval", "getInterval differs from the value set"); invalidate(); ctx.ok(); }
      else if ((o.k == "d1" || o.k == "d2") && sc.lazyEnable) { ctx.outcome("skip"); }   // switching first/second-derivative computation is outside the quantifier; with a lazily enabling peer it would leave the peer's analytic tables stale by the peer's own contract
      else if (o.k == "d1") { d1 = o.a & 1; w->enableFirstOrderDerivatives(d1); invalidate(); ctx.ok(); }
      else if (o.k == "d2") { d2 = o.a & 1; w->enableSecondOrderDerivatives(d2); invalidate(); ctx.ok(); }
      else if (o.k == "cross") {
        bool on = o.a & 1;
        if (on && scheme == 3 && !xok) { ctx.outcome("skip"); continue; }      // known finding kept rare: see XOK_ONE_IN
        cross = on; w->enableSecondOrderCrossDerivatives(cross); invalidate(); ctx.ok();
      }
      else if (o.k == "upd") opUpdate(o);
      else if (o.k == "read") opRead(o);
      else ctx.fail("harness", "harness:unknown-op", o.k);
      ctx.state(stateHash());
    }
  }

  void opSel(const Op& o) {
    std::vector<int> vs;
    for (int i = 0; i < nv; ++i) if ((o.a >> i) & 1) vs.push_back(i);
    // order: a permutation chosen by o.b (factorial number system)
    long code = std::abs(o.b);
    std::vector<int> ord;
    while (!vs.empty()) { size_t k = static_cast<size_t>(code % static_cast<long>(vs.size())); code /= static_cast<long>(vs.size()); ord.push_back(vs[k]); vs.erase(vs.begin() + static_cast<long>(k)); }
    std::vector<std::string> names; for (int v : ord) names.push_back(vname(v));
    w->setParametersToDerivate(names);
    sel = ord; invalidate();
    if (sel.size() >= 2 && sel[0] > sel[1]) ctx.probe("selection-out-of-order");
    if (static_cast<int>(sel.size()) < nv && !sel.empty()) ctx.probe("selection-proper-subset");
    ctx.ok();
  }

  void opUpdate(const Op& o) {
    int entry = static_cast<int>(std::abs(o.a) % 6);
    double frac = clamp01(o.x), y = clamp01(o.y);
    // which variables are in the list
    std::vector<int> in;
    if (entry == K_SETALL) { for (int i = 0; i < nv; ++i) in.push_back(i); }
    else if (entry == K_SETONE) in.push_back(static_cast<int>(std::abs(o.b) % nv));
    else { for (int i = 0; i < nv; ++i) if ((o.b >> i) & 1) in.push_back(i); if (in.empty()) for (int i = 0; i < nv; ++i) in.push_back(i); }
    bool partial = static_cast<int>(in.size()) < nv;
    double req[MAXV]; for (int i = 0; i < MAXV; ++i) req[i] = cur[i];
    long codes = std::abs(o.c);
    for (int v : in) { long code = (codes >> (3 * v)) & 7; req[v] = place(v, code, clamp01(frac + 0.37 * v - std::floor(frac + 0.37 * v)), y, h, cur[v]); }
    bool withCons = o.d & 1, reversed = o.d & 2, foreign = (o.d & 4) && (entry == K_SET || entry == K_SETVALS || entry == K_MATCH || entry == K_F);
    long oneShot = (o.d >> 3) > 0 ? ((o.d >> 3) - 1) % 12 : -1;
    bpp::ParameterList pl;
    std::vector<int> ord = in; if (reversed) std::reverse(ord.begin(), ord.end());
    for (int v : ord) pl.addParameter(bpp::Parameter(vname(v), req[v], withCons ? std::shared_ptr<bpp::ConstraintInterface>(f->cons[static_cast<size_t>(v)]) : std::shared_ptr<bpp::ConstraintInterface>()));
    if (foreign) pl.addParameter(bpp::Parameter("zz", 1.5));

    // model: what the update will refresh and what may legitimately happen
    bool numeric = d1 && !sel.empty();
    std::vector<int> refreshed; int cls[MAXV]; bool anyRejectGeom = false, anyNone = false, allSym = true;
    bool noneAfterOther = false;
    for (int v : sel) if (numeric && scheme != 5 && std::find(in.begin(), in.end(), v) != in.end()) {
      if (classify(v, req, nullptr) == CLS_NONE && !refreshed.empty()) noneAfterOther = true;
      refreshed.push_back(v);
    }
    refreshed.clear();
    if (noneAfterOther) {
      if (!noneok) { ctx.outcome("skip"); return; }     // known finding kept rare: see NONE_ONE_IN
      oneShot = -1;
    }
    // `refreshed`: selected variables in the list (the update must probe them); `extra`: selected variables not in the list
    // (an implementation may or may not probe them again: the statement only says their derivatives must be right)
    std::vector<int> extra; bool extraNone = false, extraNotSym = false;
    for (int v : sel) if (numeric) {
      bool inList = std::find(in.begin(), in.end(), v) != in.end();
      bool cr = false; cls[v] = classify(v, req, &cr);
      if (oneShot >= 0) { if (cls[v] == CLS_SYM) cls[v] = CLS_ONE; else if (cls[v] == CLS_ONE && scheme == 5) cls[v] = CLS_NONE; }
      if (!inList) { extra.push_back(v); if (cls[v] == CLS_NONE) extraNone = true; if (cls[v] != CLS_SYM) extraNotSym = true; continue; }
      refreshed.push_back(v);
      if (cr) anyRejectGeom = true;
      if (cls[v] == CLS_NONE) anyNone = true;
      if (cls[v] != CLS_SYM) allSym = false;
    }
    bool crossProbes = numeric && scheme == 3 && cross && refreshed.size() >= 2;
    bool crossPossible = numeric && scheme == 3 && cross && refreshed.size() + extra.size() >= 2;
    bool raiseAllowed = (scheme == 5 && (anyNone || extraNone)) || (crossPossible && (!allSym || extraNotSym));

    long rej0 = f->ownRejects, peer0 = f->peerRaises; size_t log0 = f->log.size();
    f->beginCall(req, oneShot);
    int got = 0; double fret = 0; std::string what;
    try {
      switch (entry) {
        case K_SET: w->setParameters(pl); break;
        case K_SETALL: w->setAllParametersValues(pl); break;
        case K_SETONE: w->setParameterValue(vname(in[0]), req[in[0]]); break;
        case K_SETVALS: w->setParametersValues(pl); break;
        case K_MATCH: w->matchParametersValues(pl); break;
        default: fret = w->f(pl);
      }
    }
    catch (bpp::ConstraintException& e) { got = 1; what = e.what(); }
    catch (bpp::Exception& e) { got = 2; what = e.what(); }
    what = what.substr(0, what.find('\n'));
    f->oneShotAt = -1;
    bool peerFired = f->peerRaises > peer0, rejected = f->ownRejects > rej0 || peerFired || anyRejectGeom;
    if (anyRejectGeom) ctx.fault("reject@k");
    if (peerFired) { ctx.fault("peer-raise"); ctx.probe(f->oneShotFired ? "peer-raise-one-shot" : "peer-raise-hidden-region"); }
    std::string qual = crossProbes ? ":with-cross-probes" : (noneAfterOther ? ":variable-without-feasible-probe" : (rejected ? ":after-rejected-probe" : ""));
    ctx.evi("got", got);

    if (got != 0) {
      if (!raiseAllowed)
        ctx.fail("model-mismatch:update-raised", std::string("model-mismatch:update-raised:") + (got == 1 ? "ConstraintException" : "bpp::Exception") + qual,
                 std::string(ENTRY[entry]) + " raised although every selected variable has a feasible side for its probes: " + what + describe(req));
      // the statement is silent after a raised call: re-synchronise the model from the wrapped function
      f->point(cur); invalidate(); valueFresh = false;
      // ... including the peer's derivative switches, which the wrapper turns off while probing: the caller re-arms the function after an error
      f->rearm(d1, d2);
      ctx.probe(crossProbes ? "update-raised-cross-at-limit" : "update-raised-both-sides-infeasible");
      ctx.rejected();
      return;
    }

    ++updSeq;
    if (crossProbes && xfirst) checkCrossAll(refreshed, cls, req);
    // ---- transparency
    double got_[MAXV]; f->point(got_);
    for (int i = 0; i < nv; ++i)
      if (!(got_[i] == req[i]))
        ctx.fail("invariant:transparency", "invariant:transparency" + qual,
                 std::string(ENTRY[entry]) + " returned but the wrapped function holds " + vname(i) + "=" + hexfloat(got_[i]) + " instead of the requested " + hexfloat(req[i]) + " (difference " + fmtd(got_[i] - req[i]) + ")" + describe(req));
    double want = sc.poly.eval(req);
    double wv = w->getValue(), fv = f->getValue();
    if (!(wv == want) || !(fv == want))
      ctx.fail("invariant:value-at-point", "invariant:value-at-point" + qual,
               std::string(ENTRY[entry]) + ": wrapper.getValue()=" + hexfloat(wv) + " function.getValue()=" + hexfloat(fv) + " polynomial at the requested point=" + hexfloat(want) + describe(req));
    if (entry == K_F && !(fret == want))
      ctx.fail("invariant:value-at-point", "invariant:value-at-point:f-return" + qual, "f() returned " + hexfloat(fret) + " but the polynomial there is " + hexfloat(want));
    if (!f->log.empty() && f->log.back().outcome == 0) for (int i = 0; i < nv; ++i) if (!(f->log.back().pt[i] == req[i])) ctx.fail("invariant:transparency", "invariant:transparency:last-call" + qual, "last accepted call left the function elsewhere");
    ctx.evd("v", wv);

    // ---- bookkeeping for reads
    for (int i = 0; i < nv; ++i) cur[i] = req[i];
    valueFresh = true; cfgFresh = true;
    std::vector<int> probed = refreshed;
    for (int v : extra) {       // observed, not required: did the update probe this variable again?
      bool seen = false;
      for (size_t k = log0; k < f->log.size() && !seen; ++k) {
        const LogEntry& e = f->log[k]; if (e.outcome != 0) continue;
        bool only = !(e.pt[v] == req[v]);
        for (int i = 0; i < nv && only; ++i) if (i != v && !(e.pt[i] == req[i])) only = false;
        seen = only;
      }
      if (seen) probed.push_back(v);
      else if (cls[v] == CLS_NONE) fr[v].valid = false;      // it may have been tried and found infeasible on both sides: not asserted
    }
    for (int v : probed) {
      Fresh& x = fr[v]; x.valid = true; x.cls = cls[v]; x.seq = updSeq; for (int i = 0; i < MAXV; ++i) x.at[i] = cur[i];
      // spacing of the probes actually made along v (observed from the peer's log)
      std::vector<double> offs; offs.push_back(0);
      for (size_t k = log0; k < f->log.size(); ++k) {
        const LogEntry& e = f->log[k]; if (e.outcome != 0) continue;
        bool only = !(e.pt[v] == req[v]);
        for (int i = 0; i < nv && only; ++i) if (i != v && !(e.pt[i] == req[i])) only = false;
        if (only) offs.push_back(e.pt[v] - req[v]);
      }
      std::sort(offs.begin(), offs.end()); offs.erase(std::unique(offs.begin(), offs.end()), offs.end());
      double H = (1 + std::abs(req[v])) * h;
      if (offs.size() < 2) { x.hmin = H; x.hmax = (scheme == 5 ? 2 : 1) * H; }
      else {
        x.hmax = std::max(std::abs(offs.front()), std::abs(offs.back())); x.hmin = INF;
        for (size_t k = 1; k < offs.size(); ++k) x.hmin = std::min(x.hmin, offs[k] - offs[k - 1]);
      }
      if (cls[v] == CLS_ONE) ctx.probe("one-sided-update");
      if (cls[v] == CLS_NONE) ctx.probe("both-sides-infeasible-update");
      if (req[v] == elo[v] || req[v] == ehi[v]) ctx.probe("point-exactly-on-bound");
    }
    if (crossProbes) for (int a : refreshed) for (int b : refreshed) if (a != b) { crossSeq[a][b] = updSeq; crossSym[a][b] = cls[a] == CLS_SYM && cls[b] == CLS_SYM; }
    if (partial) ctx.probe("partial-update");
    ctx.probe(withCons || entry == K_SETONE ? "list-carries-constraints" : "list-without-constraints");
    if (foreign) ctx.probe("list-with-foreign-name");
    if (rejected && !refreshed.empty()) ctx.probe("transparent-after-rejected-probe");
    ctx.probe(std::string("entry-") + ENTRY[entry]);
    ctx.ok();
  }

  std::string describe(const double* x) const {
    std::string s = " [scheme " + std::to_string(scheme) + ", h=" + fmtd(h) + ", point";
    for (int i = 0; i < nv; ++i) s += " " + fmtd(x[i]);
    s += ", selected";
    for (int v : sel) s += " " + vname(v);
    s += std::string(", cross ") + (cross ? "on" : "off") + "]";
    return s;
  }

  void checkCrossAll(const std::vector<int>& refreshed, const int* cls, const double* x) {
    for (int a : refreshed) for (int b : refreshed) if (a != b && cls[a] == CLS_SYM && cls[b] == CLS_SYM) checkCross(a, b, x);
  }
  void checkCross(int a, int b, const double* x) {
    double got;
    try { got = w->getSecondOrderDerivative(vname(a), vname(b)); }
    catch (bpp::Exception& e) { ctx.fail("model-mismatch:cross", "model-mismatch:cross:raised", std::string("cross derivative read raised: ") + e.what()); }
    double ref = sc.poly.deriv(a).deriv(b).eval(x), unit, rem;
    double tol = tolCross(a, b, x, &unit, &rem);
    ctx.evd("x", got);
    if (!std::isfinite(got)) ctx.fail("model-mismatch:cross", "model-mismatch:cross:not-finite", "cross derivative is not finite at an interior point" + describe(x));
    double err = std::abs(got - ref);
    if (rem == 0 && unit > 0) g_cal.see(2, err / unit);
    if (err > tol) {
      // how far the analytic cross derivative itself moves inside the neighbourhood the probes visit (3 nominal steps in every variable):
      // an error inside this band is "right formula, evaluated off the requested point" (known finding), beyond it the value is grossly wrong
      double xb[MAXV]; for (int i = 0; i < MAXV; ++i) xb[i] = i < nv ? std::abs(x[i]) + 3 * (1 + std::abs(x[i])) * h : 0;
      double lip = 0; Poly dab = apoly.deriv(a).deriv(b);
      for (int i = 0; i < nv; ++i) lip += 3 * (1 + std::abs(x[i])) * h * dab.deriv(i).eval(xb);
      bool off = err <= tol + lip;
      ctx.fail("model-mismatch:cross", std::string("model-mismatch:cross:") + (off ? "off-centre" : "gross"),
               "d2f/d" + vname(a) + "d" + vname(b) + " = " + fmtd(got) + ", analytic " + fmtd(ref) + ", error " + fmtd(err) + " > bound " + fmtd(tol) + " (rounding " + fmtd(CR * unit) + " + remainder " + fmtd(rem) + (rem == 0 ? ", exact degree" : "") + "); variation of the analytic value within 3 steps: " + fmtd(lip) + describe(x));
    }
    ctx.probe("cross-derivative-checked");
  }

  void opRead(const Op& o) {
    int kind = static_cast<int>(std::abs(o.a) % 4);
    int v = static_cast<int>(std::abs(o.b) % nv), u = static_cast<int>(std::abs(o.c) % nv);
    if (kind == 0) {
      double got = w->getValue();
      ctx.evd("v", got);
      if (valueFresh && !(got == sc.poly.eval(cur))) ctx.fail("invariant:value-at-point", "invariant:value-at-point:read", "wrapper.getValue()=" + hexfloat(got) + " polynomial=" + hexfloat(sc.poly.eval(cur)));
      ctx.outcome("read"); return;
    }
    if (kind == 3) { readCross(v, u); return; }
    int d = kind;     // 1 or 2
    const char* dn = d == 1 ? "d1" : "d2";
    bool flag = d == 1 ? d1 : d2;
    double got = 0; bool raised = false; std::string what;
    try { got = d == 1 ? w->getFirstOrderDerivative(vname(v)) : w->getSecondOrderDerivative(vname(v)); }
    catch (bpp::Exception& e) { raised = true; what = e.what(); }
    if (!raised) ctx.evd(dn, got); else ctx.ev("raised");
    bool numericPath = isSel(v) && flag && !(scheme == 2 && d == 2);
    if (scheme == 2 && d == 2) { ctx.outcome(raised ? "read-raise" : "read-unasserted"); return; }   // documented: not available with two points
    if (numericPath) {
      Fresh& x = fr[v];
      if (!d1 || !x.valid) { ctx.outcome(raised ? "read-raise" : "read-unasserted"); return; }
      bool current = x.seq == updSeq;
      if (!current) { current = true; for (int i = 0; i < nv; ++i) if (!(x.at[i] == cur[i])) current = false; }
      bool stale = !current;
      if (stale && !staleok) { ctx.outcome("skip"); return; }      // known finding kept rare: see STALE_ONE_IN
      if (x.cls == CLS_NONE) { ctx.probe("both-sides-infeasible-read"); ctx.outcome(raised ? "read-raise" : "read-unasserted"); return; }
      std::string sq = std::string(":") + (scheme == 2 ? "two" : scheme == 3 ? "three" : "five") + (x.cls == CLS_SYM ? ":central" : ":one-sided");
      if (stale) sq = ":stale-after-partial-update";
      std::string c = std::string("model-mismatch:") + dn;
      if (raised) ctx.fail(c, c + ":raised" + sq, std::string(dn) + " read raised: " + what + describe(cur));
      if (!std::isfinite(got)) ctx.fail(c, c + ":not-finite" + sq, std::string(dn) + " of " + vname(v) + " is not finite although one side of the point is feasible" + describe(cur));
      Poly dp = sc.poly.deriv(v); if (d == 2) dp = dp.deriv(v);
      double ref = dp.eval(cur), unit, rem;
      double tol = tolD(d, v, cur, x.cls, x.hmin, x.hmax, &unit, &rem);
      if (stale) { double u2, r2; tol += tolD(d, v, x.at, x.cls, x.hmin, x.hmax, &u2, &r2); }
      double err = std::abs(got - ref);
      if (!stale && rem == 0 && unit > 0) g_cal.see(d - 1, err / unit);
      if (!stale && tol > 0) g_cal.see(3, err / tol);
      if (err > tol)
        ctx.fail(c, c + sq + (stale ? "" : (rem == 0 ? ":exact-degree" : ":remainder-bound")),
                 std::string(dn) + " of " + vname(v) + " = " + fmtd(got) + ", analytic " + fmtd(ref) + ", error " + fmtd(err) + " > bound " + fmtd(tol) + " (rounding " + fmtd(CR * unit) + " + remainder " + fmtd(rem) + ", probe spacing " + fmtd(x.hmin) + ".." + fmtd(x.hmax) + ")" + describe(cur));
      ctx.probe(rem == 0 ? "exact-degree-checked" : "remainder-bound-checked");
      if (x.cls == CLS_ONE) ctx.probe("one-sided-fallback-checked");
      ctx.outcome("read"); return;
    }
    // delegated to the wrapped function
    bool provides = (d == 1 ? iface >= 1 : iface >= 2) && flag && cfgFresh;
    if (!provides) { ctx.outcome(raised ? "read-raise" : "read-unasserted"); return; }
    std::string c = std::string("model-mismatch:delegate-") + dn;
    if (raised) ctx.fail(c, c + ":raised", std::string(dn) + " of the unselected variable " + vname(v) + " raised although the wrapped function provides it: " + what + describe(cur));
    Poly dp = sc.poly.deriv(v); if (d == 2) dp = dp.deriv(v);
    double ref = dp.eval(cur);
    if (!(got == ref)) ctx.fail(c, c + ":value", std::string(dn) + " of the unselected variable " + vname(v) + " = " + hexfloat(got) + " but the wrapped function's analytic value at the point is " + hexfloat(ref) + describe(cur));
    ctx.probe(d == 1 ? "delegated-d1" : "delegated-d2");
    ctx.outcome("read");
  }

  void readCross(int a, int b) {
    if (a == b) { ctx.outcome("skip"); return; }
    bool numericPath = scheme == 3 && cross && isSel(a) && isSel(b);
    if (scheme != 3) {      // documented: not implemented for the two- and five-point schemes
      try { w->getSecondOrderDerivative(vname(a), vname(b)); ctx.outcome("read-unasserted"); } catch (bpp::Exception&) { ctx.outcome("read-raise"); }
      return;
    }
    if (numericPath) {
      bool current = crossSeq[a][b] == updSeq && crossSeq[a][b] >= 0;
      if (!d1 || !current || !crossSym[a][b]) {
        try { w->getSecondOrderDerivative(vname(a), vname(b)); ctx.outcome("read-unasserted"); } catch (bpp::Exception&) { ctx.outcome("read-raise"); }
        return;
      }
      checkCross(a, b, cur);
      ctx.outcome("read"); return;
    }
    double got = 0; bool raised = false; std::string what;
    try { got = w->getSecondOrderDerivative(vname(a), vname(b)); } catch (bpp::Exception& e) { raised = true; what = e.what(); }
    bool provides = iface >= 2 && d2 && cfgFresh;
    if (!provides) { ctx.outcome(raised ? "read-raise" : "read-unasserted"); return; }
    if (raised) ctx.fail("model-mismatch:delegate-cross", "model-mismatch:delegate-cross:raised", "cross derivative not computed by the wrapper raised although the wrapped function provides it: " + what + describe(cur));
    double ref = sc.poly.deriv(a).deriv(b).eval(cur);
    ctx.evd("x", got);
    if (!(got == ref)) ctx.fail("model-mismatch:delegate-cross", "model-mismatch:delegate-cross:value", "delegated cross derivative " + hexfloat(got) + " but analytic " + hexfloat(ref) + describe(cur));
    ctx.probe("delegated-cross");
    ctx.outcome("read");
  }
};

// ---------------------------------------------------------------- harness
class C12 : public Harness {
public:
  const char* id() const override { return "C12"; }
  HarnessInfo info() const override {
    HarnessInfo i;
    i.real = {"bpp::TwoPointsNumericalDerivative", "bpp::ThreePointsNumericalDerivative", "bpp::FivePointsNumericalDerivative", "bpp::AbstractNumericalDerivative", "bpp::FunctionWrapper", "bpp::Parameter / ParameterList / IntervalConstraint / AbstractParametrizable (the wrapped function's own parameters)"};
    i.stub = {"SimPolynomial (sparse polynomial, total degree 0..5, 1..4 variables, analytic first/second/cross derivatives; plain / FirstOrderDerivable / SecondOrderDerivable variants; real constrained Parameters; hidden feasibility interval and one-shot refusal raising ConstraintException; log of every update call and the point it left the function at)"};
    i.rule = "plans: a scheme, a polynomial, a box (finite, half-line, none, or narrower than the probe distance), an optional hidden feasible interval, then 4-16 ops: select variables (subset, order), set the step (1e-6..1e-2), toggle first/second/cross derivatives, update through one of the six entry points at points placed relative to the bounds (interior, on a bound, within h, between h and 2h), reads; non-trivial = >=3 successful state-changing steps and >=1 probe actually rejected (by a constraint or by the peer); distinct = distinct fingerprint of the executed op-kind/outcome sequence";
    i.simTime = "steps (no clock in this component)";
    i.faultKinds = {"reject@k", "peer-raise"};
    i.probeNames = {"one-sided-update", "one-sided-fallback-checked", "both-sides-infeasible-update", "both-sides-infeasible-read", "point-exactly-on-bound", "transparent-after-rejected-probe",
                    "peer-raise-one-shot", "peer-raise-hidden-region", "update-raised-both-sides-infeasible", "partial-update", "list-carries-constraints", "list-without-constraints", "list-with-foreign-name",
                    "selection-out-of-order", "selection-proper-subset", "exact-degree-checked", "remainder-bound-checked", "delegated-d1", "delegated-d2", "delegated-cross",
                    "entry-setParameters", "entry-setAllParametersValues", "entry-setParameterValue", "entry-setParametersValues", "entry-matchParametersValues", "entry-f"};
    i.tolerances["derivative"] = "|numeric - analytic| <= 1024*eps*(P|.|(|x|+H e_v)/hmin^d + |d^d P|.|/dx_v^d|) + sum_{k>E} 2k|c_k|H^(k-d); P|.| = polynomial with absolute coefficients, c_k = Taylor coefficients of the known polynomial along the variable at the point, hmin/H = smallest spacing / largest offset of the probes the peer actually received, E = exact degree: two-point d1: 1; three-point central d1: 2, d2: 3; five-point central d1: 4, d2: 5; any one-sided fallback d1: 1, d2: 2. Worst unchanged-tree error/unit ratio measured over 8e5 runs: d1 3.2, d2 5.9, cross 0.25 (margin > 170x)";
    i.tolerances["cross"] = "|numeric - analytic| <= 1024*eps*(P|.|/(h1*h2) + |d2P|.||) + sum_{i,j>=1,i+j>=4} 2(i+j)|c_ij|max(h1,h2)^(i+j-2) (central four-corner scheme: exact to total degree 3, order 2)";
    i.tolerances["transparency"] = "exact (==) on every parameter of the wrapped function, on wrapper.getValue(), function.getValue() and the return value of f()";
    i.assumptions = {"the first/second-derivative switches of the wrapper are only toggled in runs whose peer recomputes its analytic tables when re-enabled (toggling them is outside the quantifier; a lazily enabling peer legitimately keeps stale tables until its next evaluation)",
                     "after an entry-point call that raises, nothing is asserted and the model re-synchronises from the wrapped function (the statement speaks about calls that return)",
                     "derivative values are asserted only for variables refreshed by the last returned update under the current configuration (selection, step and enable flags unchanged since), with first-order derivatives enabled (the numerical branch is skipped otherwise)",
                     "derivative values when neither side of the point has room for the nominal probes are not asserted (NaN, garbage or a raise from the five-point scheme are accepted)",
                     "cross derivatives are asserted only for the three-point scheme with every involved variable having both nominal probes feasible (the code documents that it raises at a limit); a raise from cross probes next to a bound is accepted",
                     "second derivatives of the two-point scheme and cross derivatives of the two- and five-point schemes are documented as unavailable: reads may raise",
                     "delegation is asserted only when the wrapped function offers the interface and the corresponding enable flag is on (the wrapper forwards the flag to the function)",
                     "the peer refuses probes only: a call that would leave it at the requested point is never refused by the one-shot fault; the hidden region always contains the requested point",
                     "values are compared with == (so +0 and -0 are the same point), parameter precision 0",
                     "three-point cross probes with >= 2 selected variables (known finding) are generated in 1 run of 50; reads of derivatives the last partial update did not refresh (known finding) are checked in 1 run of 50 and skipped otherwise"};
    return i;
  }
  long defaultRuns(Tier t) const override { return t == QUICK ? 80000 : 1500000; }

  // systematic prefix: scheme x position of p0 relative to its bounds x entry point x list with/without constraints x selection order,
  // on a fixed polynomial whose degree in p0 is the highest one the scheme's central second-derivative formula differentiates exactly
  long enumCount(Tier) const override { return 3 * 7 * 6 * 2 * 2; }
  Plan enumPlan(long idx, Tier) const override {
    Plan p;
    long code = idx % 7; idx /= 7; long entry = idx % 6; idx /= 6; long wc = idx % 2; idx /= 2; long ordr = idx % 2; idx /= 2;
    static const long SCH[] = {2, 3, 5};
    long scheme = SCH[idx % 3], E = scheme == 2 ? 1 : (scheme == 3 ? 3 : 5);
    p.cfg["scheme"] = scheme; p.cfg["nv"] = 2; p.cfg["deg"] = E; p.cfg["iface"] = scheme == 2 ? 1 : 2; p.cfg["enumerated"] = 1;
    p.cfg["xok"] = 0; p.cfg["staleok"] = 0; p.cfg["xfirst"] = 0; p.cfg["noneok"] = 0;
    p.cfg["nt"] = 4;
    p.cfg["e0"] = E; p.cfgd["c0"] = 0.5;          // 0.5 p0^E
    p.cfg["e1"] = 7; p.cfgd["c1"] = 1;            // p0 p1
    p.cfg["e2"] = 12; p.cfgd["c2"] = -0.75;       // -0.75 p1^2
    p.cfg["e3"] = 0; p.cfgd["c3"] = 0.25;
    p.cfg["bt0"] = 1; p.cfgd["lo0"] = -1; p.cfgd["wd0"] = 3; p.cfgd["x00"] = 0.5;
    p.cfg["bt1"] = 1; p.cfgd["lo1"] = 0; p.cfgd["wd1"] = 3; p.cfgd["x01"] = 0.5;
    p.ops.push_back(Op("sel", 3, ordr));
    Op u("upd", entry, entry == K_SETONE ? 0 : 3, code, wc); u.x = 0.3; u.y = 0.5; p.ops.push_back(u);
    p.ops.push_back(Op("read", 1, 0)); p.ops.push_back(Op("read", 2, 0)); p.ops.push_back(Op("read", 1, 1)); p.ops.push_back(Op("read", 2, 1)); p.ops.push_back(Op("read", 0));
    return p;
  }

  Plan generate(Rng& rng, Tier) const override {
    Plan p;
    static const long SCH[] = {2, 3, 5};
    long scheme = SCH[rng.below(3)];
    long nv = 1 + static_cast<long>(rng.weighted({1, 2, 2, 1}));
    long deg = rng.below(6);
    p.cfg["scheme"] = scheme; p.cfg["nv"] = nv; p.cfg["deg"] = deg;
    p.cfg["iface"] = scheme == 2 ? rng.below(2) : rng.below(3);
    p.cfg["lazyen"] = rng.below(2);
    p.cfg["xok"] = rng.below(XOK_ONE_IN) == 0; p.cfg["staleok"] = rng.below(STALE_ONE_IN) == 0; p.cfg["xfirst"] = rng.below(2); p.cfg["noneok"] = rng.below(NONE_ONE_IN) == 0;
    long nt = rng.range(1, 8); p.cfg["nt"] = nt;
    bool mixed = rng.chance(0.7);       // favour terms that couple variables
    for (long j = 0; j < nt; ++j) {
      long tot = j == 0 ? deg : rng.range(0, deg); int e[MAXV] = {0, 0, 0, 0};
      for (long k = 0; k < tot; ++k) ++e[mixed ? rng.below(nv) : (j % nv)];
      long code = 0; for (int i = MAXV - 1; i >= 0; --i) code = code * 6 + e[i];
      p.cfg["e" + std::to_string(j)] = code;
      double c = rng.chance(0.3) ? static_cast<double>(rng.range(1, 3)) * (rng.chance(0.5) ? 1 : -1) : rng.real(-2, 2);
      p.cfgd["c" + std::to_string(j)] = c;
    }
    double pHid = rng.pick(std::vector<double>{0, 0, 0.3, 0.6});
    for (long i = 0; i < nv; ++i) {
      std::string si = std::to_string(i);
      long bt = static_cast<long>(rng.weighted({2, 4.5, 1.5, 0.7, 1.5}));
      p.cfg["bt" + si] = bt;
      double lo = rng.chance(0.3) ? static_cast<double>(rng.range(-2, 1)) : rng.real(-4, 2);
      if (rng.chance(0.1)) lo = rng.real(10, 60);
      p.cfgd["lo" + si] = lo;
      p.cfgd["wd" + si] = bt == 4 ? rng.logUniform(1e-7, 3e-2) : rng.real(0.5, 5);
      p.cfg["hid" + si] = rng.chance(pHid) ? rng.range(1, 3) : 0;
      p.cfgd["ha" + si] = rng.unit(); p.cfgd["hb" + si] = rng.unit();
      p.cfgd["x0" + si] = rng.unit();
    }
    long n = rng.range(4, 16);
    double pNear = rng.pick(std::vector<double>{0, 0.2, 0.5, 0.8});
    double pOne = rng.pick(std::vector<double>{0, 0, 0.1, 0.3});
    double pPartial = rng.pick(std::vector<double>{0, 0.3, 0.6});
    std::vector<double> wk = {5, 6, 0.7, 0.7, 0.25, 0.25, 0.5};   // upd read sel seth d1 d2 cross
    for (size_t k = 2; k < wk.size(); ++k) if (rng.chance(0.3)) wk[k] *= rng.chance(0.5) ? 0 : 3;
    static const char* K[] = {"upd", "read", "sel", "seth", "d1", "d2", "cross"};
    bool forceUpd = false;
    for (long i = 0; i < n; ++i) {
      size_t k = i == 0 ? 2 : (forceUpd ? 0 : rng.weighted(wk));
      if (i == 1 && rng.chance(0.5)) k = 3;
      Op o(K[k]);
      if (k == 0) {
        o.a = static_cast<long>(rng.weighted({3, 1.5, 2, 1.5, 1.5, 1.5}));
        o.b = rng.chance(pPartial) ? rng.range(1, (1 << nv) - 1) : (1 << nv) - 1;
        long codes = 0;
        for (long v = 0; v < MAXV; ++v) { long c = rng.chance(pNear) ? rng.range(1, 6) : (rng.chance(0.08) ? 7 : 0); codes |= c << (3 * v); }
        o.c = codes;
        o.d = (rng.chance(0.5) ? 1 : 0) | (rng.chance(0.3) ? 2 : 0) | (rng.chance(0.15) ? 4 : 0) | (rng.chance(pOne) ? (rng.range(1, 8) << 3) : 0);
        o.x = rng.unit(); o.y = rng.unit();
      } else if (k == 1) {
        o.a = static_cast<long>(rng.weighted({1, 4, 3, 1.5})); o.b = rng.below(nv); o.c = rng.below(nv);
      } else if (k == 2) {
        o.a = rng.chance(0.5) ? (1 << nv) - 1 : rng.range(rng.chance(0.05) ? 0 : 1, (1 << nv) - 1); o.b = rng.below(24);
      } else if (k == 3) { o.a = rng.below(4); o.b = rng.below(4); }
      else { o.a = k == 6 ? (rng.chance(0.75) ? 1 : 0) : (rng.chance(0.35) ? 0 : 1); }
      forceUpd = k >= 2 && rng.chance(0.8);
      p.ops.push_back(o);
      if (k == 0) {      // reads right after an update: which cached quantity is read first is part of the schedule
        long nr = rng.below(4);
        for (long r = 0; r < nr; ++r) { Op q("read"); q.a = static_cast<long>(rng.weighted({1, 4, 3, 1.5})); q.b = rng.below(nv); q.c = rng.below(nv); p.ops.push_back(q); }
      }
    }
    return p;
  }

  void execute(const Plan& p, Ctx& ctx) const override {
    Exec e(p, ctx);
    try { e.run(); }
    catch (SimViolation&) { throw; }
    catch (bpp::Exception& ex) { ctx.fail("foreign-exception:bpp-unexpected", "foreign-exception:bpp-unexpected", ex.what()); }
    catch (std::exception& ex) { ctx.fail("foreign-exception:std", "foreign-exception:std", ex.what()); }
  }
};

Registrar reg(new C12());

}  // namespace
