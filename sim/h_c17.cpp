// C17 — write -> store -> read round trips (the fault-free configuration of the C16 world).
// Only benign read chunking and the choice between the ostream / OutputStream writer overloads vary.
// Oracle: what is read back equals what was written, inside the domain the statement gives.
#include "simstore_exec.h"

using namespace dsim;
using namespace simstore;

namespace {

long chunkPick(Rng& rng, double pChunk) { static const std::vector<long> C = {1, 2, 3, 5, 7, 16, 64}; return rng.chance(pChunk) ? rng.pick(C) : 0; }

class C17 : public Harness {
public:
  const char* id() const override { return "C17"; }
  HarnessInfo info() const override {
    HarnessInfo i;
    i.real = {"DataTable::write (both overloads) -> DataTable::read", "BppODiscreteDistributionFormat::writeDiscreteDistribution -> readDiscreteDistribution", "BppOParametrizableFormat::write -> KeyvalTools::multipleKeyvals + ApplicationTools::getDoubleParameter",
              "ParameterList::printParameters -> FileTools::getNextLine + StringTokenizer + TextTools::toDouble", "IntervalConstraint::getDescription -> readDescription (observed only)",
              "AttributesTools::getAttributesMapFromFile / getAttributesMap / resolveVariables / parseOptions on harness-written option files", "KeyvalTools::parseProcedure on rendered procedures", "StringTokenizer::unparseRemainingTokens"};
    i.stub = {"SimOutBuf / SimInBuf (simulated store, chunked reads)", "harness writer for option files, include chains and key=value procedures (documented syntax)", "scratch directory out/tmp/sst-<pid>-<n>/", "SimParams"};
    i.rule = "plans: 1-4 fault-free transactions write -> read with the reader options that correspond to the writer options, read chunk size randomised; non-trivial = >=3 completed steps of which >=1 value comparison; distinct = distinct fingerprint of the executed op-kind/outcome sequence";
    i.simTime = "steps";
    i.faultKinds = {"read-chunking"};
    i.probeNames = {"compared:table", "compared:dist", "compared:params", "compared:plist", "compared:wildcard", "compared:optfile", "compared:resolve", "compared:resolve-dollar-shape", "compared:optchain", "compared:keyval", "compared:keyval-substitution", "compared:tokens", "compared:tokens-after-consuming", "compared:tokens-after-consuming-mixed-separators",
                    "written:table", "written:dist", "written:pfmt", "written:plist", "written:interval", "written:opt", "written:chain", "written:keyval"};
    i.assumptions = {"tables: 1..6 columns, at least two text lines, unique names, row names only together with column names, separator-free non-blank cells, single-character separator; reader called with the same separator, header = table has column names",
                     "row-names-from-column option: compared only for tables without row names whose chosen column holds unique values",
                     "distributions: class values / probabilities compared with |d| <= 2e-5*(1+|x|) (parameters are written with 12 decimals; calibrated: worst unchanged-tree ratio 1.3e-7, Beta quantile inversion); Simple and Constant are compared with 1e-9*(1+|x|) (no numerical inversion); a Constant value that is not a short decimal is compared to the stream precision (2*10^-p)",
                     "option files: map equality for files without C block comments and without duplicate keys; variable resolution asserted (no '$(' left) for acyclic definitions only",
                     "include chains: every key of every reachable file is present and no reference is left; which definition wins is not asserted",
                     "interval descriptions, formulas: exercised, not compared (not in the statement)",
                     "the strict decimal grammar of number conversion has no storage in it and is not decided here; argument substitution (changeKeyvals) is decided on the procedures read back from storage: a plan-chosen subset of the present keys plus one absent key; wildcard matching is compared with a reference glob matcher only for the names read back from stored parameter lists and option maps and patterns made from those names (own name, prefix*, *suffix, first*last, *, empty, **); the re-join law is checked only for non-solid single-character delimiters with empty tokens allowed and no leading delimiter"};
    i.tolerances["dist"] = "2e-5*(1+|x|) (>=100x the worst unchanged-tree deviation 1.3e-7, Beta) on class values and probabilities of families that invert a cdf; Simple/Constant 1e-9*(1+|x|); Constant with a long decimal value + 2*10^-p (p = stream precision)";
    i.tolerances["params"] = "0.6e-12 + 1e-15*|v| (12 decimals written)";
    i.tolerances["plist"] = "0.6*10^-p + 1e-14*|v| (p = stream precision)";
    return i;
  }
  long defaultRuns(Tier t) const override { return t == QUICK ? 40000 : 1500000; }

  Plan generate(Rng& rng, Tier) const override {
    Plan p;
    std::vector<double> kindW = {4, 3, 1.5, 1.5, 0.5, 2.5, 1.2, 2.5, 0};
    for (auto& x : kindW) if (rng.chance(0.25)) x *= rng.chance(0.5) ? 0 : 3;
    { double s = 0; for (double x : kindW) s += x; if (s == 0) kindW[0] = 1; }
    double pChunk = rng.chance(0.3) ? 0 : rng.real(0.2, 0.9);
    bool freeValues = rng.chance(0.3);         // class values / probabilities that are not short decimals
    p.cfg["free"] = freeValues;
    // the invariant class value is not part of the description language (known finding, kept): a value other than the
    // reader's built-in 1e-6 is generated in about 1 run in 500 only
    bool risky = rng.chance(0.002); long riskyAllow = risky ? 4 : 0;
    p.cfg["risky"] = riskyAllow;
    long T = rng.range(1, 4);
    for (long t = 0; t < T; ++t) {
      int kind = static_cast<int>(rng.weighted(kindW));
      long shape = rng.below(1 << 16);
      if (kind == K_DIST) { shape = shape % 80; if (freeValues) shape += 80; shape += 160 * (1 | 2 | 8 | riskyAllow); }
      if (kind == K_OPT) { long n = shape % 9, bits = (shape / 9) & (1 | 2 | 4 | 32); shape = n + 9 * bits; }        // no cycles, no block comments, no duplicate keys
      if (kind == K_CHAIN) { long nf = shape % 3, topo = (shape / 3) % 6; if (topo == 4) topo = 0; shape = nf + 3 * (topo + 6 * ((shape / 18) & 3)); }
      if (kind == K_KEYVAL) shape = shape % 14 + ((shape & 1024) ? 28 : 0) + ((shape & 2048) ? (1L << 20) : 0);     // bit 20: blanks around '='
      p.ops.push_back(Op(writerOp(kind), static_cast<long>(rng.next() & 0x3fffffff), shape, rng.below(13), 0));
      long docIdx = t;
      std::vector<std::string> nat = naturalReaders(kind);
      long nreads = rng.range(1, 2);
      for (long q = 0; q < nreads; ++q) {
        std::string rk = rng.pick(nat);
        if (rk == "r.keyvals" || rk == "r.nested") rk = kind == K_PFMT ? "r.pfmt" : "r.proc";
        long opts = NATURAL | rng.below(2);
        p.ops.push_back(Op(rk, docIdx, opts, chunkPick(rng, pChunk), rng.below(1 << 16)));
        if (rk == "r.optfile" || rk == "r.optmap") { p.ops.push_back(Op("r.resolve", 0, 0)); if (rng.chance(0.3)) p.ops.push_back(Op("r.query", 0, rng.below(64), 0, rng.below(14))); }
        if (rk == "r.table" && rng.chance(0.2)) p.ops.push_back(Op("r.tedit", 0, rng.below(8), rng.below(8), rng.below(18 * 18 * 18)));
      }
      if (rng.chance(0.25)) p.ops.push_back(Op("r.tok", docIdx, 2 | 256 | (rng.below(11) << 9), chunkPick(rng, pChunk), static_cast<long>(kind) + 9 * rng.below(5)));
      if (rng.chance(0.15)) p.ops.push_back(Op("r.lines", docIdx, 1, chunkPick(rng, pChunk), static_cast<long>(kind)));
    }
    return p;
  }
  void execute(const Plan& p, Ctx& ctx) const override {
    Exec e(p, ctx, true);
    try { e.run(); }
    catch (SimViolation&) { throw; }
    catch (bpp::Exception& ex) { ctx.fail("harness:bpp-exception-outside-guard", "harness:bpp-exception-outside-guard", ex.what()); }
    catch (std::exception& ex) { ctx.fail("harness:std-exception-outside-guard", "harness:std-exception-outside-guard", ex.what()); }
  }
  bool nontrivial(const Ctx& c) const override {
    if (c.okSteps < 3) return false;
    for (auto& kv : c.probes) if (kv.first.compare(0, 9, "compared:") == 0 && kv.second > 0) return true;
    return false;
  }
};

Registrar reg(new C17());

}  // namespace
