// C15 — tree/DAG validity follows the graph-theoretic definition at every moment (cached verdicts are
// never stale), re-rooting keeps the topology and the edge identities/objects, edge objects given to
// setFather/addSon end up on the new link, structural queries equal a brute-force reference tree.
// World (real code): AssociationTreeGlobalGraphObserver<SimNode,SimEdge> over TreeGraphImpl<GlobalGraph>,
// AssociationDAGlobalGraphObserver<SimNode,SimEdge> over DAGraphImpl<GlobalGraph>.
// Model: node set + edge list (a->b, library edge id as observed, attached edge payload id) + root + directed flag,
// with brute-force validity / father / sons / subtree / leaves / path / MRCA.
#include "engine.h"
#include <Bpp/Graph/AssociationTreeGraphImplObserver.h>
#include <Bpp/Graph/AssociationDAGraphImplObserver.h>
#include <Bpp/Exceptions.h>
#include <algorithm>
#include <stdexcept>
#include <memory>

using namespace dsim;

namespace {

struct SimNode { int id = -1; };
struct SimEdge { int id = -1; };
typedef std::shared_ptr<SimNode> NP;
typedef std::shared_ptr<SimEdge> EP;

// addr-perm: payload objects live in fixed arenas; the plan decides which slot the k-th object takes, so the
// address order seen by the observers' pointer-keyed maps is a plan-chosen permutation (and repeatable).
const int NODE_SLOTS = 64, EDGE_SLOTS = 256;
SimNode g_nodeArena[NODE_SLOTS];
SimEdge g_edgeArena[EDGE_SLOTS];
const int NODE_CAP = 56, EDGE_CAP = 250;
const unsigned NOLIB = 0xFFFFFFFFu;

// Triggers of findings.  The trigger of a finding that is still open is generated only in runs whose plan sets its flag
// (about 1 run in 50); once the finding is fixed in the library its trigger is generated at full rate.
struct Hazard { const char* flag; bool fixed; };
const Hazard HAZARDS[] = {
  {"kSetRoot", true},     // validity verdict cached across setRoot                      (fixed: 01-setroot-invalidates-validity)
  {"kRecip", true},       // a son linking back to its father counted as a tree          (fixed: 02-istree-reciprocal-link)
  {"kLeaves", true},      // leaves under a node with a single son                       (fixed: 03-leaves-under-single-son)
  {"kMrca", true},        // MRCA of nodes at different depths                           (fixed: 04-mrca-unequal-depths)
  {"kUnrooted", true},    // rootAt on an un-rooted tree                                 (fixed: 05-rootat-unrooted-tree)
  {"kFreshEdge", true},   // tree addSon/setFather with a new edge object                (fixed: 06-tree-observer-new-edge-object)
};
bool hazardOn(const Plan& p, const char* flag) {
  for (const Hazard& h : HAZARDS) if (std::string(h.flag) == flag && h.fixed) return true;
  return p.geti(flag) != 0;
}

int idOf(const NP& p) { return p ? p->id : -1; }
int idOf(const EP& p) { return p ? p->id : -1; }

struct MEdge { int a, b; unsigned lib; int obj; };
bool edgeLess(const MEdge& x, const MEdge& y) { return x.a != y.a ? x.a < y.a : x.b < y.b; }

// ------------------------------------------------------------------ reference model
struct Model {
  bool directed = true;
  std::set<int> nodes;
  std::vector<MEdge> edges;      // a->b when directed; unordered (stored a<b) when undirected
  int root = -1;                 // -1: the container's root designates no live node

  bool has(int a, int b) const {           // directed: exactly a->b ; undirected: any
    for (auto& e : edges) if ((e.a == a && e.b == b) || (!directed && e.a == b && e.b == a)) return true;
    return false;
  }
  bool hasAny(int a, int b) const { for (auto& e : edges) if ((e.a == a && e.b == b) || (e.a == b && e.b == a)) return true; return false; }
  const MEdge* find(int a, int b) const { for (auto& e : edges) if (e.a == a && e.b == b) return &e; return nullptr; }
  const MEdge* findAny(int a, int b) const { for (auto& e : edges) if ((e.a == a && e.b == b) || (e.a == b && e.b == a)) return &e; return nullptr; }
  std::vector<int> sons(int v) const { std::vector<int> r; for (auto& e : edges) if (e.a == v) r.push_back(e.b); std::sort(r.begin(), r.end()); return r; }
  std::vector<int> fathers(int v) const { std::vector<int> r; for (auto& e : edges) if (e.b == v) r.push_back(e.a); std::sort(r.begin(), r.end()); return r; }
  std::vector<int> nbrs(int v) const { std::vector<int> r; for (auto& e : edges) { if (e.a == v) r.push_back(e.b); else if (e.b == v) r.push_back(e.a); } std::sort(r.begin(), r.end()); return r; }
  bool hasReciprocal() const { for (auto& e : edges) if (find(e.b, e.a)) return true; return false; }

  // a tree spanning all nodes from the root
  static bool treeValidOf(const std::set<int>& nodes, const std::vector<MEdge>& edges, int root, bool directed) {
    if (!nodes.count(root)) return false;
    if (edges.size() + 1 != nodes.size()) return false;
    std::set<int> seen; std::vector<int> st; seen.insert(root); st.push_back(root);
    while (!st.empty()) {
      int v = st.back(); st.pop_back();
      for (auto& e : edges) {
        int w = -1;
        if (e.a == v) w = e.b; else if (!directed && e.b == v) w = e.a;
        if (w >= 0 && seen.insert(w).second) st.push_back(w);
      }
    }
    return seen.size() == nodes.size();
  }
  bool treeValid() const { return treeValidOf(nodes, edges, root, directed); }
  // would it be a valid tree if, of every reciprocal pair, one edge were ignored?  (classification only)
  bool validIgnoringReciprocal() const {
    if (!directed) return false;
    std::vector<size_t> pairs;   // index of the edge x->y with x<y of each reciprocal pair
    for (size_t i = 0; i < edges.size(); ++i) if (edges[i].a < edges[i].b && find(edges[i].b, edges[i].a)) pairs.push_back(i);
    if (pairs.empty() || pairs.size() > 6) return false;
    for (unsigned mask = 0; mask < (1u << pairs.size()); ++mask) {
      std::vector<MEdge> es;
      for (size_t i = 0; i < edges.size(); ++i) {
        bool drop = false;
        for (size_t k = 0; k < pairs.size(); ++k) {
          const MEdge& f = edges[pairs[k]];
          bool fwd = edges[i].a == f.a && edges[i].b == f.b, bwd = edges[i].a == f.b && edges[i].b == f.a;
          if ((fwd && ((mask >> k) & 1)) || (bwd && !((mask >> k) & 1))) drop = true;
        }
        if (!drop) es.push_back(edges[i]);
      }
      if (treeValidOf(nodes, es, root, true)) return true;
    }
    return false;
  }
  bool acyclic() const {        // directed graph without a directed cycle
    std::map<int, int> indeg; for (int v : nodes) indeg[v] = 0;
    for (auto& e : edges) ++indeg[e.b];
    std::vector<int> st; for (auto& kv : indeg) if (kv.second == 0) st.push_back(kv.first);
    size_t done = 0;
    while (!st.empty()) { int v = st.back(); st.pop_back(); ++done; for (auto& e : edges) if (e.a == v && --indeg[e.b] == 0) st.push_back(e.b); }
    return done == nodes.size();
  }
  // ---- queries on a valid rooted (directed) tree
  int parent(int v) const { for (auto& e : edges) if (e.b == v) return e.a; return -1; }
  int depth(int v) const { int d = 0; while ((v = parent(v)) >= 0) ++d; return d; }
  std::vector<int> up(int v) const { std::vector<int> r; for (; v >= 0; v = parent(v)) r.push_back(v); return r; }   // v .. root
  bool isAncestor(int a, int d) const { for (; d >= 0; d = parent(d)) if (d == a) return true; return false; }       // reflexive
  void subtree(int v, std::vector<int>& ns, std::vector<const MEdge*>& es) const {
    ns.push_back(v);
    for (auto& e : edges) if (e.a == v) { es.push_back(&e); subtree(e.b, ns, es); }
  }
  int mrca(const std::vector<int>& s) const {
    std::vector<int> u = up(s[0]);
    for (int a : u) { bool all = true; for (int x : s) if (!isAncestor(a, x)) { all = false; break; } if (all) return a; }
    return -1;
  }
  std::vector<int> path(int a, int b) const {   // a .. mrca .. b
    int m = mrca(std::vector<int>{a, b});
    std::vector<int> r; for (int v = a; v != m; v = parent(v)) r.push_back(v);
    r.push_back(m);
    std::vector<int> t; for (int v = b; v != m; v = parent(v)) t.push_back(v);
    r.insert(r.end(), t.rbegin(), t.rend());
    return r;
  }
  uint64_t fingerprint() const {
    uint64_t h = directed ? 0x9e37 : 0x7f4a; h = h * 1099511628211ULL ^ static_cast<uint64_t>(root + 2);
    for (int v : nodes) h = h * 1099511628211ULL ^ static_cast<uint64_t>(v + 11);
    std::vector<MEdge> es = edges; std::sort(es.begin(), es.end(), edgeLess);
    for (auto& e : es) h = (h * 1099511628211ULL ^ static_cast<uint64_t>(e.a * 64 + e.b)) * 31 + static_cast<uint64_t>(e.obj >= 0 ? 1 : 0);
    return h;
  }
};

std::string vecStr(const std::vector<int>& v) { std::string s = "["; for (size_t i = 0; i < v.size(); ++i) { if (i) s += ","; s += std::to_string(v[i]); } return s + "]"; }
std::string edgesStr(const std::vector<MEdge>& es, bool directed) {
  std::string s; for (auto& e : es) s += std::to_string(e.a) + (directed ? "->" : "--") + std::to_string(e.b) + "(e" + (e.lib == NOLIB ? std::string("?") : std::to_string(e.lib)) + (e.obj >= 0 ? ",o" + std::to_string(e.obj) : "") + ") ";
  return s;
}

// ------------------------------------------------------------------ shared machinery of both worlds
template <class Obs> class Base {
protected:
  const Plan& p; Ctx& ctx; Obs obs; Model m;
  std::map<int, NP> nobj;
  int nextNode = 0, nextEdge = 0;
  long stride, off, maxn;
  std::string lastEdit = "none";
  bool warm = false;                 // a validity verdict may have been computed since the last topology edit
  bool warmBefore = false;           // ... and one had been computed when the last topology edit was made
  bool warmTrue = false;             // a verdict "valid" may have been computed since the last topology edit
  bool isDag;

  template <class... A> Base(const Plan& pl, Ctx& c, bool dag, A&&... a) : p(pl), ctx(c), obs(std::forward<A>(a)...), isDag(dag) {
    stride = pl.geti("stride", 1) | 1; off = pl.geti("off", 0); maxn = pl.geti("maxn", dag ? 6 : 12);
    if (stride % NODE_SLOTS != 1) ctx.fault("addr-perm");
  }
  virtual ~Base() {}

  NP mkNode(int id) {
    long slot = ((static_cast<long>(id) * stride + off) % NODE_SLOTS + NODE_SLOTS) % NODE_SLOTS;
    g_nodeArena[slot].id = id;
    return NP(&g_nodeArena[slot], [](SimNode*) {});
  }
  EP mkEdge() {
    if (nextEdge >= EDGE_CAP) return EP();
    int id = nextEdge++;
    long slot = ((static_cast<long>(id) * stride + off) % EDGE_SLOTS + EDGE_SLOTS) % EDGE_SLOTS;
    g_edgeArena[slot].id = id;
    return EP(&g_edgeArena[slot], [](SimEdge*) {});
  }
  std::vector<int> live() const { return std::vector<int>(m.nodes.begin(), m.nodes.end()); }
  int pick(long k) const { std::vector<int> l = live(); return l[static_cast<size_t>(k) % l.size()]; }
  unsigned gid(int v) { return obs.getNodeGraphid(nobj[v]); }

  [[noreturn]] void fail(const std::string& cls, const std::string& sig, const std::string& d) { ctx.fail(cls, sig, d + " | model: " + (m.directed ? "directed" : "undirected") + " root=" + std::to_string(m.root) + " nodes=" + vecStr(live()) + " edges: " + edgesStr(m.edges, m.directed)); }

  void norm(std::vector<MEdge>& es) const { if (!m.directed) for (auto& e : es) if (e.a > e.b) std::swap(e.a, e.b); std::sort(es.begin(), es.end(), edgeLess); }

  // what the container reports now: node set, links, their ids and attached objects
  std::vector<MEdge> observe(const std::string& op) {
    std::vector<NP> all = obs.getAllNodes();
    std::set<int> got; for (auto& q : all) got.insert(idOf(q));
    if (got != m.nodes) fail("model-mismatch:nodes", "model-mismatch:nodes:" + op, "node set reported " + vecStr(std::vector<int>(got.begin(), got.end())));
    std::vector<MEdge> r;
    auto g = obs.getGraph();
    for (int a : m.nodes) {
      std::vector<NP> out = obs.getOutgoingNeighbors(nobj[a]);
      for (auto& q : out) {
        int b = idOf(q);
        MEdge e; e.a = a; e.b = b;
        if (!m.directed) { if (e.a > e.b) std::swap(e.a, e.b); bool dup = false; for (auto& x : r) if (x.a == e.a && x.b == e.b) dup = true; if (dup) continue; }
        e.lib = g->getEdge(gid(a), obs.getNodeGraphid(q));
        e.obj = idOf(obs.getEdgeFromGraphid(e.lib));
        r.push_back(e);
      }
    }
    std::sort(r.begin(), r.end(), edgeLess);
    return r;
  }
  // 0 equal; 1 different links; 2 an edge changed identity; 3 an edge carries another object
  int compare(std::vector<MEdge> pred, const std::vector<MEdge>& now, std::string& why) const {
    norm(pred);
    if (pred.size() != now.size()) { why = "links now: " + edgesStr(now, m.directed) + " expected: " + edgesStr(pred, m.directed); return 1; }
    for (size_t i = 0; i < pred.size(); ++i) if (pred[i].a != now[i].a || pred[i].b != now[i].b) { why = "links now: " + edgesStr(now, m.directed) + " expected: " + edgesStr(pred, m.directed); return 1; }
    for (size_t i = 0; i < pred.size(); ++i) if (pred[i].lib != NOLIB && pred[i].lib != now[i].lib) { why = "link " + std::to_string(now[i].a) + "," + std::to_string(now[i].b) + " changed its edge id"; return 2; }
    for (size_t i = 0; i < pred.size(); ++i) if (pred[i].obj != now[i].obj) { why = "link " + std::to_string(now[i].a) + "," + std::to_string(now[i].b) + " carries object " + std::to_string(now[i].obj) + ", expected " + std::to_string(pred[i].obj); return 3; }
    return 0;
  }
  void sync(const std::vector<MEdge>& pred, const std::string& op) {
    std::vector<MEdge> now = observe(op);
    std::string why; int c = compare(pred, now, why);
    static const char* K[] = {"", "topology", "edge-identity", "edge-object"};
    if (c) fail(std::string("model-mismatch:") + K[c], std::string("model-mismatch:") + K[c] + ":" + op, "after " + op + ": " + why);
    m.edges = now;
    ctx.state(m.fingerprint());
  }
  virtual void adoptExtra() {}
  // the statement is silent about this step's effect: take what the container reports
  void adopt(const std::string& op) {
    std::vector<NP> all = obs.getAllNodes();
    m.nodes.clear(); for (auto& q : all) m.nodes.insert(idOf(q));
    adoptExtra();
    std::vector<MEdge> now = observe(op);
    m.edges = now;
    ctx.state(m.fingerprint());
  }
  template <class F> void edgeObjectQuery(F f) { f(); }
  EP edgeLinking(int a, int b) { return obs.getEdgeLinking(nobj[a], nobj[b]); }
  void checkLinkObject(int a, int b, const EP& e, const std::string& op) {
    EP got = edgeLinking(a, b);
    if (got != e) fail("model-mismatch:edge-object", "model-mismatch:edge-object:" + op + ":getEdgeLinking", "getEdgeLinking(" + std::to_string(a) + "," + std::to_string(b) + ") reports object " + std::to_string(idOf(got)) + ", the one given to " + op + " is " + std::to_string(idOf(e)));
  }
  int newNode() {
    int id = nextNode++;
    nobj[id] = mkNode(id);
    return id;
  }
  bool canCreate() const { return static_cast<long>(m.nodes.size()) < maxn && nextNode < NODE_CAP; }
  // edge object for addSon/setFather/addFather: mode 0 none, 1 an object that is attached to another live link (must be refused), 2 brand-new object
  EP prepareEdge(long mode, long sel) {
    if (mode == 1) {
      std::vector<unsigned> c; for (auto& e : m.edges) if (e.obj >= 0) c.push_back(e.lib);
      if (c.empty()) return EP();
      return obs.getEdgeFromGraphid(c[static_cast<size_t>(sel) % c.size()]);
    }
    if (mode == 2) return mkEdge();
    return EP();
  }
};

// ------------------------------------------------------------------ tree world
typedef bpp::AssociationTreeGlobalGraphObserver<SimNode, SimEdge> TreeObs;

class TreeExec : public Base<TreeObs> {
  bool kSetRoot, kMrca, kLeaves, kRecip, kUnrooted, kFreshEdge;
public:
  TreeExec(const Plan& pl, Ctx& c) : Base<TreeObs>(pl, c, false, true) {
    kSetRoot = hazardOn(pl, "kSetRoot"); kMrca = hazardOn(pl, "kMrca"); kLeaves = hazardOn(pl, "kLeaves");
    kRecip = hazardOn(pl, "kRecip"); kUnrooted = hazardOn(pl, "kUnrooted"); kFreshEdge = hazardOn(pl, "kFreshEdge");
  }
  void adoptExtra() override { m.directed = obs.isRooted(); m.root = idOf(obs.getRoot()); if (!m.nodes.count(m.root)) m.root = -1; }

  // ---- validity read: the verdict must equal the model's at every read
  bool readValid() {
    if (m.nodes.empty()) return false;          // the quantifier starts at one node
    bool want = m.treeValid();
    int got;
    try { got = obs.isValid() ? 1 : 0; } catch (bpp::Exception&) { got = 2; }
    ctx.evi("isValid", got);
    if (got == 2) {
      if (m.root >= 0) fail("model-mismatch:isValid", "model-mismatch:isValid:raised:after-" + lastEdit, "isValid() raised although the root designates a live node");
      ctx.probe("validity-read-with-deleted-root");
      return false;
    }
    if ((got == 1) != want) {
      if (got == 1 && m.validIgnoringReciprocal()) fail("model-mismatch:isValid:reciprocal-edge-to-father", "model-mismatch:isValid:reciprocal-edge-to-father", "isValid() is true although a son also links back to its father (two links between the same nodes: not a tree)");
      if (got == 1 && lastEdit == "setroot") fail("model-mismatch:isValid:stale-after-setRoot", "model-mismatch:isValid:stale-after-setRoot", "isValid() is true although the tree does not span all nodes from the root set by setRoot (verdict cached before setRoot)");
      fail("model-mismatch:isValid", std::string("model-mismatch:isValid:") + (got == 1 ? "true-on-invalid" : "false-on-valid") + ":after-" + lastEdit + (warmBefore ? ":verdict-read-before-edit" : ":no-read-before-edit"), std::string("isValid() = ") + (got == 1 ? "true" : "false") + ", reference says " + (want ? "valid" : "invalid"));
    }
    warm = true; if (got == 1) warmTrue = true;
    if (got == 1) ctx.probe("valid-verdict-read"); else ctx.probe("invalid-verdict-read");
    return got == 1;
  }
  void readRooted() { bool r = obs.isRooted(); ctx.evi("isRooted", r ? 1 : 0); }

  template <class F> void edit(const Op& o, F body) {
    bool early = o.d & 1, late = o.d & 2, wasValid = false;
    if (early) { wasValid = readValid(); if (o.d & 4) readRooted(); }
    long okBefore = ctx.okSteps;
    body();
    bool changed = ctx.okSteps != okBefore;
    if (late) {
      if (early && changed) { ctx.fault("read-order"); if (wasValid && !m.treeValid()) ctx.probe("valid-cached-then-invalidated"); if (!wasValid && m.treeValid()) ctx.probe("invalid-then-repaired"); }
      readValid();
      if (o.d & 4) readRooted();
    }
  }
  void edited(const std::string& op) { lastEdit = op; warmBefore = warm; warm = false; warmTrue = false; }

  bool recipBlocked(int from, int to) const { return m.directed && !kRecip && m.find(to, from) != nullptr; }   // would create to<->from

  // ---- structural queries on a valid rooted tree
  std::vector<int> ids(const std::vector<NP>& v) { std::vector<int> r; for (auto& q : v) r.push_back(idOf(q)); return r; }
  std::vector<int> eids(const std::vector<EP>& v) { std::vector<int> r; for (auto& q : v) r.push_back(idOf(q)); return r; }
  static std::vector<int> sorted(std::vector<int> v) { std::sort(v.begin(), v.end()); return v; }
  static std::vector<int> sortedU(const std::vector<unsigned>& v) { std::vector<int> r(v.begin(), v.end()); std::sort(r.begin(), r.end()); return r; }
  void mm(const std::string& q, const std::string& detail) { fail("model-mismatch:" + q, "model-mismatch:" + q + ":after-" + lastEdit, q + ": " + detail); }

  void checkEdgeEnds() {
    auto g = obs.getGraph();
    for (auto& e : m.edges) {
      if (g->getTop(e.lib) != gid(e.a) || g->getBottom(e.lib) != gid(e.b)) mm("edge-ends", "edge id " + std::to_string(e.lib) + " should run " + std::to_string(e.a) + "->" + std::to_string(e.b) + " but getTop/getBottom disagree");
      if (e.obj >= 0) {
        EP eo = obs.getEdgeFromGraphid(e.lib);
        if (idOf(obs.getFatherOfEdge(eo)) != e.a || idOf(obs.getSon(eo)) != e.b) mm("edge-ends", "edge object " + std::to_string(e.obj) + " should run " + std::to_string(e.a) + "->" + std::to_string(e.b) + " but getFatherOfEdge/getSon disagree");
      }
    }
  }
  void qNode(int v, bool useIndex) {
    auto g = obs.getGraph();
    NP nv = nobj[v];
    int par = m.parent(v);
    bool hf = useIndex ? obs.hasFather(static_cast<unsigned>(v)) : obs.hasFather(nv);
    if (hf != (par >= 0)) mm("hasFather", "node " + std::to_string(v));
    if (par < 0) {
      bool raised = false; int got = -1;
      try { got = idOf(obs.getFatherOfNode(nv)); } catch (bpp::Exception&) { raised = true; }
      if (!raised) mm("getFatherOfNode", "the root " + std::to_string(v) + " was given father " + std::to_string(got));
    } else {
      int got = idOf(obs.getFatherOfNode(nv));
      if (got != par) mm("getFatherOfNode", "node " + std::to_string(v) + " father " + std::to_string(got) + ", reference " + std::to_string(par));
      const MEdge* e = m.find(par, v);
      if (g->getEdgeToFather(gid(v)) != e->lib) mm("getEdgeToFather", "node " + std::to_string(v) + " edge id differs");
      EP eo = useIndex ? obs.getEdgeToFather(static_cast<unsigned>(v)) : obs.getEdgeToFather(nv);
      if (idOf(eo) != e->obj) mm("getEdgeToFather", "node " + std::to_string(v) + " edge object " + std::to_string(idOf(eo)) + ", reference " + std::to_string(e->obj));
    }
    std::vector<int> sons = m.sons(v);
    std::vector<int> gotSons;
    if (useIndex) { std::vector<unsigned> s = obs.getSons(static_cast<unsigned>(v)); gotSons = sortedU(s); } else gotSons = sorted(ids(obs.getSons(nv)));
    if (gotSons != sons) mm("getSons", "node " + std::to_string(v) + " sons " + vecStr(gotSons) + ", reference " + vecStr(sons));
    if (obs.getNumberOfSons(nv) != sons.size()) mm("getNumberOfSons", "node " + std::to_string(v));
    std::vector<int> brIds, brObjs;
    for (auto& e : m.edges) if (e.a == v) { brIds.push_back(static_cast<int>(e.lib)); if (e.obj >= 0) brObjs.push_back(e.obj); }
    std::sort(brIds.begin(), brIds.end()); std::sort(brObjs.begin(), brObjs.end());
    if (sortedU(g->getBranches(gid(v))) != brIds) mm("getBranches", "node " + std::to_string(v) + " edge ids differ");
    edgeObjectQuery([&] { if (sorted(eids(obs.getBranches(nv))) != brObjs) mm("getBranches", "node " + std::to_string(v) + " edge objects differ"); });
    // subtree
    std::vector<int> ns; std::vector<const MEdge*> es; m.subtree(v, ns, es);
    std::vector<int> gotNs = sorted(ids(obs.getSubtreeNodes(nv)));
    if (gotNs != sorted(ns)) mm("getSubtreeNodes", "node " + std::to_string(v) + " gives " + vecStr(gotNs) + ", reference " + vecStr(sorted(ns)));
    std::vector<int> seIds, seObjs; for (auto* e : es) { seIds.push_back(static_cast<int>(e->lib)); if (e->obj >= 0) seObjs.push_back(e->obj); }
    if (sortedU(g->getSubtreeEdges(gid(v))) != sorted(seIds)) mm("getSubtreeEdges", "node " + std::to_string(v) + " edge ids differ");
    edgeObjectQuery([&] { if (sorted(eids(obs.getSubtreeEdges(nv))) != sorted(seObjs)) mm("getSubtreeEdges", "node " + std::to_string(v) + " edge objects differ"); });
    // leaves under
    std::vector<int> leaves; bool single = false;
    for (int x : ns) { size_t k = m.sons(x).size(); if (k == 0) leaves.push_back(x); if (k == 1) single = true; }
    if (!single || kLeaves) {
      std::vector<int> gotL = sorted(ids(obs.getLeavesUnderNode(nv)));
      if (gotL != sorted(leaves)) {
        if (single) fail("model-mismatch:getLeavesUnderNode:single-son-node", "model-mismatch:getLeavesUnderNode:single-son-node", "getLeavesUnderNode(" + std::to_string(v) + ") gives " + vecStr(gotL) + ", the leaves below it are " + vecStr(sorted(leaves)) + " (a node with exactly one son is reported as a leaf)");
        mm("getLeavesUnderNode", "node " + std::to_string(v) + " gives " + vecStr(gotL) + ", reference " + vecStr(sorted(leaves)));
      }
      if (ns.size() > 1) ctx.probe("leaves-under-inner-node");
    }
  }
  void qPair(int a, int b) {
    auto g = obs.getGraph();
    std::vector<int> want = m.path(a, b);
    int anc = m.mrca(std::vector<int>{a, b});
    if (a != b && (anc == a || anc == b)) ctx.probe("path-ancestor-pair");
    std::vector<int> got = ids(obs.getNodePathBetweenTwoNodes(nobj[a], nobj[b], true));
    if (got != want) mm("getNodePathBetweenTwoNodes", "(" + std::to_string(a) + "," + std::to_string(b) + ") gives " + vecStr(got) + ", reference " + vecStr(want));
    std::vector<int> wantNo; for (int x : want) if (x != anc) wantNo.push_back(x);
    std::vector<int> gotNo = ids(obs.getNodePathBetweenTwoNodes(nobj[a], nobj[b], false));
    if (gotNo != wantNo) mm("getNodePathBetweenTwoNodes-noAncestor", "(" + std::to_string(a) + "," + std::to_string(b) + ") gives " + vecStr(gotNo) + ", reference " + vecStr(wantNo));
    std::vector<int> eIds, eObjs;
    for (size_t i = 0; i + 1 < want.size(); ++i) { const MEdge* e = m.findAny(want[i], want[i + 1]); eIds.push_back(static_cast<int>(e->lib)); if (e->obj >= 0) eObjs.push_back(e->obj); }
    std::vector<unsigned> ge = g->getEdgePathBetweenTwoNodes(gid(a), gid(b));
    if (std::vector<int>(ge.begin(), ge.end()) != eIds) mm("getEdgePathBetweenTwoNodes", "(" + std::to_string(a) + "," + std::to_string(b) + ") edge ids differ");
    edgeObjectQuery([&] { if (eids(obs.getEdgePathBetweenTwoNodes(nobj[a], nobj[b])) != eObjs) mm("getEdgePathBetweenTwoNodes", "(" + std::to_string(a) + "," + std::to_string(b) + ") edge objects differ"); });
  }
  void qMrca(const std::vector<int>& s, bool reverse) {
    if (s.empty()) return;
    int want = m.mrca(s);
    bool uneven = false; int d0 = m.depth(s[0]); for (int x : s) if (m.depth(x) != d0) uneven = true;
    bool trigger = uneven && want != m.root;          // known finding: tokens climb in lock step and only wait at the root
    if (trigger && !kMrca) return;
    std::vector<NP> v; for (int x : s) v.push_back(nobj[x]);
    if (reverse) std::reverse(v.begin(), v.end());
    int got = -2;
    try { got = idOf(obs.MRCA(v)); } catch (bpp::Exception&) { got = -3; }
    bool ancIn = s.size() > 1 && std::find(s.begin(), s.end(), want) != s.end();
    if (got != want) {
      std::string d = "MRCA(" + vecStr(s) + ") gives " + (got == -3 ? std::string("an exception") : std::to_string(got)) + ", reference " + std::to_string(want);
      if (trigger) fail("model-mismatch:MRCA:unequal-depths", "model-mismatch:MRCA:unequal-depths", d + " (queried nodes at different depths, common ancestor below the root)");
      mm("MRCA", d);
    }
    if (ancIn) ctx.probe("mrca-ancestor-in-set");
    if (s.size() >= 3) ctx.probe("mrca-of-three-or-more");
  }
  std::vector<int> subsetOf(unsigned mask) const { std::vector<int> l = live(), s; for (size_t i = 0; i < l.size(); ++i) if ((mask >> i) & 1) s.push_back(l[i]); return s; }
  // queries that must merely return or raise bpp::Exception (invalid or unrooted tree)
  void safeQueries(int v) {
    NP nv = nobj[v];
    try { obs.hasFather(nv); } catch (bpp::Exception&) {}
    try { obs.getFatherOfNode(nv); } catch (bpp::Exception&) {}
    try { obs.getEdgeToFather(nv); } catch (bpp::Exception&) {}
    try { obs.getSons(nv); } catch (bpp::Exception&) {}
    edgeObjectQuery([&] { try { obs.getBranches(nv); } catch (bpp::Exception&) {} });
    if (m.directed) {      // subtrees have no meaning on an un-rooted tree (and the library recursion does not end there)
      try { obs.getSubtreeNodes(nv); } catch (bpp::Exception&) {}
      edgeObjectQuery([&] { try { obs.getSubtreeEdges(nv); } catch (bpp::Exception&) {} });
    }
    ctx.probe("query-on-invalid-or-unrooted-tree");
    warm = true; if (m.treeValid()) warmTrue = true;
  }
  bool queryable() const { return m.directed && m.treeValid(); }

  // ---- re-rooting
  std::vector<MEdge> orientedFrom(int v) const {
    std::vector<MEdge> r; std::set<int> seen; std::vector<int> st; seen.insert(v); st.push_back(v);
    while (!st.empty()) {
      int x = st.back(); st.pop_back();
      for (auto& e : m.edges) {
        int w = e.a == x ? e.b : (e.b == x ? e.a : -1);
        if (w >= 0 && seen.insert(w).second) { MEdge f = e; f.a = x; f.b = w; r.push_back(f); st.push_back(w); }
      }
    }
    return r;
  }
  // unrooted tree: does pointing every link from the lower to the higher library node id give every node at most one father?
  // ... and does every edge id already record its ends in that order?
  bool lowHighArborescence() {
    std::map<int, int> indeg;
    auto g = obs.getGraph();
    for (auto& e : m.edges) {
      unsigned ga = gid(e.a), gb = gid(e.b);
      int hi = ga < gb ? e.b : e.a; if (++indeg[hi] > 1) return false;
      if (g->getTop(e.lib) != std::min(ga, gb) || g->getBottom(e.lib) != std::max(ga, gb)) return false;
    }
    return true;
  }
  bool edgeEndsOk() {
    auto g = obs.getGraph();
    for (auto& e : m.edges) if (g->getTop(e.lib) != gid(e.a) || g->getBottom(e.lib) != gid(e.b)) return false;
    return true;
  }
  [[noreturn]] void failUnrooted(const std::string& d) { fail("model-mismatch:rootAt:unrooted-tree", "model-mismatch:rootAt:unrooted-tree", "rootAt on a valid unrooted tree: " + d); }

  void opRootAt(const Op& o) {
    if (m.nodes.empty()) { ctx.outcome("skip"); return; }
    int v = pick(o.a);
    if (o.d & 1) readValid();
    bool valid = m.treeValid();
    if (!valid) {
      bool raised = false;
      try { obs.rootAt(nobj[v]); } catch (bpp::Exception&) { raised = true; }
      if (raised) ctx.fault("reject@k");
      adopt("rootat-invalid"); lastEdit = "rootat-invalid"; warmBefore = warm; warm = true; warmTrue = true;
      if (raised) ctx.rejected(); else ctx.outcome("silent");
      if (o.d & 2) readValid();
      return;
    }
    std::vector<MEdge> pred = orientedFrom(v);
    if (!m.directed) {
      if (!kUnrooted && !lowHighArborescence()) { ctx.outcome("skip"); return; }
      try { obs.rootAt(nobj[v]); } catch (bpp::Exception& ex) { failUnrooted("raised bpp::Exception"); }
      m.directed = true;
      std::vector<MEdge> now = observe("rootat");
      std::string why;
      if (compare(pred, now, why)) failUnrooted(why);
      if (idOf(obs.getRoot()) != v) failUnrooted("root not set");
      bool ok = false; try { ok = obs.isValid(); } catch (bpp::Exception&) {}
      if (!ok) failUnrooted("tree not valid afterwards");
      std::vector<MEdge> keep = m.edges; m.edges = now;
      bool ends = edgeEndsOk();
      m.edges = keep;
      if (!ends) failUnrooted("an edge id records its ends against the direction of the link (getTop/getBottom)");
      ctx.probe("reroot-after-unroot");
    } else {
      try { obs.rootAt(nobj[v]); } catch (bpp::Exception&) { fail("model-mismatch:rootAt", "model-mismatch:rootAt:raised-on-valid-tree:after-" + lastEdit, "rootAt(" + std::to_string(v) + ") raised on a valid rooted tree"); }
      if (m.depth(v) >= 2) ctx.probe("rootat-depth-2-or-more");
    }
    lastEdit = "rootat"; warmBefore = warm;
    if (o.d & 1) ctx.fault("read-order");
    sync(pred, "rootat");
    m.root = v;
    if (idOf(obs.getRoot()) != v) fail("model-mismatch:rootAt", "model-mismatch:rootAt:root-not-set", "getRoot() is " + std::to_string(idOf(obs.getRoot())) + " after rootAt(" + std::to_string(v) + ")");
    for (int x : m.nodes) if (obs.hasFather(nobj[x]) != (x != v)) fail("model-mismatch:rootAt", "model-mismatch:rootAt:fatherless-node-set", "after rootAt(" + std::to_string(v) + ") node " + std::to_string(x) + (x == v ? " has a father" : " has no father"));
    if (!obs.isRooted()) fail("model-mismatch:rootAt", "model-mismatch:rootAt:not-rooted", "isRooted() false after rootAt");
    warm = true; warmTrue = true;
    readValid();                 // "leaves the tree valid"
    checkEdgeEnds();
    ctx.ok();
  }

  // ---- node pickers for the "smart" variants (keep a valid tree valid / repair an invalid one)
  int pickFatherless(long k) const { std::vector<int> c; for (int v : m.nodes) if (v != m.root && m.fathers(v).empty()) c.push_back(v); return c.empty() ? -1 : c[static_cast<size_t>(k) % c.size()]; }
  bool reaches(int from, int to) const {   // directed reachability from -> to
    std::set<int> seen; std::vector<int> st; seen.insert(from); st.push_back(from);
    while (!st.empty()) { int x = st.back(); st.pop_back(); if (x == to) return true; for (auto& e : m.edges) if (e.a == x && seen.insert(e.b).second) st.push_back(e.b); }
    return false;
  }
  int pickOutside(long k, int sub) const { std::vector<int> c; for (int v : m.nodes) if (!reaches(sub, v)) c.push_back(v); return c.empty() ? -1 : c[static_cast<size_t>(k) % c.size()]; }

  void attachEdge(const Op& o, bool viaSetFather) {
    // addson: o.a father, o.b son ; setfather: o.a node, o.b father
    const std::string op = viaSetFather ? "setfather" : "addson";
    if (m.nodes.size() < 2 || (viaSetFather && !m.directed)) { ctx.outcome("skip"); return; }
    int F, S;
    bool smart = (o.c >> 2) & 1;
    if (viaSetFather) { S = pick(o.a); F = pick(o.b); } else { F = pick(o.a); S = pick(o.b); }
    if (smart && m.directed) {
      if (viaSetFather) {
        // regraft: a non-root node with one father moves below a node outside its own subtree
        std::vector<int> c; for (int v : m.nodes) if (m.fathers(v).size() == 1) c.push_back(v);
        if (!c.empty()) { S = c[static_cast<size_t>(o.a) % c.size()]; int f2 = pickOutside(o.b, S); if (f2 >= 0) F = f2; }
      } else {
        int s2 = pickFatherless(o.b);
        if (s2 >= 0) { S = s2; int f2 = pickOutside(o.a, S); if (f2 >= 0) F = f2; }
      }
    }
    if (F == S) { std::vector<int> l = live(); for (int x : l) if (x != S) { F = x; break; } }
    std::vector<int> fs = m.fathers(S);
    if (viaSetFather && fs.size() >= 2) {
      // more than one father already: the statement gives setFather no meaning here
      bool raised = false;
      try { obs.setFather(nobj[S], nobj[F]); } catch (bpp::Exception&) { raised = true; }
      adopt(op); edited(op + "-multi");
      if (raised) ctx.rejected(); else ctx.ok();
      return;
    }
    bool replaces = viaSetFather && fs.size() == 1;
    if (!(replaces && fs[0] == F) && m.has(F, S)) { ctx.outcome("skip"); return; }       // no parallel links
    if (!m.directed && m.hasAny(F, S)) { ctx.outcome("skip"); return; }
    if (recipBlocked(F, S)) { ctx.outcome("skip"); return; }
    long mode = m.directed ? (o.c & 3) : 0;
    if (mode == 3) mode = 0;
    if (mode == 2 && !kFreshEdge) mode = 0;
    EP e = prepareEdge(mode, o.c >> 4);
    if (!e) mode = 0;
    if (mode == 1) {
      // reject@k: the edge object is attached to another live link; the statement does not fix what remains of the call
      bool r = false;
      try { if (viaSetFather) obs.setFather(nobj[S], nobj[F], e); else obs.addSon(nobj[F], nobj[S], e); } catch (bpp::Exception&) { r = true; }
      if (r) ctx.fault("reject@k");
      adopt(op + "-attached-object"); edited(op + "-attached-object");
      if (r) ctx.rejected(); else ctx.outcome("silent");
      return;
    }
    bool raised = false;
    try { if (viaSetFather) obs.setFather(nobj[S], nobj[F], e); else obs.addSon(nobj[F], nobj[S], e); }
    catch (bpp::Exception&) { raised = true; }
    if (raised) {
      if (mode == 2) fail("model-mismatch:edge-object:fresh-object-rejected", "model-mismatch:edge-object:fresh-object-rejected", op + " with an edge object not yet known to the container raised instead of attaching it to the new link");
      fail("model-mismatch:" + op, "model-mismatch:" + op + ":raised", op + "(" + std::to_string(viaSetFather ? S : F) + "," + std::to_string(viaSetFather ? F : S) + ") raised");
    }
    std::vector<MEdge> pred;
    for (auto& x : m.edges) if (!(replaces && x.a == fs[0] && x.b == S)) pred.push_back(x);
    MEdge ne; ne.a = F; ne.b = S; ne.lib = NOLIB; ne.obj = idOf(e); pred.push_back(ne);
    edited(op);
    sync(pred, op);
    if (m.directed) {
      checkLinkObject(F, S, e, op);
      if (m.fathers(S).size() == 1) {
        EP got = obs.getEdgeToFather(nobj[S]);
        if (got != e) fail("model-mismatch:edge-object", "model-mismatch:edge-object:" + op + ":getEdgeToFather", "getEdgeToFather(" + std::to_string(S) + ") reports object " + std::to_string(idOf(got)) + ", the one given to " + op + " is " + std::to_string(idOf(e)));
      }
    }
    if (e) { ctx.probe("edge-object-given-to-" + op); }
    ctx.ok();
  }

  void detach(const Op& o, int how) {   // 0 removeSon, 1 unlink
    const std::string op = how == 0 ? "rmson" : "unlink";
    if (m.nodes.size() < 2 || !m.directed) { ctx.outcome("skip"); return; }
    int P = pick(o.a);
    std::vector<int> sons = m.sons(P);
    if ((o.c & 1) || sons.empty()) {
      // reject@k: the named son is no son
      int B = -1; std::vector<int> l = live();
      for (size_t i = 0; i < l.size(); ++i) { int x = l[(static_cast<size_t>(o.b) + i) % l.size()]; if (x != P && !m.has(P, x)) { B = x; break; } }
      if (B < 0) { ctx.outcome("skip"); return; }
      bool raised = false;
      try { if (how == 0) obs.removeSon(nobj[P], nobj[B]); else obs.unlink(nobj[P], nobj[B]); } catch (bpp::Exception&) { raised = true; }
      if (raised) ctx.fault("reject@k");
      adopt(op + "-absent");
      if (raised) ctx.rejected(); else ctx.outcome("silent");
      return;
    }
    int B = sons[static_cast<size_t>(o.b) % sons.size()];
    try { if (how == 0) obs.removeSon(nobj[P], nobj[B]); else obs.unlink(nobj[P], nobj[B]); }
    catch (bpp::Exception&) { fail("model-mismatch:" + op, "model-mismatch:" + op + ":raised", op + " of an existing link raised"); }
    std::vector<MEdge> pred; for (auto& x : m.edges) if (!(x.a == P && x.b == B)) pred.push_back(x);
    edited(op); sync(pred, op); ctx.ok();
  }

  void step(const Op& o) {
    const std::string& k = o.k;
    if (k == "new") {
      edit(o, [&] {
        if (!canCreate()) { ctx.outcome("skip"); return; }
        int id = newNode();
        obs.createNode(nobj[id]); obs.setNodeIndex(nobj[id], static_cast<unsigned>(id));
        m.nodes.insert(id);
        m.root = idOf(obs.getRoot()); if (!m.nodes.count(m.root)) m.root = -1;
        edited("new"); sync(m.edges, "new"); ctx.ok();
      });
    } else if (k == "newson") {
      edit(o, [&] {
        if (m.nodes.empty() || !canCreate()) { ctx.outcome("skip"); return; }
        int par = pick(o.a); int id = newNode();
        EP e = (o.c & 1) ? mkEdge() : EP();
        obs.createNode(nobj[par], nobj[id], e); obs.setNodeIndex(nobj[id], static_cast<unsigned>(id));
        m.nodes.insert(id);
        std::vector<MEdge> pred = m.edges; MEdge ne; ne.a = par; ne.b = id; ne.lib = NOLIB; ne.obj = idOf(e); pred.push_back(ne);
        edited("newson"); sync(pred, "newson");
        if (m.directed) checkLinkObject(par, id, e, "newson");
        ctx.ok();
      });
    } else if (k == "addson") { edit(o, [&] { attachEdge(o, false); });
    } else if (k == "setfather") { edit(o, [&] { attachEdge(o, true); });
    } else if (k == "link") {
      edit(o, [&] {
        if (m.nodes.size() < 2) { ctx.outcome("skip"); return; }
        int A = pick(o.a), B = pick(o.b);
        if (A == B) { std::vector<int> l = live(); for (int x : l) if (x != A) { B = x; break; } }
        if (m.has(A, B) || (!m.directed && m.hasAny(A, B)) || recipBlocked(A, B)) { ctx.outcome("skip"); return; }
        EP e = (o.c & 1) ? mkEdge() : EP();
        obs.link(nobj[A], nobj[B], e);
        std::vector<MEdge> pred = m.edges; MEdge ne; ne.a = A; ne.b = B; ne.lib = NOLIB; ne.obj = idOf(e); pred.push_back(ne);
        edited("link"); sync(pred, "link");
        if (m.directed) checkLinkObject(A, B, e, "link");
        ctx.ok();
      });
    } else if (k == "rmson") { edit(o, [&] { detach(o, 0); });
    } else if (k == "unlink") { edit(o, [&] { detach(o, 1); });
    } else if (k == "rmsons") {
      edit(o, [&] {
        if (m.nodes.empty() || !m.directed) { ctx.outcome("skip"); return; }
        int P = pick(o.a);
        obs.removeSons(nobj[P]);
        std::vector<MEdge> pred; for (auto& x : m.edges) if (x.a != P) pred.push_back(x);
        edited("rmsons"); sync(pred, "rmsons"); ctx.ok();
      });
    } else if (k == "delnode") {
      edit(o, [&] {
        if (m.nodes.size() < 2 || !m.directed) { ctx.outcome("skip"); return; }
        int V = pick(o.a);
        if (o.c & 1) { std::vector<int> c; for (int x : m.nodes) if (x != m.root && m.sons(x).empty()) c.push_back(x); if (!c.empty()) V = c[static_cast<size_t>(o.a) % c.size()]; }   // prefer a leaf
        obs.deleteNode(nobj[V]);
        m.nodes.erase(V);
        std::vector<MEdge> pred; for (auto& x : m.edges) if (x.a != V && x.b != V) pred.push_back(x);
        if (V == m.root) { m.root = -1; ctx.probe("root-deleted"); }
        edited("delnode"); sync(pred, "delnode"); ctx.ok();
      });
    } else if (k == "rootat") { opRootAt(o);
    } else if (k == "unroot") {
      edit(o, [&] {
        if (m.nodes.empty() || !m.directed) { ctx.outcome("skip"); return; }
        bool join = o.c & 1, raised = false;
        try { obs.getGraph()->unRoot(join); } catch (bpp::Exception&) { raised = true; }
        if (join || m.hasReciprocal()) {
          // joining the root's sons / reciprocal links: effect not fixed by the statement
          if (raised) ctx.fault("reject@k");
          adopt("unroot"); edited(join ? "unroot-join" : "unroot");
          if (raised) ctx.rejected(); else ctx.ok();
          return;
        }
        if (raised) fail("model-mismatch:unRoot", "model-mismatch:unRoot:raised", "unRoot(false) raised");
        m.directed = false;
        edited("unroot"); sync(m.edges, "unroot");
        ctx.probe("unrooted");
        ctx.ok();
      });
    } else if (k == "setroot") {
      edit(o, [&] {
        if (m.nodes.empty()) { ctx.outcome("skip"); return; }
        int V = pick(o.a);
        if (!kSetRoot && warmTrue && m.directed && V != m.root) { ctx.outcome("skip"); return; }      // known finding: a cached "valid" survives setRoot
        obs.setRoot(nobj[V]);
        m.root = V;
        if (idOf(obs.getRoot()) != V) fail("model-mismatch:setRoot", "model-mismatch:setRoot:root-not-set", "getRoot() differs after setRoot");
        lastEdit = "setroot"; warmBefore = warm;
        ctx.state(m.fingerprint());
        ctx.ok();
      });
    } else if (k == "valid") { readValid(); ctx.outcome("read");
    } else if (k == "rooted") { readRooted(); ctx.outcome("read");
    } else if (k == "q") {
      if (m.nodes.empty()) { ctx.outcome("skip"); return; }
      if (o.c & 1) readValid();
      if (queryable()) {
        int a = pick(o.a), b = pick(o.b);
        qNode(a, (o.c >> 1) & 1); qPair(a, b); qPair(b, a);
        unsigned d = static_cast<unsigned>(o.d);
        qMrca(subsetOf(d & 0xFFF), false); qMrca(subsetOf((d >> 12) & 0xFFF), true); qMrca(a == b ? std::vector<int>{a} : std::vector<int>{a, b}, false);
        warm = true; warmTrue = true;
      } else safeQueries(pick(o.a));
      ctx.outcome("read");
    } else if (k == "qall") {
      if (m.nodes.empty()) { ctx.outcome("skip"); return; }
      if (o.c & 1) readValid();
      if (queryable()) {
        std::vector<int> l = live();
        checkEdgeEnds();
        for (size_t i = 0; i < l.size(); ++i) qNode(l[i], ((o.c >> 1) + static_cast<long>(i)) & 1);
        for (int a : l) for (int b : l) qPair(a, b);
        if (l.size() <= 6) { for (unsigned mask = 1; mask < (1u << l.size()); ++mask) qMrca(subsetOf(mask), mask & 1); }
        else { uint64_t x = static_cast<uint64_t>(o.d) * 2654435761ULL + 12345; for (int i = 0; i < 40; ++i) { x = x * 6364136223846793005ULL + 1442695040888963407ULL; unsigned mask = static_cast<unsigned>(x >> 33) & ((1u << l.size()) - 1); if (i & 1) mask &= static_cast<unsigned>(x >> 20); qMrca(subsetOf(mask), i & 2); } }
        warm = true; warmTrue = true;
        ctx.probe("all-pairs-queried");
      } else { std::vector<int> l = live(); for (int v : l) safeQueries(v); }
      ctx.outcome("read");
    } else ctx.fail("harness", "harness:unknown-op", k);
  }

  void run() {
    for (size_t i = 0; i < p.ops.size(); ++i) {
      ctx.beginStep(static_cast<long>(i), p.ops[i]);
      step(p.ops[i]);
    }
  }
};

// ------------------------------------------------------------------ DAG world
typedef bpp::AssociationDAGlobalGraphObserver<SimNode, SimEdge> DagObs;

class DagExec : public Base<DagObs> {
public:
  DagExec(const Plan& pl, Ctx& c) : Base<DagObs>(pl, c, true) {}

  bool readValid() {
    if (m.nodes.empty()) return false;          // the quantifier starts at one node
    bool want = m.acyclic();
    bool got;
    try { got = obs.isValid(); } catch (bpp::Exception&) { fail("model-mismatch:dag-isValid", "model-mismatch:dag-isValid:raised:after-" + lastEdit, "isValid() raised"); }
    ctx.evi("isValid", got ? 1 : 0);
    if (got != want) fail("model-mismatch:dag-isValid", std::string("model-mismatch:dag-isValid:") + (got ? "true-on-cyclic" : "false-on-acyclic") + ":after-" + lastEdit + (warmBefore ? ":verdict-read-before-edit" : ":no-read-before-edit"), std::string("isValid() = ") + (got ? "true" : "false") + ", reference graph is " + (want ? "acyclic" : "cyclic"));
    warm = true;
    if (!got) ctx.probe("dag-cycle-reported"); else ctx.probe("dag-acyclic-reported");
    return got;
  }
  void readRooted() { bool r = false; try { r = obs.isRooted(); } catch (bpp::Exception&) {} ctx.evi("isRooted", r ? 1 : 0); }
  void edited(const std::string& op) { lastEdit = op; warmBefore = warm; warm = false; warmTrue = false; }

  template <class F> void edit(const Op& o, F body) {
    bool early = o.d & 1, late = o.d & 2, wasValid = false;
    if (early) { wasValid = readValid(); if (o.d & 4) readRooted(); }
    long okBefore = ctx.okSteps;
    body();
    bool changed = ctx.okSteps != okBefore;
    if (late) {
      if (early && changed) { ctx.fault("read-order"); if (wasValid && !m.acyclic()) ctx.probe("dag-valid-cached-then-cycle-closed"); if (!wasValid && m.acyclic()) ctx.probe("dag-cycle-then-opened"); }
      readValid();
      if (o.d & 4) readRooted();
    }
  }

  void addLink(const Op& o, int how) {    // 0 addSon(a=father,b=son) 1 addFather(a=node,b=father) 2 link(a,b)
    static const char* N[] = {"addson", "addfather", "link"};
    const std::string op = N[how];
    if (m.nodes.size() < 2) { ctx.outcome("skip"); return; }
    int A = pick(o.a), B = pick(o.b);
    if (A == B) { std::vector<int> l = live(); for (int x : l) if (x != A) { B = x; break; } }
    int F = how == 1 ? B : A, S = how == 1 ? A : B;
    if (m.has(F, S)) { ctx.outcome("skip"); return; }
    long mode = o.c & 3; if (mode == 3) mode = 0;
    EP e = prepareEdge(mode, o.c >> 4);
    if (!e) mode = 0;
    if (mode == 1) {
      // reject@k: the edge object is attached to another live link
      bool r = false;
      try { if (how == 0) obs.addSon(nobj[F], nobj[S], e); else if (how == 1) obs.addFather(nobj[S], nobj[F], e); else obs.link(nobj[F], nobj[S], e); } catch (bpp::Exception&) { r = true; }
      if (r) ctx.fault("reject@k");
      adopt("dag-" + op + "-attached-object"); edited(op + "-attached-object");
      if (r) ctx.rejected(); else ctx.outcome("silent");
      return;
    }
    try { if (how == 0) obs.addSon(nobj[F], nobj[S], e); else if (how == 1) obs.addFather(nobj[S], nobj[F], e); else obs.link(nobj[F], nobj[S], e); }
    catch (bpp::Exception&) { fail("model-mismatch:dag-" + op, "model-mismatch:dag-" + op + ":raised", op + " raised"); }
    std::vector<MEdge> pred = m.edges; MEdge ne; ne.a = F; ne.b = S; ne.lib = NOLIB; ne.obj = idOf(e); pred.push_back(ne);
    edited(op); sync(pred, "dag-" + op);
    checkLinkObject(F, S, e, "dag-" + op);
    if (e && how != 2) ctx.probe("dag-edge-object-attached");
    ctx.ok();
  }
  void removeLink(const Op& o, int how) {   // 0 removeSon(a=father) 1 removeFather(a=node) 2 unlink
    static const char* N[] = {"rmson", "rmfather", "unlink"};
    const std::string op = N[how];
    if (m.nodes.size() < 2) { ctx.outcome("skip"); return; }
    int A = pick(o.a);
    std::vector<int> cand = how == 1 ? m.fathers(A) : m.sons(A);
    if ((o.c & 1) || cand.empty()) {
      int B = -1; std::vector<int> l = live();
      for (size_t i = 0; i < l.size(); ++i) { int x = l[(static_cast<size_t>(o.b) + i) % l.size()]; if (x != A && !(how == 1 ? m.has(x, A) : m.has(A, x))) { B = x; break; } }
      if (B < 0) { ctx.outcome("skip"); return; }
      bool raised = false;
      try { if (how == 0) obs.removeSon(nobj[A], nobj[B]); else if (how == 1) obs.removeFather(nobj[A], nobj[B]); else obs.unlink(nobj[A], nobj[B]); } catch (bpp::Exception&) { raised = true; }
      if (raised) ctx.fault("reject@k");
      adopt("dag-" + op + "-absent");
      if (raised) ctx.rejected(); else ctx.outcome("silent");
      return;
    }
    int B = cand[static_cast<size_t>(o.b) % cand.size()];
    int F = how == 1 ? B : A, S = how == 1 ? A : B;
    try { if (how == 0) obs.removeSon(nobj[A], nobj[B]); else if (how == 1) obs.removeFather(nobj[A], nobj[B]); else obs.unlink(nobj[A], nobj[B]); }
    catch (bpp::Exception&) { fail("model-mismatch:dag-" + op, "model-mismatch:dag-" + op + ":raised", op + " of an existing link raised"); }
    std::vector<MEdge> pred; for (auto& x : m.edges) if (!(x.a == F && x.b == S)) pred.push_back(x);
    edited(op); sync(pred, "dag-" + op); ctx.ok();
  }

  void step(const Op& o) {
    const std::string& k = o.k;
    if (k == "new") {
      edit(o, [&] {
        if (!canCreate()) { ctx.outcome("skip"); return; }
        int id = newNode(); obs.createNode(nobj[id]); m.nodes.insert(id);
        edited("new"); sync(m.edges, "dag-new"); ctx.ok();
      });
    } else if (k == "newson") {
      edit(o, [&] {
        if (m.nodes.empty() || !canCreate()) { ctx.outcome("skip"); return; }
        int par = pick(o.a); int id = newNode();
        EP e = (o.c & 1) ? mkEdge() : EP();
        obs.createNode(nobj[par], nobj[id], e); m.nodes.insert(id);
        std::vector<MEdge> pred = m.edges; MEdge ne; ne.a = par; ne.b = id; ne.lib = NOLIB; ne.obj = idOf(e); pred.push_back(ne);
        edited("newson"); sync(pred, "dag-newson"); checkLinkObject(par, id, e, "dag-newson"); ctx.ok();
      });
    } else if (k == "addson") { edit(o, [&] { addLink(o, 0); });
    } else if (k == "addfather") { edit(o, [&] { addLink(o, 1); });
    } else if (k == "link") { edit(o, [&] { addLink(o, 2); });
    } else if (k == "rmson") { edit(o, [&] { removeLink(o, 0); });
    } else if (k == "rmfather") { edit(o, [&] { removeLink(o, 1); });
    } else if (k == "unlink") { edit(o, [&] { removeLink(o, 2); });
    } else if (k == "rmsons" || k == "rmfathers") {
      edit(o, [&] {
        if (m.nodes.empty()) { ctx.outcome("skip"); return; }
        int P = pick(o.a); bool sons = k == "rmsons";
        if (sons) obs.removeSons(nobj[P]); else obs.removeFathers(nobj[P]);
        std::vector<MEdge> pred; for (auto& x : m.edges) if ((sons ? x.a : x.b) != P) pred.push_back(x);
        edited(k); sync(pred, "dag-" + k); ctx.ok();
      });
    } else if (k == "delnode") {
      edit(o, [&] {
        if (m.nodes.size() < 2) { ctx.outcome("skip"); return; }
        int V = pick(o.a);
        obs.deleteNode(nobj[V]); m.nodes.erase(V);
        std::vector<MEdge> pred; for (auto& x : m.edges) if (x.a != V && x.b != V) pred.push_back(x);
        edited("delnode"); sync(pred, "dag-delnode"); ctx.ok();
      });
    } else if (k == "rootat") {
      edit(o, [&] {
        if (m.nodes.empty()) { ctx.outcome("skip"); return; }
        int V = pick(o.a);
        bool raised = false;
        try { obs.rootAt(nobj[V]); } catch (bpp::Exception&) { raised = true; }
        adopt("dag-rootat"); edited("rootat");       // the statement fixes no orientation for a re-rooted DAG: take what is reported
        ctx.probe("dag-rerooted");
        if (raised) ctx.rejected(); else ctx.ok();
      });
    } else if (k == "valid") { readValid(); ctx.outcome("read");
    } else if (k == "rooted") { readRooted(); ctx.outcome("read");
    } else if (k == "q" || k == "qall") {
      if (m.nodes.empty()) { ctx.outcome("skip"); return; }
      if (o.c & 1) readValid();
      std::vector<int> l = live();
      if (k == "q") l = std::vector<int>{pick(o.a)};
      bool acyc = m.acyclic();
      for (int v : l) {
        NP nv = nobj[v];
        std::vector<int> gf, gs;
        for (auto& q : obs.getFathers(nv)) gf.push_back(idOf(q));
        for (auto& q : obs.getSons(nv)) gs.push_back(idOf(q));
        std::sort(gf.begin(), gf.end()); std::sort(gs.begin(), gs.end());
        if (gf != m.fathers(v)) fail("model-mismatch:dag-getFathers", "model-mismatch:dag-getFathers:after-" + lastEdit, "node " + std::to_string(v) + " fathers " + vecStr(gf) + ", reference " + vecStr(m.fathers(v)));
        if (gs != m.sons(v)) fail("model-mismatch:dag-getSons", "model-mismatch:dag-getSons:after-" + lastEdit, "node " + std::to_string(v) + " sons " + vecStr(gs) + ", reference " + vecStr(m.sons(v)));
        if (obs.getNumberOfFathers(nv) != gf.size() || obs.getNumberOfSons(nv) != gs.size() || obs.hasFather(nv) != !gf.empty()) fail("model-mismatch:dag-counts", "model-mismatch:dag-counts", "node " + std::to_string(v));
        if (acyc) {   // below-node queries: must return or raise bpp::Exception
          try { obs.getBelowNodes(nv); } catch (bpp::Exception&) {}
          edgeObjectQuery([&] { try { obs.getBelowEdges(nv); } catch (bpp::Exception&) {} });
          {   // leaves under a node: the nodes without son that can be reached from it
            std::set<int> seen, want; std::vector<int> st(1, v); seen.insert(v);
            while (!st.empty()) { int x = st.back(); st.pop_back(); std::vector<int> ss = m.sons(x); if (ss.empty()) want.insert(x); for (int y : ss) if (seen.insert(y).second) st.push_back(y); }
            std::set<int> gotL; for (auto& q : obs.getLeavesUnderNode(nv)) gotL.insert(idOf(q));
            if (gotL != want) fail("model-mismatch:dag-getLeavesUnderNode", "model-mismatch:dag-getLeavesUnderNode:after-" + lastEdit, "node " + std::to_string(v) + " leaves " + vecStr(std::vector<int>(gotL.begin(), gotL.end())) + ", reference " + vecStr(std::vector<int>(want.begin(), want.end())));
          }
          warm = true;
        }
      }
      ctx.outcome("read");
    } else ctx.fail("harness", "harness:unknown-op", k);
  }
  void run() {
    for (size_t i = 0; i < p.ops.size(); ++i) {
      ctx.beginStep(static_cast<long>(i), p.ops[i]);
      step(p.ops[i]);
    }
  }
};

// ------------------------------------------------------------------ harness
long fact(long n) { long r = 1; for (long i = 2; i <= n; ++i) r *= i; return r; }

class C15 : public Harness {
public:
  const char* id() const override { return "C15"; }
  HarnessInfo info() const override {
    HarnessInfo i;
    i.real = {"bpp::TreeGraphImpl<GlobalGraph>", "bpp::DAGraphImpl<GlobalGraph>", "bpp::GlobalGraph", "bpp::AssociationTreeGraphImplObserver<SimNode,SimEdge>", "bpp::AssociationDAGraphImplObserver<SimNode,SimEdge>", "bpp::AssociationGraphImplObserver (link/unlink/createNode/deleteNode/setRoot/associateEdge)"};
    i.stub = {"SimNode/SimEdge payload objects (small integer ids) placed in fixed arenas in a plan-chosen slot permutation"};
    i.rule = "plans: (a) enumerated prefix: every parent array of 1..6 nodes (quick; 1..7 thorough) x {build by createNode-from-father / orphan nodes + setFather} x {with / without early validity reads}, each followed by all queries, re-rooting at every node in turn with all queries after each, un-root and re-root; every digraph on 1..4 labelled nodes, every upper-triangular (acyclic) link set on 5 nodes (thorough: also 6) in two labellings, alone and with one back link, built link by link with a validity read after every link; (b) seeded histories of 4..40 ops over <=12 tree nodes / <=6 DAG nodes mixing topology edits with validity and structural reads, read schedule per op chosen by the plan; non-trivial = >=3 successful state-changing steps and >=1 fault fired (read-order schedule, rejected element, address permutation); distinct = distinct fingerprint of the executed op-kind/outcome sequence";
    i.simTime = "steps (no clock in this component)";
    i.faultKinds = {"read-order", "reject@k", "addr-perm"};
    i.probeNames = {"valid-cached-then-invalidated", "invalid-then-repaired", "valid-verdict-read", "invalid-verdict-read", "validity-read-with-deleted-root", "root-deleted",
                    "rootat-depth-2-or-more", "reroot-after-unroot", "unrooted", "path-ancestor-pair", "mrca-ancestor-in-set", "mrca-of-three-or-more", "leaves-under-inner-node", "all-pairs-queried",
                    "query-on-invalid-or-unrooted-tree", "edge-object-given-to-addson", "edge-object-given-to-setfather",
                    "dag-cycle-reported", "dag-acyclic-reported", "dag-valid-cached-then-cycle-closed", "dag-cycle-then-opened", "dag-edge-object-attached", "dag-rerooted"};
    i.assumptions = {"simple graphs only: no self links, no second link between the same ordered pair of nodes (parallel links cannot be represented by the container)",
                     "topology edits other than node creation and link addition are generated only while the container is rooted (directed); un-rooted containers are read, extended and re-rooted",
                     "structural queries are compared with the reference only on a valid rooted tree; on an invalid rooted tree father/sons/branches/subtree queries must merely return or raise bpp::Exception, on an un-rooted tree only father/sons/branches are issued (getSubtreeNodes/Edges on a valid un-rooted tree recurse without end); path, MRCA and leaves-under queries are not issued on invalid or un-rooted trees (the statement gives them no meaning; the unguarded library loops run forever on cycles and read out of bounds across components)",
                     "validity is not read while the container has no node (the quantifier starts at one node)",
                     "isValid() with a root that designates no live node (root deleted): false or bpp::Exception accepted",
                     "isRooted() is read as part of the schedule but not compared (the statement fixes the validity predicate only)",
                     "setFather on a node that already has several fathers, removal of an absent son, re-rooting an invalid tree, unRoot(joinRootSons=true), unRoot with reciprocal links, DAG rootAt: outcome (return or bpp::Exception) and resulting links are taken from the container",
                     "addSon/setFather/addFather with an edge object that is attached to another live link: outcome (bpp::Exception expected) and resulting links are taken from the container (tree setFather removes the old father link before it raises)",
                     "DAG: validity == acyclicity of the reported link set; getLeavesUnderNode is compared as a set with the son-less nodes reachable from the node; below-node queries only have to return or raise; at least one node is kept",
                     "triggers of open known findings are generated only in runs whose plan sets the corresponding flag (about 1 run in 50 each); all six C15 findings (setRoot cache, reciprocal link, single-son leaves, MRCA depths, un-rooted rootAt, new edge object) are fixed, so their triggers are generated at full rate (table HAZARDS)"};
    return i;
  }
  long defaultRuns(Tier t) const override { return t == QUICK ? 60000 : 1000000; }

  // ---- enumerated prefix
  static long treeMaxN(Tier t) { return t == QUICK ? 6 : 7; }
  static long dagMaxN(Tier) { return 4; }                         // every digraph on 1..4 labelled nodes
  // larger DAGs: every acyclic link set compatible with one node order (upper-triangular), alone or with one back link that may close a cycle
  static long triBits(long n) { return n * (n - 1) / 2; }
  static long backOptions(long n, Tier t) { return n == 5 ? (t == QUICK ? 2 : 11) : 2; }
  static long famCount(long n, Tier t) { return (1L << triBits(n)) * backOptions(n, t); }
  static long bigDagCount(Tier t) { return famCount(5, t) + (t == QUICK ? 0 : famCount(6, t)); }
  static long treeCount(Tier t) { long s = 0; for (long n = 1; n <= treeMaxN(t); ++n) s += fact(n - 1) * 4; return s; }
  static long dagCount(Tier t) { long s = 0; for (long n = 1; n <= dagMaxN(t); ++n) s += 1L << (n * (n - 1)); return s; }
  long enumCount(Tier t) const override { return treeCount(t) + dagCount(t) + bigDagCount(t); }
  static Plan dagPlan(long n, long mask) {
    Plan p; p.cfg["enumerated"] = 1; p.cfg["stride"] = 1; p.cfg["off"] = 0;
    p.cfg["world"] = 1; p.cfg["maxn"] = 6;
    long bits = 0; for (long b = 0; b < n * (n - 1); ++b) bits += (mask >> b) & 1;
    long rd = ((bits & 1) ? 1 : 0) | 2;
    for (long i = 0; i < n; ++i) p.ops.push_back(Op("new", 0, 0, 0, rd));
    long b = 0;
    for (long i = 0; i < n; ++i) for (long j = 0; j < n; ++j) {
      if (i == j) continue;
      if ((mask >> b) & 1) { if (b & 1) p.ops.push_back(Op("addfather", j, i, (b >> 1) & 2, rd)); else p.ops.push_back(Op("addson", i, j, (b >> 1) & 2, rd)); }
      ++b;
    }
    p.ops.push_back(Op("qall", 0, 0, 1, 0));
    return p;
  }
  Plan enumPlan(long idx, Tier t) const override {
    Plan p; p.cfg["enumerated"] = 1; p.cfg["stride"] = 1; p.cfg["off"] = 0;
    if (idx < treeCount(t)) {
      long n = 1; while (idx >= fact(n - 1) * 4) { idx -= fact(n - 1) * 4; ++n; }
      long variant = idx % 4, code = idx / 4;
      bool early = variant & 1, bySetFather = variant & 2;
      p.cfg["world"] = 0; p.cfg["maxn"] = 12;
      std::vector<long> par(static_cast<size_t>(n), 0);
      for (long i = 1; i < n; ++i) { par[static_cast<size_t>(i)] = code % i; code /= i; }
      long rd = (early ? 1 : 0) | 2;
      p.ops.push_back(Op("new", 0, 0, 0, rd));
      if (!bySetFather) for (long i = 1; i < n; ++i) p.ops.push_back(Op("newson", par[static_cast<size_t>(i)], 0, i & 1, rd));
      else {
        for (long i = 1; i < n; ++i) p.ops.push_back(Op("new", 0, 0, 0, rd));
        for (long i = n - 1; i >= 1; --i) p.ops.push_back(Op("setfather", i, par[static_cast<size_t>(i)], (i & 1) ? 2 : 0, rd));
      }
      p.ops.push_back(Op("qall", 0, 0, 1, 7));
      p.ops.push_back(Op("unroot", 0, 0, 0, rd));
      p.ops.push_back(Op("rootat", n - 1, 0, 0, rd));
      p.ops.push_back(Op("qall", 0, 0, 0, 5));
      for (long v = 0; v < n; ++v) { p.ops.push_back(Op("rootat", v, 0, 0, rd)); p.ops.push_back(Op("qall", 0, 0, early ? 1 : 0, v)); }
      p.ops.push_back(Op("unroot", 0, 0, 0, rd));
      p.ops.push_back(Op("rootat", n / 2, 0, 0, rd));
      p.ops.push_back(Op("qall", 0, 0, 0, 3));
      return p;
    }
    idx -= treeCount(t);
    if (idx < dagCount(t)) {
      long n = 1; while (idx >= (1L << (n * (n - 1)))) { idx -= 1L << (n * (n - 1)); ++n; }
      return dagPlan(n, idx);
    }
    idx -= dagCount(t);
    long n = 5; if (idx >= famCount(5, t)) { idx -= famCount(5, t); n = 6; }
    long tb = triBits(n), ut = idx & ((1L << tb) - 1), back = idx >> tb;       // back: 0 none, k>0 the (k-1)-th pair reversed
    long opts = backOptions(n, t);
    long backPair = back == 0 ? -1 : (opts == 2 ? ut % tb : back - 1);
    auto node = [&](long pos) { return (ut & 1) ? n - 1 - pos : pos; };        // position in the node order -> node label
    auto bit = [&](long i, long j) { return i * (n - 1) + (j < i ? j : j - 1); };
    long mask = 0, k = 0;
    for (long s = 0; s < n; ++s) for (long u = s + 1; u < n; ++u) {
      if ((ut >> k) & 1) mask |= 1L << bit(node(s), node(u));
      if (k == backPair) mask |= 1L << bit(node(u), node(s));
      ++k;
    }
    return dagPlan(n, mask);
  }

  Plan generate(Rng& rng, Tier) const override {
    Plan p;
    bool dag = rng.chance(0.25);
    p.cfg["world"] = dag ? 1 : 0;
    p.cfg["stride"] = rng.pick(std::vector<long>{1, 1, 63, 37, 21, 11});
    p.cfg["off"] = rng.below(64);
    long maxn = dag ? rng.range(2, 6) : rng.pick(std::vector<long>{3, 4, 5, 6, 7, 8, 10, 12});
    p.cfg["maxn"] = maxn;
    if (!dag) for (const Hazard& h : HAZARDS) if (!h.fixed && rng.chance(0.02)) p.cfg[h.flag] = 1;
    double earlyP = rng.pick(std::vector<double>{0.0, 0.3, 0.6, 1.0}), lateP = rng.pick(std::vector<double>{0.5, 0.9, 1.0});
    auto rd = [&]() { return (rng.chance(earlyP) ? 1L : 0L) | (rng.chance(lateP) ? 2L : 0L) | (rng.chance(0.2) ? 4L : 0L); };
    auto edgeMode = [&]() { long mode = static_cast<long>(rng.weighted(std::vector<double>{0.45, 0.1, 0.45})); return mode | (rng.chance(0.6) ? 4L : 0L) | (rng.below(8) << 4); };
    long n0 = rng.range(1, maxn);
    if (dag) {
      for (long i = 0; i < n0; ++i) { if (i > 0 && rng.chance(0.5)) p.ops.push_back(Op("newson", rng.below(16), 0, rng.below(2), rd())); else p.ops.push_back(Op("new", 0, 0, 0, rd())); }
      static const char* K[] = {"new", "newson", "addson", "addfather", "rmson", "rmfather", "rmsons", "rmfathers", "delnode", "link", "unlink", "rootat", "valid", "rooted", "q", "qall"};
      std::vector<double> w = {1.0, 1.5, 4, 4, 1.5, 1.5, 0.3, 0.3, 0.7, 1, 0.7, 1.2, 2, 1, 1.5, 0.5};
      for (auto& x : w) if (rng.chance(0.25)) x *= rng.chance(0.5) ? 0 : 3;
      long nops = rng.range(4, 30);
      for (long i = 0; i < nops; ++i) {
        std::string k = K[rng.weighted(w)];
        Op o(k, rng.below(24), rng.below(24), 0, rd());
        if (k == "addson" || k == "addfather" || k == "link") o.c = edgeMode();
        else if (k == "rmson" || k == "rmfather" || k == "unlink") o.c = rng.chance(0.15) ? 1 : 0;
        else if (k == "newson") o.c = rng.below(2);
        else if (k == "q" || k == "qall") { o.c = rng.below(2); o.d = 0; }
        p.ops.push_back(o);
      }
      return p;
    }
    // tree: build phase
    long style = rng.below(5);
    if (style <= 2) {
      p.ops.push_back(Op("new", 0, 0, 0, rd()));
      for (long i = 1; i < n0; ++i) {
        long par = style == 0 ? rng.below(i) : (style == 1 ? (i - 1) / 2 : rng.pick(std::vector<long>{0, i - 1, rng.below(i)}));
        p.ops.push_back(Op("newson", par, 0, rng.below(2), rd()));
      }
    } else {
      for (long i = 0; i < n0; ++i) p.ops.push_back(Op("new", 0, 0, 0, rd()));
      for (long i = 1; i < n0; ++i) {
        long par = rng.below(i);
        if (style == 3) p.ops.push_back(Op("setfather", i, par, edgeMode() & ~4L, rd())); else p.ops.push_back(Op("addson", par, i, edgeMode() & ~4L, rd()));
      }
    }
    static const char* K[] = {"new", "newson", "addson", "setfather", "rmson", "rmsons", "delnode", "link", "unlink", "rootat", "unroot", "setroot", "valid", "rooted", "q", "qall"};
    std::vector<double> w = {1.2, 2.5, 3, 3.5, 2, 0.4, 1.2, 1, 1, 3.5, 0.6, 0.7, 2, 0.5, 3, 0.8};
    for (auto& x : w) if (rng.chance(0.25)) x *= rng.chance(0.5) ? 0 : 3;
    long nops = rng.range(4, 32);
    for (long i = 0; i < nops; ++i) {
      std::string k = K[rng.weighted(w)];
      Op o(k, rng.below(24), rng.below(24), 0, rd());
      if (k == "addson" || k == "setfather") o.c = edgeMode();
      else if (k == "rmson" || k == "unlink") o.c = rng.chance(0.12) ? 1 : 0;
      else if (k == "newson" || k == "link" || k == "delnode") o.c = rng.below(2);
      else if (k == "unroot") o.c = rng.chance(0.2) ? 1 : 0;
      else if (k == "q") { o.c = rng.below(4); o.d = rng.below(1L << 24); }
      else if (k == "qall") { o.c = rng.below(4); o.d = rng.below(1L << 20); }
      p.ops.push_back(o);
    }
    return p;
  }

  void execute(const Plan& p, Ctx& ctx) const override {
    try {
      if (p.geti("world") == 1) { DagExec e(p, ctx); e.run(); }
      else { TreeExec e(p, ctx); e.run(); }
    }
    catch (SimViolation&) { throw; }
    catch (bpp::Exception& ex) { ctx.fail("foreign-exception:bpp-unexpected", "foreign-exception:bpp-unexpected:" + opKind(p, ctx), ex.what()); }
    catch (std::exception& ex) { ctx.fail("foreign-exception:std", "foreign-exception:std:" + opKind(p, ctx), ex.what()); }
  }
  static std::string opKind(const Plan& p, const Ctx& ctx) { return (ctx.step >= 0 && ctx.step < static_cast<long>(p.ops.size())) ? p.ops[static_cast<size_t>(ctx.step)].k : std::string("setup"); }
};

Registrar reg(new C15());

}  // namespace
