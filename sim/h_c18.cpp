// C18 — random draws follow the named law, keep structural constraints, are reproducible.
// World (real code): RandomTools samplers and pickers, ContingencyTableGenerator::rcont2, ContingencyTableTest,
// rand()/randC() of the discretised distribution families.  No stubs: the only seam is the library generator's seed,
// which IS the schedule (fault kind rng-stream).
// A run: the plan carries its own library seed and a list of draw operations.  The history of every value the
// library hands out is recorded (pass A), re-drawn after re-seeding while library calls that must not draw are
// interleaved (pass B: identical bit for bit), and re-drawn under up to 15 derived seeds (structural invariants on
// every draw, pairwise different streams).  Law conformity is decided on the recorded history of pass A by
// distribution-free finite-sample bounds (DKW for continuous laws, Bernstein per category for discrete ones)
// against the library's own cumulative functions.
#include "engine.h"
#include <Bpp/Exceptions.h>
#include <Bpp/Numeric/VectorTools.h>
#include <Bpp/Numeric/Random/RandomTools.h>
#include <Bpp/Numeric/Random/ContingencyTableGenerator.h>
#include <Bpp/Numeric/Stat/ContingencyTableTest.h>
#include <Bpp/Numeric/Prob/GammaDiscreteDistribution.h>
#include <Bpp/Numeric/Prob/GaussianDiscreteDistribution.h>
#include <Bpp/Numeric/Prob/ExponentialDiscreteDistribution.h>
#include <Bpp/Numeric/Prob/TruncatedExponentialDiscreteDistribution.h>
#include <Bpp/Numeric/Prob/BetaDiscreteDistribution.h>
#include <Bpp/Numeric/Prob/UniformDiscreteDistribution.h>
#include <Bpp/Numeric/Prob/SimpleDiscreteDistribution.h>
#include <Bpp/Numeric/Hmm/FullHmmTransitionMatrix.h>
#include <Bpp/Numeric/AbstractParametrizable.h>
#include <Bpp/Numeric/Matrix/Matrix.h>
#include <algorithm>
#include <functional>
#include <memory>

using namespace dsim;
using bpp::RandomTools;

namespace {

typedef std::vector<long> VL;

VL splitInts(const std::string& s, char sep) {
  VL r; std::string cur; bool any = false;
  for (char c : s) { if (c == sep) { if (any) r.push_back(atol(cur.c_str())); cur.clear(); any = false; } else { cur += c; any = true; } }
  if (any) r.push_back(atol(cur.c_str()));
  return r;
}
std::vector<std::string> splitStr(const std::string& s, char sep) {
  std::vector<std::string> r; std::string cur;
  for (char c : s) { if (c == sep) { r.push_back(cur); cur.clear(); } else cur += c; }
  r.push_back(cur);
  return r;
}
std::string joinInts(const VL& v, char sep) { std::string s; for (size_t i = 0; i < v.size(); ++i) { if (i) s += sep; s += std::to_string(v[i]); } return s; }
long sumOf(const VL& v) { long s = 0; for (long x : v) s += x; return s; }

const double GRID[] = {0.1, 0.25, 0.5, 1, 2, 4, 5, 10, 20};
const size_t NGRID = 9;

// ---- thresholds (all distribution-free, finite-sample, significance 1e-9 per test)
const double KS_LIMIT = 3.6;                 // DKW/Massart: P(sqrt(N) D > t) <= 2 exp(-2 t^2); t = 3.6 gives 1.1e-11 (3.27 would be 1e-9; calibrated so that the worst of ~5500 tests of a quick run stays below 70 % of the limit)
const double DELTA = 1e-9;
double bernsteinT(double N, double prob, double L) { double var = N * prob * (1 - prob); return L / 3 + std::sqrt(L * L / 9 + 2 * var * L); }

// ---- signatures of the confirmed defects of the unchanged tree (used only by the generator's avoidance filter,
//      which is active solely for signatures listed with status "known" in known_findings.json)
const char* SIG_EXPO = "invariant:law-ks:randExponential:fits-reciprocal-parameter";
const char* SIG_GAMMA2 = "invariant:law-ks:randGamma2:fits-reciprocal-parameter";
const char* SIG_RC_GAUSS = "invariant:law-ks:randC:Gaussian:fits-sd-equal-to-sqrt-of-sigma";
const char* SIG_RC_EXPO = "invariant:law-ks:randC:Exponential:fits-reciprocal-parameter";
const char* SIG_RC_TEXPO = "invariant:law-ks:randC:TruncExponential:fits-reciprocal-parameter";
const char* SIG_RC_GAMMA = "invariant:law-ks:randC:Gamma:fits-reciprocal-parameter";
const char* SIG_RCONT = "sanitizer:asan-heap-buffer-overflow:rcont";
const char* SIG_CTEST = "sanitizer:asan-heap-buffer-overflow:ctest";

// minimal state alphabet (stub) so that a real FullHmmTransitionMatrix can be built and sampled
class SimAlphabet : public virtual bpp::HmmStateAlphabet, public bpp::AbstractParametrizable {
  size_t n_; bpp::Parameter st_;
public:
  explicit SimAlphabet(size_t n) : bpp::AbstractParametrizable(""), n_(n), st_("state", 0) {}
  SimAlphabet* clone() const override { return new SimAlphabet(*this); }
  const bpp::Clonable& getState(size_t) const override { return st_; }
  size_t getNumberOfStates() const override { return n_; }
  bool worksWith(const bpp::HmmStateAlphabet& a) const override { return a.getNumberOfStates() == n_; }
};

struct Cont {                      // a continuous sampler and the law the same parameters describe
  std::string name;
  std::function<double()> draw;
  std::function<double(double)> cdf;
  double lo = -HUGE_VAL, hi = HUGE_VAL;
  std::vector<std::pair<std::string, std::function<double(double)>>> alts;   // named wrong conventions, for the signature only
  std::shared_ptr<bpp::DiscreteDistributionInterface> obj;
};

struct Disc {                      // a discrete sampler: draw() returns the category index, -1 for a value outside the categories
  std::string name;
  std::function<long()> draw;
  std::vector<double> prob;        // stated probabilities (sum 1)
  std::shared_ptr<bpp::DiscreteDistributionInterface> obj;
  std::vector<double> cats;
};

struct Mode {
  bool first = false;              // pass A of the primary seed: law checks, ok() accounting
  bool interleave = false;         // pass B
  long cap = -1;                   // cap on the number of draws of an op (-1: none)
  bool capLastOnly = false;
};

class Exec {
  const Plan& p; Ctx& ctx;
  std::vector<double> h_;          // history of the current pass
  long quietK_ = 0;
  long draws_ = 0;
public:
  Exec(const Plan& pl, Ctx& c) : p(pl), ctx(c) {}

  // the class the shrinker preserves is the full signature (sampler included), so a minimised plan is about the same sampler
  [[noreturn]] void fail2(const char*, const std::string& sig, const std::string& detail) { ctx.fail(sig, sig, detail); }
  static bool inGrid(double v) { return v >= 0.1 && v <= 20; }

  // ------------------------------------------------------------------ library calls that must not draw
  void quiet() {
    long k = quietK_++;
    try {
      switch (k % 10) {
        case 0: RandomTools::pNorm(0.3); RandomTools::qNorm(0.7, 1, 2); break;
        case 1: RandomTools::pGamma(1.5, 2, 3); RandomTools::qGamma(0.4, 2, 3); break;
        case 2: RandomTools::pBeta(0.3, 2, 3); RandomTools::qBeta(0.6, 2, 3); break;
        case 3: RandomTools::pChisq(3.2, 4); RandomTools::qChisq(0.9, 3); break;
        case 4: { bpp::GammaDiscreteDistribution d(4, 0.5, 0.5); d.getCategories(); d.pProb(0.7); break; }
        case 5: { bpp::BetaDiscreteDistribution d(3, 2, 2); d.qProb(0.25); d.Expectation(0.5); break; }
        case 6: { bpp::GaussianDiscreteDistribution d(3, 1, 2); d.getProbabilities(); bpp::ExponentialDiscreteDistribution e(2, 3); e.qProb(0.5); break; }
        case 7: { std::vector<size_t> r = {3, 4}, c = {2, 5}; bpp::ContingencyTableGenerator g(r, c); break; }
        case 8: { std::vector<std::vector<size_t>> t = {{6, 12, 16}, {9, 34, 28}}; bpp::ContingencyTableTest ct(t, 0, false); ct.getPValue(); break; }
        default: { std::vector<double> v = {1, 2, 3}; bpp::VectorTools::cumSum(v); bpp::VectorTools::sum(v); RandomTools::lnGamma(2.5); RandomTools::lnBeta(2, 3); }
      }
    } catch (bpp::Exception&) {}
  }

  long capped(long n, const Mode& m, bool last) const { if (m.cap >= 0 && (!m.capLastOnly || last) && n > m.cap) return m.cap; return n; }

  // ------------------------------------------------------------------ continuous families
  bool makeCont(const Op& o, Cont& c) {
    double x = o.x, y = o.y;
    // the quantifier's grid: every scale/shape/rate/variance parameter in [0.1, 20], locations in [-20, 20] (shrunk plans may leave it)
    if (o.k == "norm" || (o.k == "distc" && o.b % 6 == 1)) { if (!(std::abs(x) <= 20) || !inGrid(y)) return false; }
    else if (o.k == "unif" || o.k == "expo" || (o.k == "gamma" && o.b % 2 == 0) || (o.k == "distc" && o.b % 6 == 2)) { if (!inGrid(x)) return false; }
    else if (!inGrid(x) || !inGrid(y)) return false;
    try {
      if (o.k == "unif") {
        c.name = "uniform"; c.draw = [x] { return RandomTools::giveRandomNumberBetweenZeroAndEntry(x); };
        c.cdf = [x](double z) { return z <= 0 ? 0 : (z >= x ? 1 : z / x); }; c.lo = 0; c.hi = x;
      } else if (o.k == "norm") {
        c.name = "randGaussian"; c.draw = [x, y] { return RandomTools::randGaussian(x, y); };
        c.cdf = [x, y](double z) { return RandomTools::pNorm(z, x, std::sqrt(y)); };
        c.alts.push_back({"fits-sd-equal-to-variance-argument", [x, y](double z) { return RandomTools::pNorm(z, x, y); }});
        c.alts.push_back({"fits-variance-equal-to-sqrt-of-argument", [x, y](double z) { return RandomTools::pNorm(z, x, std::sqrt(std::sqrt(y))); }});
      } else if (o.k == "expo") {
        c.name = "randExponential"; c.draw = [x] { return RandomTools::randExponential(x); };
        c.cdf = [x](double z) { return z <= 0 ? 0 : RandomTools::pGamma(z, 1, 1 / x); }; c.lo = 0;
        c.alts.push_back({"fits-reciprocal-parameter", [x](double z) { return z <= 0 ? 0 : RandomTools::pGamma(z, 1, x); }});
      } else if (o.k == "gamma") {
        if (o.b % 2 == 0) {
          c.name = "randGamma1"; c.draw = [x] { return RandomTools::randGamma(x); };
          c.cdf = [x](double z) { return z <= 0 ? 0 : RandomTools::pGamma(z, x, 1); };
        } else {
          c.name = "randGamma2"; c.draw = [x, y] { return RandomTools::randGamma(x, y); };
          c.cdf = [x, y](double z) { return z <= 0 ? 0 : RandomTools::pGamma(z, x, y); };
          c.alts.push_back({"fits-reciprocal-parameter", [x, y](double z) { return z <= 0 ? 0 : RandomTools::pGamma(z, x, 1 / y); }});
        }
        c.lo = 0;
      } else if (o.k == "beta") {
        c.name = "randBeta"; c.draw = [x, y] { return RandomTools::randBeta(x, y); };
        c.cdf = [x, y](double z) { return z <= 0 ? 0 : (z >= 1 ? 1 : RandomTools::pBeta(z, x, y)); }; c.lo = 0; c.hi = 1;
        c.alts.push_back({"fits-swapped-shapes", [x, y](double z) { return z <= 0 ? 0 : (z >= 1 ? 1 : RandomTools::pBeta(z, y, x)); }});
      } else if (o.k == "distc") {
        size_t n = static_cast<size_t>(1 + o.c % 8);
        switch (o.b % 6) {
          case 0: c.obj.reset(new bpp::GammaDiscreteDistribution(n, x, y)); c.name = "randC:Gamma"; c.lo = 0;
            c.alts.push_back({"fits-reciprocal-parameter", [x, y](double z) { return z <= 0 ? 0 : RandomTools::pGamma(z, x, 1 / y); }}); break;
          case 1: c.obj.reset(new bpp::GaussianDiscreteDistribution(n, x, y)); c.name = "randC:Gaussian";
            c.alts.push_back({"fits-sd-equal-to-sqrt-of-sigma", [x, y](double z) { return RandomTools::pNorm(z, x, std::sqrt(y)); }});
            c.alts.push_back({"fits-sd-equal-to-sigma-squared", [x, y](double z) { return RandomTools::pNorm(z, x, y * y); }}); break;
          case 2: c.obj.reset(new bpp::ExponentialDiscreteDistribution(n, x)); c.name = "randC:Exponential"; c.lo = 0;
            c.alts.push_back({"fits-reciprocal-parameter", [x](double z) { return z <= 0 ? 0 : 1 - std::exp(-z / x); }}); break;
          case 3: c.obj.reset(new bpp::BetaDiscreteDistribution(n, x, y)); c.name = "randC:Beta"; c.lo = 0; c.hi = 1;
            c.alts.push_back({"fits-swapped-shapes", [x, y](double z) { return z <= 0 ? 0 : (z >= 1 ? 1 : RandomTools::pBeta(z, y, x)); }}); break;
          case 4: c.obj.reset(new bpp::UniformDiscreteDistribution(static_cast<unsigned int>(n), -x, y)); c.name = "randC:Uniform"; c.lo = -x; c.hi = y; break;
          default: c.obj.reset(new bpp::TruncatedExponentialDiscreteDistribution(n, x, y)); c.name = "randC:TruncExponential"; c.lo = 0; c.hi = y;
            c.alts.push_back({"fits-reciprocal-parameter", [x, y](double z) { return z <= 0 ? 0 : (z >= y ? 1 : (1 - std::exp(-z / x)) / (1 - std::exp(-y / x))); }});
        }
        std::shared_ptr<bpp::DiscreteDistributionInterface> d = c.obj;
        c.draw = [d] { return d->randC(); };
        double lo = c.lo, hi = c.hi;
        c.cdf = [d, lo, hi](double z) { return z <= lo ? 0 : (z >= hi ? 1 : d->pProb(z)); };
      } else return false;
    } catch (bpp::Exception&) { return false; }
    return true;
  }

  static double ksStat(const std::vector<double>& sorted, const std::function<double(double)>& cdf) {
    double n = static_cast<double>(sorted.size()), D = 0;
    for (size_t i = 0; i < sorted.size(); ++i) {
      double F = cdf(sorted[i]);
      if (!(F >= 0 && F <= 1)) return HUGE_VAL;
      D = std::max(D, std::max(F - static_cast<double>(i) / n, static_cast<double>(i + 1) / n - F));
    }
    return D * std::sqrt(n);
  }

  void opCont(const Op& o, const Mode& m, bool last) {
    Cont c;
    if (!makeCont(o, c)) { ctx.outcome("skip"); return; }
    long N = capped(o.a, m, last);
    std::vector<double> xs; xs.reserve(static_cast<size_t>(N));
    for (long i = 0; i < N; ++i) {
      if (m.interleave && i % 97 == 0) quiet();
      double v = c.draw();
      h_.push_back(v); ++draws_;
      if (!(v >= c.lo && v <= c.hi) || !std::isfinite(v)) fail2("invariant:support", "invariant:support:" + c.name, c.name + "(" + fmtd(o.x) + "," + fmtd(o.y) + ") returned " + fmtd(v) + " outside [" + fmtd(c.lo) + "," + fmtd(c.hi) + "]");
      xs.push_back(v);
    }
    if (m.first && N >= 500) {
      std::sort(xs.begin(), xs.end());
      double t;
      try { t = ksStat(xs, c.cdf); } catch (bpp::Exception&) { t = HUGE_VAL; }
      ctx.evd("ks", t);
      ctx.probe("calibration:ks-tenths-of-limit:" + std::to_string(std::min(10L, static_cast<long>(10 * t / KS_LIMIT))));
      if (!(t < KS_LIMIT)) {
        std::string q = "no-listed-alternative";
        for (auto& a : c.alts) { double ta; try { ta = ksStat(xs, a.second); } catch (bpp::Exception&) { ta = HUGE_VAL; } if (ta < KS_LIMIT) { q = a.first; break; } }
        double mean = 0; for (double v : xs) mean += v; mean /= static_cast<double>(N);
        ctx.fail("invariant:law-ks:" + c.name, "invariant:law-ks:" + c.name + ":" + q,
                 c.name + "(" + fmtd(o.x) + "," + fmtd(o.y) + "): " + std::to_string(N) + " draws, sqrt(N)*D = " + fmtd(t) + " against the library's cdf for the same parameters (limit " + fmtd(KS_LIMIT) + "), sample mean " + fmtd(mean) + "; " + q);
      }
      ctx.probe("law-ks-checked:" + c.name);
    }
  }

  // ------------------------------------------------------------------ discrete families
  // Bernstein bound per category; zero-probability categories must never appear
  void checkCounts(const std::string& name, const std::vector<double>& prob, const std::vector<long>& cnt, long N, const std::string& what) {
    size_t K = prob.size();
    double L = std::log(2.0 * static_cast<double>(K) / DELTA), worst = 0; size_t wi = 0;
    for (size_t i = 0; i < K; ++i) {
      if (prob[i] <= 0) { if (cnt[i] != 0) fail2("invariant:zero-weight", "invariant:zero-weight:" + name, what + ": element " + std::to_string(i) + " has weight 0 and was returned " + std::to_string(cnt[i]) + " times"); continue; }
      double r = std::abs(static_cast<double>(cnt[i]) - static_cast<double>(N) * prob[i]) / bernsteinT(static_cast<double>(N), prob[i], L);
      if (r > worst) { worst = r; wi = i; }
    }
    ctx.evd("cnt", worst);
    ctx.probe("calibration:counts-tenths-of-limit:" + std::to_string(std::min(10L, static_cast<long>(10 * worst))));
    if (!(worst < 1)) fail2("invariant:law-counts", "invariant:law-counts:" + name, what + ": " + std::to_string(N) + " draws, element " + std::to_string(wi) + " stated probability " + fmtd(prob[wi]) + " observed " + std::to_string(cnt[wi]) + " (Bernstein ratio " + fmtd(worst) + ")");
  }

  static std::vector<double> normalised(const VL& w) { std::vector<double> pr; double s = static_cast<double>(sumOf(w)); for (long x : w) pr.push_back(static_cast<double>(x) / s); return pr; }

  void opDistD(const Op& o, const Mode& m, bool last) {
    std::shared_ptr<bpp::DiscreteDistributionInterface> d; std::string name;
    size_t n = static_cast<size_t>(1 + o.c % 8); double x = o.x, y = o.y;
    { long f = o.b % 7; bool okp = f == 6 || (f == 1 ? (std::abs(x) <= 20 && inGrid(y)) : (f == 2 ? inGrid(x) : (inGrid(x) && inGrid(y)))); if (!okp) { ctx.outcome("skip"); return; } }
    try {
      switch (o.b % 7) {
        case 0: d.reset(new bpp::GammaDiscreteDistribution(n, x, y)); name = "rand:Gamma"; break;
        case 1: d.reset(new bpp::GaussianDiscreteDistribution(n, x, y)); name = "rand:Gaussian"; break;
        case 2: d.reset(new bpp::ExponentialDiscreteDistribution(n, x)); name = "rand:Exponential"; break;
        case 3: d.reset(new bpp::BetaDiscreteDistribution(n, x, y)); name = "rand:Beta"; break;
        case 4: d.reset(new bpp::UniformDiscreteDistribution(static_cast<unsigned int>(n), -x, y)); name = "rand:Uniform"; break;
        case 5: d.reset(new bpp::TruncatedExponentialDiscreteDistribution(n, x, y)); name = "rand:TruncExponential"; break;
        default: {
          VL w = splitInts(o.s, ','); if (w.empty() || sumOf(w) <= 0) { ctx.outcome("skip"); return; }
          std::vector<double> vals, pr; double s = static_cast<double>(sumOf(w));
          for (size_t i = 0; i < w.size(); ++i) if (w[i] > 0) { vals.push_back(static_cast<double>(i) * 0.5 + 0.25); pr.push_back(static_cast<double>(w[i]) / s); }
          d.reset(new bpp::SimpleDiscreteDistribution(vals, pr)); name = "rand:Simple";
        }
      }
    } catch (bpp::Exception&) { ctx.outcome("skip"); return; }
    std::vector<double> cats = d->getCategories(), pr = d->getProbabilities();
    double tot = 0; for (double q : pr) tot += q;
    if (cats.size() != pr.size() || cats.empty() || !(std::abs(tot - 1) < 1e-6)) { ctx.outcome("skip"); return; }   // not a probability vector: C09's subject, not this property's
    for (double& q : pr) q /= tot;
    long N = capped(o.a, m, last);
    std::vector<long> cnt(cats.size(), 0);
    for (long i = 0; i < N; ++i) {
      if (m.interleave && i % 97 == 0) quiet();
      double v = d->rand(); h_.push_back(v); ++draws_;
      long idx = -1; for (size_t j = 0; j < cats.size(); ++j) if (cats[j] == v) { idx = static_cast<long>(j); break; }
      if (idx < 0) fail2("invariant:not-a-category", "invariant:not-a-category:" + name, name + " rand() returned " + fmtd(v) + " which is none of its " + std::to_string(cats.size()) + " categories");
      ++cnt[static_cast<size_t>(idx)];
    }
    if (m.first && N >= 500) { checkCounts(name, pr, cnt, N, name + "(" + fmtd(x) + "," + fmtd(y) + ")"); ctx.probe("law-counts-checked:rand"); }
  }

  std::vector<int> source(long n) { std::vector<int> v; for (long i = 0; i < n; ++i) v.push_back(100 + static_cast<int>(i)); return v; }

  // expectRaise: the call must raise a bpp::Exception
  template <class F> bool raises(F f) {
    try { f(); return false; }
    catch (bpp::Exception&) { return true; }
  }

  void opPick(const Op& o, const Mode& m, bool last) {
    long n = o.b % 13; long variant = o.c % 3;
    std::vector<int> src = source(n);
    if (n == 0) {
      bool r;
      if (variant == 0) { const std::vector<int>& cs = src; r = raises([&] { RandomTools::pickOne(cs); }); }
      else r = raises([&] { RandomTools::pickOne(src, variant == 1); });
      if (!r) fail2("invariant:empty-source-raises", "invariant:empty-source-raises:pickOne", "pickOne on an empty vector returned");
      ctx.probe("empty-source-raised"); h_.push_back(-1);
      return;
    }
    long N = capped(o.a, m, last);
    if (variant < 2) {
      std::vector<long> cnt(static_cast<size_t>(n), 0);
      for (long i = 0; i < N; ++i) {
        if (m.interleave && i % 97 == 0) quiet();
        int e; if (variant == 0) { const std::vector<int>& cs = src; e = RandomTools::pickOne(cs); } else e = RandomTools::pickOne(src, true);
        h_.push_back(e); ++draws_;
        if (e < 100 || e >= 100 + n) fail2("invariant:element-of-source", "invariant:element-of-source:pickOne", "pickOne returned " + std::to_string(e));
        if (static_cast<long>(src.size()) != n) fail2("invariant:source-unchanged", "invariant:source-unchanged:pickOne", "pickOne with replacement changed the vector");
        ++cnt[static_cast<size_t>(e - 100)];
      }
      if (m.first && N >= 500) checkCounts("pickOne", std::vector<double>(static_cast<size_t>(n), 1.0 / static_cast<double>(n)), cnt, N, "pickOne over " + std::to_string(n) + " elements");
    } else {
      // extraction until empty, `rounds` times; the first extracted element is uniform
      long rounds = std::max(1L, N / std::max(1L, n));
      std::vector<long> cnt(static_cast<size_t>(n), 0);
      for (long r = 0; r < rounds; ++r) {
        std::vector<int> v = src; std::set<int> left(src.begin(), src.end());
        for (long i = 0; i < n; ++i) {
          int e = RandomTools::pickOne(v, false); h_.push_back(e); ++draws_;
          if (!left.count(e)) fail2("invariant:distinct", "invariant:distinct:pickOne-extract", "extraction returned " + std::to_string(e) + " which is not (or no longer) in the vector");
          left.erase(e);
          if (std::set<int>(v.begin(), v.end()) != left || v.size() != left.size()) fail2("invariant:extract-removes", "invariant:extract-removes:pickOne", "after extraction the vector is not the previous content minus the returned element");
          if (i == 0) ++cnt[static_cast<size_t>(e - 100)];
        }
        if (!raises([&] { RandomTools::pickOne(v, false); })) fail2("invariant:empty-source-raises", "invariant:empty-source-raises:pickOne", "pickOne on an emptied vector returned");
      }
      ctx.probe("extracted-until-empty");
      if (m.first && rounds >= 500) checkCounts("pickOne-extract", std::vector<double>(static_cast<size_t>(n), 1.0 / static_cast<double>(n)), cnt, rounds, "first extracted element over " + std::to_string(n));
    }
  }

  void opWPick(const Op& o, const Mode& m, bool last) {
    VL w = splitInts(o.s, ','); long n = static_cast<long>(w.size()); long variant = o.c % 3;
    std::vector<int> src = source(n);
    std::vector<double> wd(w.begin(), w.end());
    if (n == 0) {
      bool r;
      if (variant == 0) { const std::vector<int>& cs = src; const std::vector<double>& cw = wd; r = raises([&] { RandomTools::pickOne(cs, cw); }); }
      else r = raises([&] { RandomTools::pickOne(src, wd, variant == 1); });
      if (!r) fail2("invariant:empty-source-raises", "invariant:empty-source-raises:pickOne-weighted", "weighted pickOne on an empty vector returned");
      ctx.probe("empty-source-raised"); h_.push_back(-1);
      return;
    }
    if (sumOf(w) <= 0) { ctx.outcome("skip"); return; }
    bool hasZero = false; for (long x : w) if (x == 0) hasZero = true;
    std::vector<double> pr = normalised(w);
    long N = capped(o.a, m, last);
    if (variant < 2) {
      std::vector<long> cnt(static_cast<size_t>(n), 0);
      for (long i = 0; i < N; ++i) {
        if (m.interleave && i % 97 == 0) quiet();
        int e; if (variant == 0) { const std::vector<int>& cs = src; const std::vector<double>& cw = wd; e = RandomTools::pickOne(cs, cw); } else e = RandomTools::pickOne(src, wd, true);
        h_.push_back(e); ++draws_;
        if (e < 100 || e >= 100 + n) fail2("invariant:element-of-source", "invariant:element-of-source:pickOne-weighted", "weighted pickOne returned " + std::to_string(e));
        if (static_cast<long>(src.size()) != n || static_cast<long>(wd.size()) != n) fail2("invariant:source-unchanged", "invariant:source-unchanged:pickOne-weighted", "weighted pickOne with replacement changed its vectors");
        if (w[static_cast<size_t>(e - 100)] == 0) fail2("invariant:zero-weight", "invariant:zero-weight:pickOne-weighted", "element with weight 0 returned (weights " + o.s + ")");
        ++cnt[static_cast<size_t>(e - 100)];
      }
      if (hasZero && N > 0) ctx.probe("zero-weight-present");
      if (m.first && N >= 500) { checkCounts("pickOne-weighted", pr, cnt, N, "weighted pickOne, weights " + o.s); ctx.probe("law-counts-checked:weighted"); }
    } else {
      long rounds = std::max(1L, N / std::max(1L, n));
      std::vector<long> cnt(static_cast<size_t>(n), 0);
      for (long r = 0; r < rounds; ++r) {
        std::vector<int> v = src; std::vector<double> ww = wd; std::set<int> left(src.begin(), src.end());
        long positiveLeft = 0; for (long x : w) if (x > 0) ++positiveLeft;
        for (long i = 0; i < n; ++i) {
          int e = RandomTools::pickOne(v, ww, false); h_.push_back(e); ++draws_;
          if (!left.count(e)) fail2("invariant:distinct", "invariant:distinct:pickOne-weighted-extract", "weighted extraction returned " + std::to_string(e) + " which is not (or no longer) in the vector");
          left.erase(e);
          bool zero = w[static_cast<size_t>(e - 100)] == 0;
          if (zero && positiveLeft > 0) fail2("invariant:zero-weight", "invariant:zero-weight:pickOne-weighted-extract", "element with weight 0 extracted while elements with positive weight remain (weights " + o.s + ")");
          if (!zero) --positiveLeft;
          if (v.size() != left.size() || ww.size() != v.size() || std::set<int>(v.begin(), v.end()) != left) fail2("invariant:extract-removes", "invariant:extract-removes:pickOne-weighted", "after weighted extraction the vectors are not the previous content minus the returned element");
          for (size_t q = 0; q < v.size(); ++q) if (ww[q] != wd[static_cast<size_t>(v[q] - 100)]) fail2("invariant:weights-follow-elements", "invariant:weights-follow-elements:pickOne-weighted", "after weighted extraction position " + std::to_string(q) + " holds element " + std::to_string(v[q] - 100) + " with the weight of another element (weights " + o.s + ")");
          if (i == 0) ++cnt[static_cast<size_t>(e - 100)];
          if (positiveLeft == 0 && i + 1 < n) { ctx.probe("weighted-extraction-exhausted-positive-weights"); break; }   // only zero weights remain: the next pick has no defined law
        }
      }
      if (hasZero) ctx.probe("zero-weight-present");
      if (m.first && rounds >= 500) checkCounts("pickOne-weighted-extract", pr, cnt, rounds, "first weighted extraction, weights " + o.s);
    }
  }

  void opCumSum(const Op& o, const Mode& m, bool last) {
    VL w = splitInts(o.s, ','); size_t n = w.size();
    if (n == 0 || sumOf(w) <= 0) { ctx.outcome("skip"); return; }
    std::vector<double> cum(n); double tot = static_cast<double>(sumOf(w)); long acc = 0;
    for (size_t i = 0; i < n; ++i) { acc += w[i]; cum[i] = static_cast<double>(acc) / tot; }
    // trailing zero weights would put several entries at exactly 1; "last probability is assumed to be one" holds either way
    long N = capped(o.a, m, last);
    std::vector<long> cnt(n, 0);
    for (long i = 0; i < N; ++i) {
      if (m.interleave && i % 97 == 0) quiet();
      size_t idx = RandomTools::pickFromCumSum(cum); h_.push_back(static_cast<double>(idx)); ++draws_;
      if (idx >= n) fail2("invariant:index-in-range", "invariant:index-in-range:pickFromCumSum", "pickFromCumSum returned index " + std::to_string(idx) + " of " + std::to_string(n));
      if (w[idx] == 0) fail2("invariant:zero-weight", "invariant:zero-weight:pickFromCumSum", "index with weight 0 returned (weights " + o.s + ")");
      ++cnt[idx];
    }
    if (m.first && N >= 500) { checkCounts("pickFromCumSum", normalised(w), cnt, N, "pickFromCumSum, weights " + o.s); ctx.probe("law-counts-checked:cumsum"); }
  }

  void opMulti(const Op& o, const Mode& m, bool last) {
    VL w = splitInts(o.s, ','); size_t K = w.size();
    if (K == 0 || sumOf(w) <= 0) { ctx.outcome("skip"); return; }
    // x scales the weights so that they do not sum to one ("the input probabilities are scaled")
    std::vector<double> probs; for (long v : w) probs.push_back(static_cast<double>(v) * o.x);
    long reps = capped(std::max(1L, o.b), m, last), n = o.a;
    std::vector<long> cnt(K, 0); long total = 0;
    for (long r = 0; r < reps; ++r) {
      if (m.interleave && r % 7 == 0) quiet();
      std::vector<size_t> s = RandomTools::randMultinomial(static_cast<size_t>(n), probs);
      if (static_cast<long>(s.size()) != n) fail2("invariant:multinomial-size", "invariant:multinomial-size", "randMultinomial(" + std::to_string(n) + ") returned " + std::to_string(s.size()) + " states");
      for (size_t q : s) {
        h_.push_back(static_cast<double>(q)); ++draws_;
        if (q >= K) fail2("invariant:index-in-range", "invariant:index-in-range:randMultinomial", "randMultinomial returned state " + std::to_string(q) + " of " + std::to_string(K) + " (weights " + o.s + " scaled by " + fmtd(o.x) + ")");
        if (w[q] == 0) fail2("invariant:zero-weight", "invariant:zero-weight:randMultinomial", "state with weight 0 returned (weights " + o.s + ")");
        ++cnt[q];
      }
      total += n;
    }
    if (n == 0) ctx.probe("multinomial-empty-sample");
    if (m.first && total >= 500) { checkCounts("randMultinomial", normalised(w), cnt, total, "randMultinomial, weights " + o.s + " scaled by " + fmtd(o.x)); ctx.probe("law-counts-checked:multinomial"); }
  }

  void opSample(const Op& o, const Mode& m, bool last) {
    long n = o.b % 13, k = o.c % 15; bool replace = o.d & 1, weighted = o.d & 2;
    VL w; std::vector<double> wd;
    if (weighted) { w = splitInts(o.s, ','); w.resize(static_cast<size_t>(n), 1); wd.assign(w.begin(), w.end()); if (n > 0 && sumOf(w) <= 0) { ctx.outcome("skip"); return; } }
    long positive = 0; for (long x : w) if (x > 0) ++positive;
    std::vector<int> src = source(n);
    const char* nm = weighted ? (replace ? "getSample-weighted-replace" : "getSample-weighted") : (replace ? "getSample-replace" : "getSample");
    bool mustRaise = (!replace && k > n) || (replace && n == 0 && k > 0);
    bool mayRaise = n == 0 && k == 0;          // zero elements requested from an empty source: the statement does not decide
    long reps = capped(std::max(1L, o.a), m, last);
    std::vector<long> first(static_cast<size_t>(std::max(1L, n)), 0), lastPos(static_cast<size_t>(std::max(1L, n)), 0);
    long done = 0;
    for (long r = 0; r < reps; ++r) {
      if (m.interleave && r % 7 == 0) quiet();
      std::vector<int> out(static_cast<size_t>(k), -7);
      bool raised = raises([&] { if (weighted) RandomTools::getSample(src, wd, out, replace); else RandomTools::getSample(src, out, replace); });
      if (mustRaise) {
        if (!raised) fail2("invariant:refused", std::string("invariant:refused:") + nm + (n == 0 ? ":empty-source" : ":over-long"), std::string(nm) + " of " + std::to_string(k) + " from " + std::to_string(n) + " elements returned");
        ctx.probe(n == 0 ? "empty-source-raised" : "overlong-sample-refused"); h_.push_back(-1);
        break;
      }
      if (raised) {
        if (mayRaise) { ctx.probe("zero-from-empty-raised"); h_.push_back(-1); break; }
        fail2("invariant:unexpected-raise", std::string("invariant:unexpected-raise:") + nm, std::string(nm) + " of " + std::to_string(k) + " from " + std::to_string(n) + " elements raised");
      }
      if (mayRaise) ctx.probe("zero-from-empty-returned");
      if (static_cast<long>(out.size()) != k) fail2("invariant:sample-size", std::string("invariant:sample-size:") + nm, "output vector resized");
      std::set<int> seen;
      for (int e : out) {
        h_.push_back(e); ++draws_;
        if (e < 100 || e >= 100 + n) fail2("invariant:element-of-source", std::string("invariant:element-of-source:") + nm, std::string(nm) + " returned " + std::to_string(e) + " which is not in the source");
        if (!replace && !seen.insert(e).second) fail2("invariant:distinct", std::string("invariant:distinct:") + nm, std::string(nm) + " of " + std::to_string(k) + " from " + std::to_string(n) + " returned element " + std::to_string(e - 100) + " twice");
        if (weighted && w[static_cast<size_t>(e - 100)] == 0 && (replace || k <= positive)) fail2("invariant:zero-weight", std::string("invariant:zero-weight:") + nm, "element with weight 0 sampled although " + std::to_string(positive) + " elements with positive weight cover the request (weights " + joinInts(w, ',') + ")");
      }
      if (!replace && k == n && n > 0) { if (static_cast<long>(seen.size()) != n) fail2("invariant:permutation", std::string("invariant:permutation:") + nm, "sizes match but the sample is not a permutation"); ctx.probe("sample-size-equals-source"); }
      if (k > 0) { ++first[static_cast<size_t>(out[0] - 100)]; ++lastPos[static_cast<size_t>(out.back() - 100)]; ++done; }
    }
    if (m.first && done >= 500 && n >= 1) {
      std::vector<double> pr = weighted ? normalised(w) : std::vector<double>(static_cast<size_t>(n), 1.0 / static_cast<double>(n));
      checkCounts(std::string(nm) + ":first-position", pr, first, done, std::string(nm) + " " + std::to_string(k) + " of " + std::to_string(n) + ", first position");
      if (!weighted || replace) checkCounts(std::string(nm) + ":last-position", pr, lastPos, done, std::string(nm) + " " + std::to_string(k) + " of " + std::to_string(n) + ", last position");
      ctx.probe("law-counts-checked:sample");
    }
  }

  void checkTable(const bpp::RowMatrix<size_t>& t, const VL& rows, const VL& cols, const std::string& what) {
    if (t.getNumberOfRows() != rows.size() || t.getNumberOfColumns() != cols.size()) fail2("invariant:rcont-shape", "invariant:rcont-shape", what + ": table has the wrong shape");
    size_t total = static_cast<size_t>(sumOf(rows));
    std::vector<size_t> cs(cols.size(), 0);
    for (size_t i = 0; i < rows.size(); ++i) {
      size_t rs = 0;
      for (size_t j = 0; j < cols.size(); ++j) {
        size_t c = t(i, j);
        if (c > total) fail2("invariant:rcont-cell-range", "invariant:rcont-cell-range", what + ": cell (" + std::to_string(i) + "," + std::to_string(j) + ") is negative/wrapped");
        rs += c; cs[j] += c;
      }
      if (rs != static_cast<size_t>(rows[i])) fail2("invariant:rcont-margins", "invariant:rcont-margins:row", what + ": row " + std::to_string(i) + " sums to " + std::to_string(rs));
    }
    for (size_t j = 0; j < cols.size(); ++j) if (cs[j] != static_cast<size_t>(cols[j])) fail2("invariant:rcont-margins", "invariant:rcont-margins:column", what + ": column " + std::to_string(j) + " sums to " + std::to_string(cs[j]));
  }

  void opRcont(const Op& o, const Mode& m, bool last) {
    std::vector<std::string> parts = splitStr(o.s, '|');
    if (parts.size() != 2) { ctx.outcome("skip"); return; }
    VL rows = splitInts(parts[0], ','), cols = splitInts(parts[1], ',');
    if (rows.size() < 2 || cols.size() < 2 || sumOf(rows) != sumOf(cols)) { ctx.outcome("skip"); return; }
    std::vector<size_t> r(rows.begin(), rows.end()), c(cols.begin(), cols.end());
    bpp::ContingencyTableGenerator gen(r, c);
    long reps = capped(std::max(1L, o.a), m, last);
    bool zero = false; for (long x : rows) if (x == 0) zero = true; for (long x : cols) if (x == 0) zero = true;
    for (long k = 0; k < reps; ++k) {
      if (m.interleave && k % 5 == 0) quiet();
      bpp::RowMatrix<size_t> t = gen.rcont2();
      checkTable(t, rows, cols, "rcont2 rows " + parts[0] + " cols " + parts[1] + " (table " + std::to_string(k) + " of this generator)");
      for (size_t i = 0; i < rows.size(); ++i) for (size_t j = 0; j < cols.size(); ++j) h_.push_back(static_cast<double>(t(i, j)));
      ++draws_;
    }
    if (zero) ctx.probe("rcont-zero-margin");
    if (rows.size() == 5 && cols.size() == 5) ctx.probe("rcont-5x5");
    if (rows.size() >= 3 && cols.size() >= 3) ctx.probe("rcont-3x3-or-larger");
    if (sumOf(rows) >= 100) ctx.probe("rcont-total-100-or-more");
  }

  void opCTest(const Op& o, const Mode& m, bool) {
    std::vector<std::string> rs = splitStr(o.s, '|');
    std::vector<std::vector<size_t>> table;
    for (auto& r : rs) { VL v = splitInts(r, ','); table.push_back(std::vector<size_t>(v.begin(), v.end())); }
    if (table.size() < 2 || table[0].size() < 2) { ctx.outcome("skip"); return; }
    for (auto& r : table) if (r.size() != table[0].size()) { ctx.outcome("skip"); return; }
    bool zeroMargin = false;
    for (auto& r : table) { size_t s = 0; for (size_t c : r) s += c; if (s == 0) zeroMargin = true; }
    for (size_t j = 0; j < table[0].size(); ++j) { size_t s = 0; for (auto& r : table) s += r[j]; if (s == 0) zeroMargin = true; }
    if (m.interleave) quiet();
    for (int perm = 0; perm < (o.a > 0 ? 2 : 1); ++perm) {      // a = 0: asymptotic p-value only
      unsigned int nb = perm ? static_cast<unsigned int>(o.a) : 0;
      double pv = 0; bool raised = false;
      try { bpp::ContingencyTableTest t(table, nb, false); pv = t.getPValue(); }
      catch (bpp::Exception&) { raised = true; }
      if (raised) { if (!zeroMargin) fail2("invariant:unexpected-raise", "invariant:unexpected-raise:ContingencyTableTest", "ContingencyTableTest raised on a table with positive margins: " + o.s); h_.push_back(-1); ctx.probe("ctest-zero-margin-refused"); return; }
      h_.push_back(pv); ++draws_;
      if (!(pv >= 0 && pv <= 1)) fail2("invariant:pvalue-range", std::string("invariant:pvalue-range:") + (perm ? "permutation" : "asymptotic"), "ContingencyTableTest(" + o.s + ", " + std::to_string(nb) + ") p-value " + fmtd(pv));
      if (perm) ctx.probe("ctest-permutation-pvalue");
    }
  }

  // AbstractHmmTransitionMatrix::sample: structure only (length, states in range); the law of the path is C13's subject
  void opHmm(const Op& o, const Mode& m, bool last) {
    std::vector<std::string> rs = splitStr(o.s, '|'); size_t n = rs.size();
    if (n < 2 || n > 5) { ctx.outcome("skip"); return; }
    bpp::RowMatrix<double> mat(n, n);
    for (size_t i = 0; i < n; ++i) {
      VL w = splitInts(rs[i], ','); if (w.size() != n) { ctx.outcome("skip"); return; }
      for (long x : w) if (x <= 0) { ctx.outcome("skip"); return; }
      double tot = static_cast<double>(sumOf(w));
      for (size_t j = 0; j < n; ++j) mat(i, j) = static_cast<double>(w[j]) / tot;
    }
    std::shared_ptr<const bpp::HmmStateAlphabet> alph(new SimAlphabet(n));
    bpp::FullHmmTransitionMatrix tm(alph);
    try { tm.setTransitionProbabilities(mat); } catch (bpp::Exception&) { ctx.outcome("skip"); return; }
    long reps = capped(std::max(1L, o.b), m, last);
    for (long r = 0; r < reps; ++r) {
      if (m.interleave) quiet();
      std::vector<size_t> path = tm.sample(static_cast<size_t>(o.a));
      if (static_cast<long>(path.size()) != o.a) fail2("", "invariant:hmm-sample-size", "sample(" + std::to_string(o.a) + ") returned " + std::to_string(path.size()) + " states");
      for (size_t q : path) { h_.push_back(static_cast<double>(q)); ++draws_; if (q >= n) fail2("", "invariant:index-in-range:hmm-sample", "sample returned state " + std::to_string(q) + " of " + std::to_string(n)); }
    }
    ctx.probe("hmm-path-sampled");
  }

  void runOp(const Op& o, const Mode& m, bool last) {
    if (o.k == "unif" || o.k == "norm" || o.k == "expo" || o.k == "gamma" || o.k == "beta" || o.k == "distc") opCont(o, m, last);
    else if (o.k == "distd") opDistD(o, m, last);
    else if (o.k == "pick") opPick(o, m, last);
    else if (o.k == "wpick") opWPick(o, m, last);
    else if (o.k == "cums") opCumSum(o, m, last);
    else if (o.k == "multi") opMulti(o, m, last);
    else if (o.k == "samp") opSample(o, m, last);
    else if (o.k == "rcont") opRcont(o, m, last);
    else if (o.k == "ctest") opCTest(o, m, last);
    else if (o.k == "hmm") opHmm(o, m, last);
    else ctx.fail("harness", "harness:unknown-op", o.k);
  }

  // one pass over the plan after seeding; returns the history and the end offset of every op
  void pass(uint32_t seed, const Mode& m, std::vector<double>& hist, std::vector<size_t>& ends) {
    RandomTools::setSeed(seed);
    ctx.fault("rng-stream");
    h_.clear();
    for (int i = 0; i < 4; ++i) h_.push_back(RandomTools::giveRandomNumberBetweenZeroAndEntry(1.0));   // stream fingerprint
    ends.clear(); ends.push_back(h_.size());
    for (size_t i = 0; i < p.ops.size(); ++i) {
      ctx.beginStep(static_cast<long>(i), p.ops[i]);
      if (m.interleave) quiet();
      size_t before = h_.size();
      runOp(p.ops[i], m, i + 1 == p.ops.size());
      ends.push_back(h_.size());
      uint64_t hh = 0x18; for (size_t q = before; q < h_.size(); ++q) { uint64_t bits; memcpy(&bits, &h_[q], 8); hh = (hh ^ bits) * 1099511628211ULL; }
      ctx.ev("h=" + std::to_string(hh));
      if (m.first) { ctx.state(hh ^ strHash(p.ops[i].k)); ctx.ok(); } else ctx.outcome("again");
    }
    hist = h_;
  }

  static bool sameBits(double a, double b) { return memcmp(&a, &b, 8) == 0; }

  // re-seeding must reset everything a sampler's next value depends on: same seed, same first values, whatever was drawn before
  void reseedCheck() {
    uint32_t s = static_cast<uint32_t>(p.geti("libseed")) ^ 0x5eedu;
    for (size_t i = 0; i < p.ops.size(); ++i) {
      const Op& o = p.ops[i];
      Cont c;
      if (!(o.k == "unif" || o.k == "norm" || o.k == "expo" || o.k == "gamma" || o.k == "beta" || o.k == "distc")) continue;
      if (!makeCont(o, c)) continue;
      double a[3], b[3];
      RandomTools::setSeed(s); for (int q = 0; q < 3; ++q) a[q] = c.draw();
      RandomTools::setSeed(s); for (int q = 0; q < 3; ++q) b[q] = c.draw();
      for (int q = 0; q < 3; ++q) if (!sameBits(a[q], b[q])) { ctx.beginStep(static_cast<long>(i), o); fail2("invariant:reproducible", "invariant:reproducible:reseed:" + c.name, c.name + ": after setSeed(s) the first three values differ between two consecutive seedings (draw " + std::to_string(q) + ")"); }
    }
  }

  void run() {
    uint32_t seed0 = static_cast<uint32_t>(p.geti("libseed", 1));
    long nseeds = std::max(1L, std::min(16L, p.geti("nseeds", 1)));
    reseedCheck();
    std::vector<double> hA, hB; std::vector<size_t> eA, eB;
    Mode a; a.first = true;
    pass(seed0, a, hA, eA);
    ctx.custom = draws_;
    // pass B: same seed, interleaved with library calls that must not draw; the (heavy) last op is replayed on a prefix
    Mode b; b.interleave = true; b.cap = 256; b.capLastOnly = true;
    pass(seed0, b, hB, eB);
    for (size_t i = 0; i + 1 < eA.size() && i + 1 < eB.size(); ++i) {
      size_t la = eA[i + 1] - eA[i], lb = eB[i + 1] - eB[i], l = std::min(la, lb);
      bool lastOp = i + 2 == eA.size();
      const std::string kind = i < p.ops.size() ? p.ops[i].k : "?";
      if (!lastOp && la != lb) fail2("invariant:reproducible", "invariant:reproducible:" + kind, "same seed: op " + std::to_string(i) + " produced " + std::to_string(la) + " then " + std::to_string(lb) + " values");
      for (size_t q = 0; q < l; ++q) if (!sameBits(hA[eA[i] + q], hB[eB[i] + q])) fail2("invariant:reproducible", "invariant:reproducible:" + kind, "same seed, second time interleaved with non-drawing library calls: value " + std::to_string(q) + " of op " + std::to_string(i) + " (" + kind + ") differs: " + fmtd(hA[eA[i] + q]) + " vs " + fmtd(hB[eB[i] + q]));
    }
    for (int q = 0; q < 4; ++q) if (!sameBits(hA[static_cast<size_t>(q)], hB[static_cast<size_t>(q)])) fail2("invariant:reproducible", "invariant:reproducible:fingerprint", "same seed: the first uniform values differ");
    ctx.probe("replay-interleaved-identical");
    // derived seeds: structural invariants on every draw, and pairwise different streams
    std::vector<std::vector<double>> fps; fps.push_back(std::vector<double>(hA.begin(), hA.begin() + 4));
    std::vector<uint32_t> seeds; seeds.push_back(seed0);
    for (long j = 1; j < nseeds; ++j) {
      uint32_t sj = static_cast<uint32_t>(mix3(seed0, static_cast<uint64_t>(j), 0xC18) & 0xffffffffULL);
      bool dup = false; for (uint32_t s : seeds) if (s == sj) dup = true;
      if (dup) continue;
      seeds.push_back(sj);
      Mode d; d.cap = 64;
      std::vector<double> hj; std::vector<size_t> ej;
      pass(sj, d, hj, ej);
      std::vector<double> f(hj.begin(), hj.begin() + 4);
      for (size_t t = 0; t < fps.size(); ++t) if (memcmp(fps[t].data(), f.data(), 32) == 0) fail2("invariant:seeds-distinct", "invariant:seeds-distinct", "two different seeds gave the same first four uniform values");
      fps.push_back(f);
    }
    if (seeds.size() >= 16) ctx.probe("seeds-16");
  }
};

// ---------------------------------------------------------------- generator helpers
VL composition(Rng& rng, long total, long parts, int style) {
  VL v(static_cast<size_t>(parts), 0);
  if (style == 0) {                       // uniform cuts: zeros possible
    VL cuts; for (long i = 0; i + 1 < parts; ++i) cuts.push_back(rng.range(0, total));
    std::sort(cuts.begin(), cuts.end()); long prev = 0;
    for (long i = 0; i + 1 < parts; ++i) { v[static_cast<size_t>(i)] = cuts[static_cast<size_t>(i)] - prev; prev = cuts[static_cast<size_t>(i)]; }
    v[static_cast<size_t>(parts - 1)] = total - prev;
  } else if (style == 1) {                // balanced
    for (long i = 0; i < total; ++i) ++v[static_cast<size_t>(i % parts)];
    for (long i = 0; i < parts; ++i) { long a = rng.below(parts), b = rng.below(parts); long d = std::min(v[static_cast<size_t>(a)], rng.range(0, 2)); v[static_cast<size_t>(a)] -= d; v[static_cast<size_t>(b)] += d; }
  } else if (style == 2) {                // one dominant part, the others small
    long big = rng.below(parts), rest = total;
    for (long i = 0; i < parts; ++i) if (i != big) { long c = std::min(rest, rng.range(0, 3)); v[static_cast<size_t>(i)] = c; rest -= c; }
    v[static_cast<size_t>(big)] = rest;
  } else {                                // positive parts
    if (total < parts) return composition(rng, total, parts, 0);
    VL w = composition(rng, total - parts, parts, 0);
    for (long i = 0; i < parts; ++i) v[static_cast<size_t>(i)] = w[static_cast<size_t>(i)] + 1;
  }
  return v;
}

std::string weightString(Rng& rng, long n) {
  VL w; bool zeros = rng.chance(0.5);
  for (long i = 0; i < n; ++i) w.push_back((zeros && rng.chance(0.3)) ? 0 : rng.range(1, 9));
  if (n > 0 && sumOf(w) == 0) w[static_cast<size_t>(rng.below(n))] = rng.range(1, 9);
  if (n > 1 && zeros && rng.chance(0.4)) { w.back() = 0; if (sumOf(w) == 0) w[0] = 3; }      // trailing zero
  if (n > 1 && zeros && rng.chance(0.3)) { w[0] = 0; if (sumOf(w) == 0) w.back() = 2; }        // leading zero
  return joinInts(w, ',');
}

// all compositions of total into `parts` non-negative parts, in lexicographic order
void compositions(long total, long parts, VL& cur, std::vector<VL>& out) {
  if (parts == 1) { cur.push_back(total); out.push_back(cur); cur.pop_back(); return; }
  for (long a = 0; a <= total; ++a) { cur.push_back(a); compositions(total - a, parts - 1, cur, out); cur.pop_back(); }
}

// avoidance filter of the rcont2 finding (only consulted while that finding is listed as known): margins for which
// every drawn row total is at most every remaining column total in every reachable state
bool rcontOutsideKnownTrigger(const VL& rows, const VL& cols) {
  long mn = cols[0]; for (long c : cols) mn = std::min(mn, c);
  return sumOf(rows) - rows.back() <= mn;
}

class C18 : public Harness {
public:
  const char* id() const override { return "C18"; }
  HarnessInfo info() const override {
    HarnessInfo i;
    i.real = {"bpp::RandomTools (setSeed, uniform, randGaussian, randExponential, randGamma, randBeta, pickOne x5, getSample x2, pickFromCumSum, randMultinomial, pNorm/pGamma/pBeta as reference cdf)",
              "bpp::ContingencyTableGenerator::rcont2", "bpp::ContingencyTableTest (asymptotic and permutation p-value)",
              "rand()/randC() of Gamma, Gaussian, Exponential, TruncatedExponential, Beta, Uniform discrete distributions, rand() of SimpleDiscreteDistribution",
              "bpp::FullHmmTransitionMatrix / AbstractHmmTransitionMatrix::sample (path length and state range only)"};
    i.stub = {"SimAlphabet (HmmStateAlphabet with n anonymous states, no parameters)"};
    i.rule = "plans: a library seed, 1..16 seeds derived from it, 2..8 draw operations (pickers, samplers with/without replacement and weights incl. zeros, cumulative-sum picks, multinomial draws, contingency tables, independence tests) and at most one long law-conformity history (500..20000 draws of one sampler at one grid point); every plan is executed after seeding (pass A), again after re-seeding with non-drawing library calls interleaved (pass B, bitwise equal) and under the derived seeds; non-trivial = >=2 operations completed and the generator seeded at least twice; distinct = distinct fingerprint of the executed op-kind/outcome sequence";
    i.simTime = "draws from the process-wide generator (no clock in this component)";
    i.faultKinds = {"rng-stream"};
    i.probeNames = {"replay-interleaved-identical", "seeds-16", "empty-source-raised", "overlong-sample-refused", "sample-size-equals-source", "zero-weight-present",
                    "extracted-until-empty", "weighted-extraction-exhausted-positive-weights", "multinomial-empty-sample",
                    "hmm-path-sampled", "rcont-zero-margin", "rcont-5x5", "rcont-3x3-or-larger", "rcont-total-100-or-more", "ctest-permutation-pvalue",
                    "law-counts-checked:rand", "law-counts-checked:weighted", "law-counts-checked:cumsum", "law-counts-checked:multinomial", "law-counts-checked:sample",
                    "law-ks-checked:uniform", "law-ks-checked:randGaussian", "law-ks-checked:randExponential", "law-ks-checked:randGamma1", "law-ks-checked:randGamma2", "law-ks-checked:randBeta",
                    "law-ks-checked:randC:Gamma", "law-ks-checked:randC:Gaussian", "law-ks-checked:randC:Exponential", "law-ks-checked:randC:Beta", "law-ks-checked:randC:Uniform", "law-ks-checked:randC:TruncExponential"};
    i.tolerances["law-ks"] = "sqrt(N)*D < 3.6 for N in 500..20000 draws (Dvoretzky-Kiefer-Wolfowitz-Massart bound, valid for every N: a true-law sampler fails with probability <= 1.1e-11 per test; worst of 35000 tests on the unchanged tree: < 2.64); reference cdf = the library's own pNorm/pGamma/pBeta/pProb with the same parameters (their error <= 1e-8 is negligible against 3.6/sqrt(N) >= 0.025)";
    i.tolerances["law-counts"] = "per category |observed - N p| < L/3 + sqrt(L^2/9 + 2 N p (1-p) L), L = ln(2K/1e-9) (Bernstein inequality, valid for every N: failure probability <= 1e-9 per test; worst ratio of 30000 tests on the unchanged tree: < 0.7); zero-weight categories: exactly 0";
    i.assumptions = {"law conformity is asserted for the long history of pass A only (N >= 500); short histories and derived seeds get the structural invariants only",
                     "requesting 0 elements from an empty source: either outcome accepted (the statement does not decide whether this is an 'emptiness' case)",
                     "weight vectors have at least one positive entry; weighted sampling without replacement is held to 'no zero-weight element' only while positive-weight elements cover the request; after they are exhausted only distinctness is asserted",
                     "weighted sampling without replacement: only the first position is compared with the weights (later positions have no stated law)",
                     "contingency tables: margins, shape and cell range only; no law is asserted for the cell values; p-values: range only",
                     "ContingencyTableTest on a table with an all-zero row or column may raise (accepted), on positive margins it must not",
                     "the bit pattern of the stream across library versions is not asserted, only equality of two runs of this build",
                     "discretised distributions whose probabilities do not sum to 1 within 1e-6 are skipped (subject of C09)",
                     "pickFromCumSum on an empty vector (documented to raise, reads out of bounds instead) is outside the quantifier (weight vectors of length 1..12) and is not generated",
                     "AbstractHmmTransitionMatrix::sample: path length, state range and reproducibility only; the law of the sampled path (initial state from the equilibrium frequencies) belongs to C13 and is not asserted here"};
    return i;
  }
  long defaultRuns(Tier t) const override { return t == QUICK ? 40000 : 400000; }
  bool nontrivial(const Ctx& c) const override { return c.okSteps >= 2 && c.faultsFired >= 2; }

  // ---- systematic prefix: every pair of margin vectors with 2..3 rows/columns and total <= 12 (zeros included)
  struct EnumIndex { std::vector<std::pair<long, VL>> rowsOf; };   // (total, rows)
  static const EnumIndex& enumIndex() {
    static EnumIndex ix;
    if (ix.rowsOf.empty()) for (long N = 0; N <= 12; ++N) for (long r = 2; r <= 3; ++r) { std::vector<VL> out; VL cur; compositions(N, r, cur, out); for (auto& v : out) ix.rowsOf.push_back({N, v}); }
    return ix;
  }
  long enumCount(Tier) const override { return static_cast<long>(enumIndex().rowsOf.size()); }
  Plan enumPlan(long idx, Tier) const override {
    Plan p; p.cfg["enumerated"] = 1; p.cfg["libseed"] = 1000 + idx; p.cfg["nseeds"] = 1;
    const auto& e = enumIndex().rowsOf[static_cast<size_t>(idx)];
    bool avoid = isKnownFinding("C18", SIG_RCONT);
    for (long c = 2; c <= 3; ++c) {
      std::vector<VL> out; VL cur; compositions(e.first, c, cur, out);
      for (auto& cols : out) {
        if (avoid && !rcontOutsideKnownTrigger(e.second, cols)) continue;
        Op o("rcont"); o.a = 3; o.s = joinInts(e.second, ',') + "|" + joinInts(cols, ','); p.ops.push_back(o);
      }
    }
    return p;
  }

  Plan generate(Rng& rng, Tier) const override {
    Plan p;
    p.cfg["libseed"] = static_cast<long>(rng.next() & 0xffffffffULL);
    p.cfg["nseeds"] = rng.pick(std::vector<long>{1, 1, 2, 3, 4, 16});
    // avoidance filters: active only for findings listed as known, and even then 1 run in 50 generates the trigger
    auto avoid = [&](const char* sig) { return isKnownFinding("C18", sig) && !rng.chance(0.02); };
    // a sanitizer abort costs a worker process, so those two triggers are generated in 1 run of 4000 only
    bool avRcont = isKnownFinding("C18", SIG_RCONT) && !rng.chance(0.00025), avCtest = isKnownFinding("C18", SIG_CTEST) && !rng.chance(0.00025);
    static const char* K[] = {"pick", "wpick", "cums", "multi", "samp", "rcont", "ctest", "unif", "norm", "gamma", "distd", "hmm"};
    std::vector<double> w = {1.5, 2, 1.5, 1.5, 4, 4, 1, 0.3, 0.3, 0.3, 0.6, 0.4};
    for (auto& x : w) if (rng.chance(0.3)) x *= rng.chance(0.5) ? 0 : 3;          // swarm
    double tot = 0; for (double x : w) tot += x; if (tot <= 0) w[4] = 1;
    long n = rng.range(2, 8);
    bool lawRun = rng.chance(0.6);
    for (long i = 0; i < n; ++i) {
      Op o(K[rng.weighted(w)]);
      if (o.k == "pick") { o.a = rng.range(1, 40); o.b = rng.chance(0.1) ? 0 : rng.range(1, 12); o.c = rng.below(3); }
      else if (o.k == "wpick") { long len = rng.chance(0.08) ? 0 : rng.range(1, 12); o.s = weightString(rng, len); o.a = rng.range(1, 60); o.c = rng.below(3); }
      else if (o.k == "cums") { o.s = weightString(rng, rng.range(1, 12)); o.a = rng.range(1, 60); }
      else if (o.k == "multi") { o.s = weightString(rng, rng.range(1, 12)); o.a = rng.chance(0.1) ? 0 : rng.range(1, 40); o.b = rng.range(1, 4); o.x = rng.pick(std::vector<double>{1, 1, 0.5, 0.01, 3, 10}); }
      else if (o.k == "samp") {
        o.b = rng.chance(0.1) ? 0 : rng.range(1, 12);
        switch (rng.below(5)) { case 0: o.c = o.b; break; case 1: o.c = std::min(14L, o.b + rng.range(1, 3)); break; case 2: o.c = 0; break; default: o.c = rng.range(0, 14); }
        o.d = rng.below(4); o.a = rng.range(1, 12);
        if (o.d & 2) o.s = weightString(rng, o.b);
      }
      else if (o.k == "rcont") {
        long nr = rng.range(2, 5), nc = rng.range(2, 5);
        long total = rng.chance(0.4) ? rng.range(0, 12) : (rng.chance(0.6) ? rng.range(13, 60) : rng.range(61, 200));
        VL rows, cols;
        for (int tries = 0; tries < 50; ++tries) {
          rows = composition(rng, total, nr, static_cast<int>(rng.below(4))); cols = composition(rng, total, nc, static_cast<int>(rng.below(4)));
          if (!avRcont || rcontOutsideKnownTrigger(rows, cols)) break;
          if (tries >= 10) { std::sort(rows.begin(), rows.end()); }      // the largest row last makes the filter easier to satisfy
          if (tries == 49) { rows.assign(static_cast<size_t>(nr), 0); rows.back() = total; }
        }
        o.s = joinInts(rows, ',') + "|" + joinInts(cols, ','); o.a = rng.range(1, 12);
      }
      else if (o.k == "ctest") {
        long nr = rng.range(2, 5), nc = rng.range(2, 5); long mx = rng.pick(std::vector<long>{3, 10, 40});
        std::string s;
        for (long r = 0; r < nr; ++r) { VL row; for (long c = 0; c < nc; ++c) row.push_back(rng.chance(0.15) ? 0 : rng.range(1, mx)); if (r) s += "|"; s += joinInts(row, ','); }
        o.s = s; o.a = avCtest ? 0 : rng.range(1, 60);
      }
      else if (o.k == "unif") { o.a = rng.range(1, 100); o.x = GRID[rng.below(NGRID)]; }
      else if (o.k == "norm") { o.a = rng.range(1, 100); o.x = rng.real(-20, 20); o.y = GRID[rng.below(NGRID)]; }
      else if (o.k == "gamma") { o.a = rng.range(1, 100); o.b = 0; o.x = GRID[rng.below(NGRID)]; o.y = 1; }
      else if (o.k == "distd") { o.a = rng.range(1, 100); lawParams(rng, o, false, avoid); }
      else if (o.k == "hmm") {
        long ns = rng.range(2, 5); std::string st;
        for (long r = 0; r < ns; ++r) { VL row; for (long c = 0; c < ns; ++c) row.push_back(rng.range(1, 9)); if (r) st += "|"; st += joinInts(row, ','); }
        o.s = st; o.a = rng.chance(0.1) ? 0 : rng.range(1, 40); o.b = rng.range(1, 3);
      }
      p.ops.push_back(o);
    }
    if (lawRun) {
      // the long history: one sampler, one grid point
      static const char* LK[] = {"unif", "norm", "expo", "gamma", "beta", "distc", "distd", "pick", "wpick", "cums", "multi", "samp"};
      std::vector<double> lw = {0.6, 1.4, 1.4, 2, 0.8, 4, 2, 0.5, 1, 0.8, 1, 2};
      Op o(LK[rng.weighted(lw)]);
      long N = rng.pick(std::vector<long>{1000, 4000, 4000, 4000, 4000, 20000});
      o.a = N;
      if (o.k == "unif") o.x = GRID[rng.below(NGRID)];
      else if (o.k == "norm") { o.x = rng.chance(0.3) ? 0 : rng.real(-20, 20); o.y = GRID[rng.below(NGRID)]; }
      else if (o.k == "expo") { o.x = avoid(SIG_EXPO) ? 1 : GRID[rng.below(NGRID)]; }
      else if (o.k == "gamma") { o.b = rng.below(2); o.x = GRID[rng.below(NGRID)]; o.y = (o.b == 1 && !avoid(SIG_GAMMA2)) ? GRID[rng.below(NGRID)] : 1; }
      else if (o.k == "beta") { o.a = std::min(N, 2000L); o.x = GRID[rng.below(NGRID)]; o.y = GRID[rng.below(NGRID)]; }
      else if (o.k == "distc") { lawParams(rng, o, true, avoid); if (o.b % 6 == 3) o.a = std::min(N, 2000L); }
      else if (o.k == "distd") lawParams(rng, o, false, avoid);
      else if (o.k == "pick") { o.b = rng.range(1, 12); o.c = rng.below(3); if (o.c == 2) o.a = std::min(N, 4000L) * 2; }
      else if (o.k == "wpick") { o.s = weightString(rng, rng.range(1, 12)); o.c = rng.below(3); if (o.c == 2) o.a = std::min(N, 4000L) * 2; }
      else if (o.k == "cums") o.s = weightString(rng, rng.range(1, 12));
      else if (o.k == "multi") { o.s = weightString(rng, rng.range(1, 12)); o.a = rng.range(5, 50); o.b = N / o.a; o.x = rng.pick(std::vector<double>{1, 0.5, 0.01, 3, 10}); }
      else if (o.k == "samp") { o.b = rng.range(1, 12); o.c = rng.chance(0.2) ? o.b : rng.range(1, 14); o.d = rng.below(4); if (!(o.d & 1) && o.c > o.b) o.c = rng.range(1, o.b); if (o.d & 2) o.s = weightString(rng, o.b); o.a = std::min(N, 4000L) / 2; }
      p.ops.push_back(o);
    }
    return p;
  }

  template <class A> static void lawParams(Rng& rng, Op& o, bool continuous, A avoid) {
    long fam = continuous ? rng.below(6) : rng.below(7);
    o.b = fam; o.c = rng.below(8);
    double g1 = GRID[rng.below(NGRID)], g2 = GRID[rng.below(NGRID)];
    switch (fam) {
      case 0: o.x = g1; o.y = (continuous && avoid(SIG_RC_GAMMA)) ? 1 : g2; break;                       // Gamma(alpha, beta)
      case 1: o.x = rng.chance(0.3) ? 0 : rng.real(-20, 20); o.y = (continuous && avoid(SIG_RC_GAUSS)) ? 1 : g2; break;   // Gaussian(mu, sigma)
      case 2: o.x = (continuous && avoid(SIG_RC_EXPO)) ? 1 : g1; o.y = 0; break;                          // Exponential(lambda)
      case 3: o.x = g1; o.y = g2; break;                                                                  // Beta
      case 4: o.x = g1; o.y = g2; break;                                                                  // Uniform(-x, y)
      case 5: o.x = (continuous && avoid(SIG_RC_TEXPO)) ? 1 : g1; o.y = rng.pick(std::vector<double>{0.5, 1, 2, 5, 10}); break;   // TruncExponential(lambda, tp)
      default: o.s = weightString(rng, rng.range(1, 12));
    }
  }

  void execute(const Plan& p, Ctx& ctx) const override {
    Exec e(p, ctx);
    try { e.run(); }
    catch (SimViolation&) { throw; }
    catch (bpp::Exception& ex) { ctx.fail("foreign-exception:bpp-unexpected", "foreign-exception:bpp-unexpected", ex.what()); }
    catch (std::exception& ex) { ctx.fail("foreign-exception:std", "foreign-exception:std", ex.what()); }
  }
};

Registrar reg(new C18());

}  // namespace
