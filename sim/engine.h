// Deterministic-simulation engine for the bpp-core property harnesses.
// One integer (the run seed) decides the whole plan; a plan is config + ops and
// executing it draws nothing from any PRNG, so a replay file is the plan itself.
#ifndef DSIM_ENGINE_H
#define DSIM_ENGINE_H

#include <cstdint>
#include <cstdio>
#include <cstring>
#include <cmath>
#include <map>
#include <set>
#include <string>
#include <vector>
#include <sstream>
#include <functional>

namespace dsim {

// ---------------------------------------------------------------- PRNG
inline uint64_t splitmix64(uint64_t& x) {
  uint64_t z = (x += 0x9E3779B97F4A7C15ULL);
  z = (z ^ (z >> 30)) * 0xBF58476D1CE4E5B9ULL;
  z = (z ^ (z >> 27)) * 0x94D049BB133111EBULL;
  return z ^ (z >> 31);
}
inline uint64_t mix3(uint64_t a, uint64_t b, uint64_t c) {
  uint64_t s = a * 0x9E3779B97F4A7C15ULL + 0x1234567;
  uint64_t r = splitmix64(s);
  s ^= b * 0xD1B54A32D192ED03ULL; r ^= splitmix64(s);
  s ^= c * 0x8CB92BA72F3D8DD7ULL; r ^= splitmix64(s);
  return r;
}
inline uint64_t strHash(const std::string& s) {
  uint64_t h = 1469598103934665603ULL;
  for (unsigned char c : s) { h ^= c; h *= 1099511628211ULL; }
  return h;
}

class Rng {
  uint64_t s_[4];
  static uint64_t rotl(uint64_t x, int k) { return (x << k) | (x >> (64 - k)); }
public:
  explicit Rng(uint64_t seed) { uint64_t x = seed; for (auto& v : s_) v = splitmix64(x); }
  uint64_t next() {
    uint64_t r = rotl(s_[1] * 5, 7) * 9, t = s_[1] << 17;
    s_[2] ^= s_[0]; s_[3] ^= s_[1]; s_[1] ^= s_[2]; s_[0] ^= s_[3]; s_[2] ^= t; s_[3] = rotl(s_[3], 45);
    return r;
  }
  // uniform in [0,n)
  long below(long n) { return n <= 1 ? 0 : static_cast<long>(next() % static_cast<uint64_t>(n)); }
  long range(long lo, long hi) { return lo + below(hi - lo + 1); }  // inclusive
  double unit() { return static_cast<double>(next() >> 11) * (1.0 / 9007199254740992.0); }
  double real(double lo, double hi) { return lo + (hi - lo) * unit(); }
  bool chance(double p) { return unit() < p; }
  double logUniform(double lo, double hi) { return std::exp(real(std::log(lo), std::log(hi))); }
  template <class T> const T& pick(const std::vector<T>& v) { return v[static_cast<size_t>(below(static_cast<long>(v.size())))]; }
  // weighted index
  size_t weighted(const std::vector<double>& w) {
    double t = 0; for (double x : w) t += x;
    double u = unit() * t; size_t i = 0;
    for (; i + 1 < w.size(); ++i) { if (u < w[i]) break; u -= w[i]; }
    return i;
  }
};

// ---------------------------------------------------------------- plans
struct Op {
  std::string k;           // kind
  long a = 0, b = 0, c = 0, d = 0;
  double x = 0, y = 0;
  std::string s;           // optional string payload (no whitespace/newlines: hex-encoded on disk)
  Op() {}
  Op(const std::string& kk, long aa = 0, long bb = 0, long cc = 0, long dd = 0, double xx = 0, double yy = 0)
    : k(kk), a(aa), b(bb), c(cc), d(dd), x(xx), y(yy), s() {}
};

struct Plan {
  std::string prop;
  uint64_t seed = 0;       // informational: the seed that generated it (0 for enumerated/hand-written)
  long index = -1;
  std::map<std::string, long> cfg;
  std::map<std::string, double> cfgd;
  std::vector<Op> ops;
  long geti(const std::string& k, long dflt = 0) const { auto it = cfg.find(k); return it == cfg.end() ? dflt : it->second; }
  double getd(const std::string& k, double dflt = 0) const { auto it = cfgd.find(k); return it == cfgd.end() ? dflt : it->second; }
};

std::string hexfloat(double v);
double parseHexfloat(const std::string& s);
std::string planToText(const Plan& p);
bool planFromText(const std::string& text, Plan& p, std::map<std::string, std::string>& expect);
std::string opToText(const Op& o);

// ---------------------------------------------------------------- run context
struct SimViolation {          // deliberately NOT derived from std::exception
  std::string cls, sig, detail;
  int step;
};

struct SharedProgress {        // lives in MAP_SHARED memory when a run is isolated in a child
  volatile long step;
  volatile uint64_t hash;
  volatile long okSteps;
  char tag[48];                // hazard named by the harness for the current step (see Ctx::hazard)
};

class Ctx {
public:
  uint64_t hash = 0xcbf29ce484222325ULL;   // folded event log
  uint64_t fp = 0x84222325cbf29ce4ULL;     // fingerprint of op/fault/outcome-class sequence
  long step = -1;
  long okSteps = 0;            // successful state-changing steps
  long rejSteps = 0;           // steps that raised as the model expected
  long faultsFired = 0;
  long custom = 0;             // harness-specific non-triviality measure
  std::map<std::string, long> faults;   // kind -> fired
  std::map<std::string, long> probes;   // name -> hits
  std::vector<uint64_t>* stateSink = nullptr;
  bool trace = false;
  std::vector<std::string> traceLines;
  SharedProgress* shared = nullptr;

  void beginStep(long i, const Op& op);
  void ev(const std::string& what);                 // fold into the event log (and the trace)
  void evd(const char* tag, double v);              // hexfloat into the log
  void evi(const char* tag, long v);
  void outcome(const char* cls);                    // outcome class of the current step: folded into fp + hash
  void ok() { ++okSteps; if (shared) shared->okSteps = okSteps; outcome("ok"); }
  void rejected() { ++rejSteps; outcome("rej"); }
  void fault(const std::string& kind) { ++faults[kind]; ++faultsFired; }
  void probe(const std::string& name) { ++probes[name]; }
  // names a property of the INPUT of the call about to be made (e.g. "extreme-number"): when that call does not return, or dies in
  // a sanitizer, the signature of the outcome carries the name, so that a known finding can be listed for that trigger only
  void hazard(const char* name);
  std::string hazardTag;
  void state(uint64_t h) { if (stateSink) stateSink->push_back(h); }
  [[noreturn]] void fail(const std::string& cls, const std::string& sig, const std::string& detail);
  // For harnesses that can re-synchronise their model: if `sig` is a listed known finding, count the hit and return true
  // (the run continues); otherwise raise the violation.
  bool knownOrFail(const std::string& prop, const std::string& cls, const std::string& sig, const std::string& detail);
  std::map<std::string, long> knownHits;
  // convenience: fail when cond is false
  void check(bool cond, const std::string& cls, const std::string& sig, const std::string& detail) { if (!cond) fail(cls, sig, detail); }
};

// ---------------------------------------------------------------- harness interface
enum Tier { QUICK = 0, THOROUGH = 1 };

struct HarnessInfo {
  std::vector<std::string> real, stub;     // components running real code / harness stubs
  std::string rule;                        // non-triviality + distinctness rule (for the evidence)
  std::string simTime;                     // what "simulated time" means here
  std::map<std::string, std::string> tolerances;
  std::vector<std::string> faultKinds;     // kinds this harness can inject (so zero counts are visible)
  std::vector<std::string> probeNames;     // probes that must be hit in a quick run
  std::vector<std::string> assumptions;
  bool ubsanGates = false;
  int cpuLimitFactor = 1;                  // multiplies the per-run CPU-time limit (harnesses whose legal runs are bounded by their own evaluation caps but long)
};

class Harness {
public:
  virtual ~Harness() {}
  virtual const char* id() const = 0;
  virtual HarnessInfo info() const = 0;
  virtual long defaultRuns(Tier t) const = 0;
  virtual long enumCount(Tier) const { return 0; }       // systematic prefix
  virtual Plan enumPlan(long, Tier) const { return Plan(); }
  virtual Plan generate(Rng& rng, Tier t) const = 0;
  virtual void execute(const Plan& p, Ctx& ctx) const = 0;   // throws SimViolation
  // non-trivial by the harness's rule?  default: >=3 ok steps and >=1 fault fired
  virtual bool nontrivial(const Ctx& c) const { return c.okSteps >= 3 && c.faultsFired >= 1; }
  // per-op simplification candidates for the shrinker (smaller operands etc.)
  virtual std::vector<Op> simplify(const Op& o) const;
};

void registerHarness(Harness* h);
Harness* findHarness(const std::string& id);
std::vector<Harness*>& allHarnesses();
struct Registrar { explicit Registrar(Harness* h) { registerHarness(h); } };

// known findings (signatures with status "known"), loaded by main from known_findings.json
bool isKnownFinding(const std::string& prop, const std::string& sig);

// simulated wall clock, read by the library through the wrapped time()
struct SimClock {
  long now = 1000000000L;      // seconds
  int mode = 0;                // 0 tick(+step) 1 frozen 2 jump forward 3 step backwards
  long step = 1;
  long calls = 0;
  void reset(int m = 0, long st = 1) { now = 1000000000L; mode = m; step = st; calls = 0; }
  long read() {
    ++calls;
    switch (mode) {
      case 1: break;
      case 2: now += (calls % 3 == 0) ? 7200 : step; break;
      case 3: now -= step; break;
      default: now += step;
    }
    return now;
  }
};
extern SimClock g_clock;

// H1: audit of every Parameter the library creates or updates (guarded hook in /repo, BPP_CORE_VERIF)
struct ParamAudit {
  long calls = 0, offences = 0;
  std::string first;       // "<where> <parameter name>" of the first offence (no addresses)
  void reset() { calls = 0; offences = 0; first.clear(); }
};
extern ParamAudit g_audit;
void installParamAudit();

// reset of process-wide library statics + RNG seed; called by the runner before every run
void resetWorld(uint64_t seed);

std::string fmtd(double v);   // short decimal for detail messages (never hashed)

}  // namespace dsim
#endif
