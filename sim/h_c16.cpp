// C16 — parsers survive damaged stored input (scope: write -> simulated storage -> read paths).
// World (real code): the library writers produce bytes into the simulated store, storage faults damage them,
// the library readers consume them (see simstore.h / simstore_exec.h).  Oracle: every read terminates and either
// returns or raises bpp::Exception; anything else (foreign exception type, sanitizer report, signal, hang) is a violation.
// No value comparison here (that is C17).
#include "simstore_exec.h"

using namespace dsim;
using namespace simstore;

namespace {

const char* FAULTS[] = {"f.torn", "f.lost", "f.short", "f.flip", "f.dup", "f.drop", "f.crlf"};
const char* ALLREADERS[] = {"r.table", "r.lines", "r.optfile", "r.optmap", "r.parseopts", "r.dist", "r.pfmt", "r.plist", "r.interval", "r.proc", "r.keyvals", "r.nested", "r.tok", "r.formula"};

long chunkPick(Rng& rng, double pChunk) { static const std::vector<long> C = {1, 2, 3, 5, 7, 16, 64}; return rng.chance(pChunk) ? rng.pick(C) : 0; }

// Exact triggers of defects that were found with this harness and have since been repaired (fixes/01..11) are generated at
// full rate by the ordinary generator; in addition about 2 % of the runs ("risky") append one deliberately constructed
// trigger so that each of those repairs stays covered (see the revert-of-fix mutants).  The one trigger that is still a
// known finding (a distribution parameter damaged into an astronomically large number: non-termination) is kept out of
// the generated plans by construction and lives as a replay file under known/.
struct Swarm { std::vector<double> kindW, faultW; double pChunk, pCross, pNatural; bool risky; };

// ---- text-level recognisers of the exact triggers of confirmed defects (generator side only)
bool trailingContinuation(const std::string& s) {          // last line has no newline and ends, after comment/blank stripping, with a backslash
  if (s.empty() || s[s.size() - 1] == '\n') return false;
  size_t b = s.rfind('\n'); std::string last = b == std::string::npos ? s : s.substr(b + 1);
  size_t c = last.find('#'); if (c != std::string::npos) last.resize(c);
  c = last.find("//"); if (c != std::string::npos) last.resize(c);
  while (!last.empty() && std::isspace(static_cast<unsigned char>(last[last.size() - 1]))) last.resize(last.size() - 1);
  return !last.empty() && last[last.size() - 1] == '\\';
}
bool badClassCount(const std::string& s) {                 // an n= argument that is not a small positive integer
  for (size_t p = s.find("n="); p != std::string::npos; p = s.find("n=", p + 1)) {
    if (p > 0 && (std::isalnum(static_cast<unsigned char>(s[p - 1])) || s[p - 1] == '_' || s[p - 1] == '.')) continue;
    size_t e = s.find_first_of(",)\n", p + 2); std::string v = s.substr(p + 2, e == std::string::npos ? std::string::npos : e - p - 2);
    if (v.empty() || v.size() > 2 || v.find_first_not_of("0123456789") != std::string::npos || atol(v.c_str()) == 0 || atol(v.c_str()) > 64) return true;
  }
  return false;
}
// numeric argument values that the number grammar accepts but that are astronomically large (a digit damaged into an
// exponent sign): such a parameter value reaches the distribution numerics unvalidated and the quantile search does not
// terminate (known finding, kept: hang:r.dist:out-of-range-number).  Ordinary runs do not create NEW ones.
long extremeNumbers(const std::string& s) {
  long n = 0;
  for (size_t p = s.find('='); p != std::string::npos; p = s.find('=', p + 1)) {
    size_t e = s.find_first_of(",)\n", p + 1); std::string v = s.substr(p + 1, e == std::string::npos ? std::string::npos : e - p - 1);
    if (v.empty() || v.find_first_not_of("0123456789.e+-") != std::string::npos) continue;
    char* end = nullptr; double x = strtod(v.c_str(), &end);
    if (!(std::abs(x) < 1e6)) ++n;
    else if (x <= 0 && s.find("TruncExponential") != std::string::npos) ++n;     // lambda = 0 (negative values are clamped to 0): same known non-termination
  }
  return n;
}
// a class count in the thousands and beyond: the verbose reader lists the classes with getCategory(i) / getProbability(i), each a walk
// through a std::map, so it is quadratic in the class count (it terminates: about 100 CPU-seconds under ASan at 200 000 classes) and
// the CPU-time hang oracle would misreport it.  Ordinary runs do not create NEW ones (counts up to 4096 are explored).
long largeClassCounts(const std::string& s) {
  long n = 0;
  for (size_t p = s.find("n="); p != std::string::npos; p = s.find("n=", p + 1)) {
    if (p > 0 && (std::isalnum(static_cast<unsigned char>(s[p - 1])) || s[p - 1] == '_' || s[p - 1] == '.')) continue;
    size_t e = s.find_first_of(",)\n", p + 2); std::string v = s.substr(p + 2, e == std::string::npos ? std::string::npos : e - p - 2);
    if (!v.empty() && v.find_first_not_of("0123456789") == std::string::npos && (v.size() > 9 || atol(v.c_str()) > 4096)) ++n;
  }
  return n;
}
long riskScore(const Doc& d) {
  long n = 0;
  for (auto& f : d.stored) if (d.kind == K_DIST) n += largeClassCounts(f);
  for (auto& f : d.stored) if (d.kind == K_DIST) n += extremeNumbers(f);
  // vector / sequence descriptions of an option file: a NEW number that would make a sequence of millions of elements is not created either
  if (d.kind == K_OPT) for (auto& f : d.stored) {
    size_t b = 0;
    while (b < f.size()) {
      size_t e = f.find('\n', b); if (e == std::string::npos) e = f.size();
      std::string line = f.substr(b, e - b);
      if ((line.find("grid.") != std::string::npos || line.find("vec") != std::string::npos || line.find("seq") != std::string::npos) && Exec::seqHazard(line)) ++n;
      b = e + 1;
    }
  }
  return n;
}

void genReads(Rng& rng, const Swarm& sw, Plan& p, int kind, long docIdx, bool numcalc = false) {
  long nreads = rng.range(1, 3);
  for (long q = 0; q < nreads; ++q) {
    std::string rk; long opts = rng.below(1 << 12);
    if (rng.chance(sw.pCross)) { rk = ALLREADERS[rng.below(14)]; opts |= CROSS; }
    else { std::vector<std::string> nat = naturalReaders(kind); rk = rng.pick(nat); if (rng.chance(sw.pNatural)) opts |= NATURAL; }
    Op r(rk, docIdx, opts, chunkPick(rng, sw.pChunk), rng.below(1 << 16));
    p.ops.push_back(r);
    if (rk == "r.table" && rng.chance(0.3)) p.ops.push_back(Op("r.trowname", 0, rng.below(8), rng.below(2)));
    if (rk == "r.table") { long ne = rng.below(3); for (long e = 0; e < ne; ++e) p.ops.push_back(Op("r.tedit", 0, rng.below(8), rng.below(8), rng.below(18 * 18 * 18))); }
    if (rk == "r.optfile" || rk == "r.optmap" || rk == "r.parseopts") {
      if (rk != "r.parseopts" && rng.chance(0.7)) p.ops.push_back(Op("r.resolve", 0, rng.below(12)));
      if (rng.chance(0.7)) p.ops.push_back(Op("r.query", 0, rng.below(64), 0, rng.below(14)));
      if (numcalc ? rng.chance(0.9) : rng.chance(0.05)) p.ops.push_back(Op("r.numcalc", 0, rng.below(16)));
    }
    if (rng.chance(0.1)) p.ops.push_back(Op(rng.chance(0.5) ? "r.lines" : "r.tok", docIdx, rng.below(64), chunkPick(rng, sw.pChunk), rng.below(1 << 10)));
    if (rng.chance(0.12)) p.ops.push_back(Op("r.text", docIdx, rng.below(1 << 16), chunkPick(rng, sw.pChunk), rng.below(1 << 10)));
  }
}

// Work-around for an engine limitation: libubsan carries its own copy of the sanitizer runtime, so the death callback the
// runner registers (through libasan's copy) is not run when a gating UBSan report halts a worker, and the driver then
// cannot tell which run died.  libubsan calls this weak hook before it halts; inside a worker it hands the death over to
// libasan (abort -> handled signal -> Die -> the runner's callback).  The forked single-run child is left alone, so the
// report is still classified as the UBSan report it is.
long g_c16Index = -1;
bool g_c16Halting = false;

class C16 : public Harness {
public:
  const char* id() const override { return "C16"; }
  HarnessInfo info() const override {
    HarnessInfo i;
    i.real = {"writers: DataTable::write (ostream and OutputStream overloads)", "BppODiscreteDistributionFormat::writeDiscreteDistribution", "BppOParametrizableFormat::write", "ParameterList::printParameters", "IntervalConstraint::getDescription",
              "readers: DataTable::read + editing calls", "FileTools::getNextLine / putStreamIntoVectorOfStrings / getFileName / getExtension / getParent (on paths read from the option map)", "AttributesTools::getAttributesMapFromFile (real scratch files) / getAttributesMap / resolveVariables / parseOptions (include chains, cycles, absent file)",
              "ApplicationTools::get*Parameter / getVectorParameter (both) / getVectorOfVectorsParameter / getMatrixParameter / getAFilePath / matchingParameters", "BppODiscreteDistributionFormat::readDiscreteDistribution", "IntervalConstraint::readDescription",
              "KeyvalTools::parseProcedure / multipleKeyvals / singleKeyval / changeKeyvals", "NumCalcApplicationTools::getVector / seqFromString / getParameterGrid (on the option map just read)", "NestedStringTokenizer", "StringTokenizer", "ComputationTree", "TextTools (through the readers, and directly on stored lines: white space / case / block removal / fixed width / split / search / number recognition and conversion)"};
    i.stub = {"SimOutBuf (store written bytes)", "SimInBuf (serve stored bytes in 1..n byte chunks)", "harness writer for option files, include chains, key=value procedures and formulas (documented syntax; no library writer exists)", "scratch directory out/tmp/sst-<pid>-<n>/ for the file-based readers", "SimParams (AbstractParametrizable exposing addParameter_)"};
    i.rule = "plans: 1-4 transactions of write -> 0-2 storage faults (explicit kind/offset/byte operands) -> 1-3 reads through the natural or a foreign reader with randomised reader options and read chunking, plus follow-up calls on the object just read; enumerated prefix: every cut point of 27 small documents; non-trivial = >=3 completed steps and >=1 fault actually fired; distinct = distinct fingerprint of the executed op-kind/outcome sequence";
    i.simTime = "steps (no clock in these components)";
    i.faultKinds = {"storage-torn", "storage-lost", "storage-short", "storage-flip", "dup-line", "drop-line", "crlf", "read-chunking"};
    i.probeNames = {"reach:DataTable::read", "reach:DataTable::edit", "reach:FileTools::getNextLine", "reach:FileTools::putStreamIntoVectorOfStrings",
                    "reach:AttributesTools::getAttributesMapFromFile", "reach:AttributesTools::getAttributesMap", "reach:AttributesTools::resolveVariables", "reach:AttributesTools::parseOptions",
                    "reach:ApplicationTools::getParameter", "reach:ApplicationTools::getVectorParameter", "reach:ApplicationTools::matchingParameters",
                    "reach:BppODiscreteDistributionFormat::readDiscreteDistribution", "reach:IntervalConstraint::readDescription", "reach:KeyvalTools::parseProcedure", "reach:KeyvalTools::multipleKeyvals",
                    "reach:KeyvalTools::singleKeyval", "reach:ParameterList::getMatchingParameterNames", "reach:TextTools::removeSubstrings", "reach:TextTools::removeSubstrings(exceptions)", "reach:TextTools::resize", "reach:TextTools::split", "reach:TextTools::search", "reach:TextTools::toDouble", "reach:TextTools::toInt", "raised:TextTools::removeSubstrings", "raised:TextTools::toDouble", "reach:FileTools::getFileName", "reach:FileTools::getExtension", "reach:FileTools::getParent", "reach:NumCalcApplicationTools::getVector", "reach:NumCalcApplicationTools::seqFromString", "reach:NumCalcApplicationTools::getParameterGrid", "raised:NumCalcApplicationTools::getVector", "raised:NumCalcApplicationTools::seqFromString", "raised:NumCalcApplicationTools::getParameterGrid", "reach:KeyvalTools::changeKeyvals", "reach:NestedStringTokenizer", "reach:StringTokenizer", "reach:StringTokenizer::unparseRemainingTokens", "reach:ComputationTree",
                    "raised:DataTable::read", "raised:DataTable::edit", "raised:AttributesTools::resolveVariables", "raised:AttributesTools::parseOptions", "raised:ApplicationTools::getParameter",
                    "raised:BppODiscreteDistributionFormat::readDiscreteDistribution", "raised:IntervalConstraint::readDescription", "raised:KeyvalTools::parseProcedure", "raised:KeyvalTools::multipleKeyvals",
                    "raised:NestedStringTokenizer", "raised:StringTokenizer", "raised:ComputationTree",
                    "written:table", "written:dist", "written:pfmt", "written:plist", "written:interval", "written:opt", "written:chain", "written:keyval", "written:formula"};
    i.assumptions = {"decides C16 for damaged versions of well-formed stored data reaching the reader surfaces, not for arbitrary 4 KiB byte strings; entry points without a storage path are reached only through the readers (hit counts = probes reach:*)",
                     "no value is compared (C17 does that); a read that raises bpp::Exception or any subclass is an allowed outcome",
                     "separator / delimiter / bracket string options are never empty (an empty delimiter is not a character option of a stored format)",
                     "unparseRemainingTokens is not called on NestedStringTokenizer (the class records no separators; independent of the input)",
                     "table editing calls use index operands up to one past the end and sizes up to one off; tables whose counters have wrapped after an earlier (allowed) edit are left alone",
                     "a NEW numeric distribution argument of magnitude >= 1e6, or a NEW zero/negative argument of a TruncExponential, is never created by the generated faults (known finding hang:r.dist:out-of-range-number: the discretisation does not terminate for such parameter values; each hang costs the driver the CPU limit per execution); kept as known/C16-hang-dist-overflowing-exponent.replay and known/C16-hang-truncexp-lambda-zero.replay",
                     "a NEW class count above 4096 is never created by the generated faults: the verbose distribution reader is quadratic in the class count (terminates, but beyond the CPU-time limit of the hang oracle under ASan); counts up to 4096 are explored",
                     "allocation failure is not injected; ASan max_allocation_size_mb=256 turns unbounded allocation into a report"};
    i.ubsanGates = true;
    return i;
  }
  long defaultRuns(Tier t) const override { return t == QUICK ? 24000 : 1500000; }

  // ---- enumerated prefix: every cut point (0..511) of 27 small documents, 32 cut points per plan
  static const long NDOCS = 27, BLOCKS = 16, PER = 32;
  long enumCount(Tier) const override { return NDOCS * BLOCKS; }
  static Op baseDoc(long j) {
    int kind = static_cast<int>(j % NKIND); Rng r(static_cast<uint64_t>(1000 + j));
    long shape = r.below(1 << 14);
    if (kind == K_TABLE) shape = (2 + j / NKIND) + 7 * (2 + j / NKIND) + 49 * ((j / NKIND == 0 ? 3 : (j / NKIND == 1 ? 1 : 0)) + 32 * (j / NKIND));
    if (kind == K_DIST) shape = (j / NKIND == 0 ? 4 : (j / NKIND == 1 ? 7 : 9)) + 10 * 2 + 160 * 15;
    if (kind == K_OPT) shape = 5 + 9 * (1 | 2 | 4 | (j / NKIND == 1 ? 8 : 0) | (j / NKIND == 2 ? 32 : 0));
    if (kind == K_KEYVAL) shape = 3 + j / NKIND;
    return Op(writerOp(kind), 77 + j, shape, 6, 0);
  }
  Plan enumPlan(long idx, Tier) const override {
    Plan p; p.cfg["exactcut"] = 1; p.cfg["enumerated"] = 1;
    long j = idx / BLOCKS, block = idx % BLOCKS; int kind = static_cast<int>(j % NKIND);
    p.ops.push_back(baseDoc(j));
    Doc base; bool have = Exec::makeDoc(p.ops[0], false, base);
    std::vector<std::string> nat = naturalReaders(kind);
    for (long c = block * PER; c < (block + 1) * PER; ++c) {
      if (have && c > static_cast<long>(base.orig[0].size())) break;
      Op f("f.torn", 0, 1, 0, c); p.ops.push_back(f);
      for (auto& rk : nat) {
        p.ops.push_back(Op(rk, 0, NATURAL | (c & 1), (c % 3 == 0) ? 3 : 0, c));
        if (rk == "r.optfile" || rk == "r.optmap") { p.ops.push_back(Op("r.resolve", 0, 0)); p.ops.push_back(Op("r.query", 0, 0, 0, c % 14)); }
        if (rk == "r.table") p.ops.push_back(Op("r.tedit", 0, c % 5, c % 3, c * 7 % (18 * 18 * 18)));
      }
    }
    return p;
  }

  Plan generate(Rng& rng, Tier tier) const override {
    Plan p;
    Swarm sw;
    sw.kindW = {3, 2.5, 1, 1, 1, 3, 1.5, 2, 1.2};
    for (auto& x : sw.kindW) if (rng.chance(0.3)) x *= rng.chance(0.5) ? 0 : 3;
    { double s = 0; for (double x : sw.kindW) s += x; if (s == 0) sw.kindW[static_cast<size_t>(rng.below(NKIND))] = 1; }
    sw.faultW = {3, 0.6, 2, 3, 1, 1, 0.6};
    for (auto& x : sw.faultW) if (rng.chance(0.3)) x *= rng.chance(0.6) ? 0 : 3;
    { double s = 0; for (double x : sw.faultW) s += x; if (s == 0) sw.faultW[3] = 1; }
    sw.pChunk = rng.chance(0.3) ? 0 : rng.real(0.2, 0.9);
    sw.pCross = rng.chance(0.5) ? 0 : rng.real(0.05, 0.4);
    sw.pNatural = rng.real(0.3, 0.95);
    sw.risky = rng.chance(0.02);
    p.cfg["risky"] = sw.risky;
    long T = rng.range(1, 4), written = 0;
    for (long t = 0; t < T; ++t) {
      int kind = static_cast<int>(rng.weighted(sw.kindW));
      long shape = rng.below(1 << 16);
      if (kind == K_DIST) shape = shape % 160 + 160 * 15;
      if (kind == K_OPT && rng.chance(0.3)) shape |= 1L << 20;          // option file that also carries vector / sequence descriptions and a parameter grid
      Op w(writerOp(kind), static_cast<long>(rng.next() & 0x3fffffff), shape, rng.below(13), 0);
      p.ops.push_back(w);
      long docIdx = written < static_cast<long>(MAXDOCS) ? written : (written - static_cast<long>(MAXDOCS)) % static_cast<long>(MAXDOCS);
      ++written;
      // the generator looks at the bytes this write produces, so that ordinary runs stay away from the exact triggers of
      // the confirmed defects (a file ending in a continuation backslash; a class count that is not a small positive integer)
      Doc shadow; bool haveShadow = Exec::makeDoc(w, false, shadow);
      long nf = static_cast<long>(rng.weighted({0.12, 0.6, 0.28}));
      for (long f = 0; f < nf; ++f) {
        for (int attempt = 0; attempt < 6; ++attempt) {
          Op fo(FAULTS[rng.weighted(sw.faultW)], docIdx, rng.chance(0.2) ? 1 : 0, rng.below(3), rng.below(4096));
          fo.x = static_cast<double>(rng.below(256));
          if (haveShadow && fo.k == "f.torn" && rng.chance(0.35)) {
            // tear right after a structural character (delimiter, bracket, '=', backslash, line end): the cut points where readers change state
            const std::string& txt = shadow.stored[static_cast<size_t>(fo.c) % shadow.stored.size()];
            std::vector<size_t> pos; for (size_t q = 0; q < txt.size(); ++q) if (std::strchr(",;:=()[]{} \t\\\n", txt[q])) pos.push_back(q);
            if (!pos.empty()) fo.d = static_cast<long>(pos[static_cast<size_t>(rng.below(static_cast<long>(pos.size())))] + 1);
          }
          if (haveShadow) {
            Doc trial = shadow; size_t fi = static_cast<size_t>(fo.c) % trial.stored.size();
            if (fo.b & 1) trial.stored[fi] = trial.orig[fi];
            Exec::applyFault(fo, trial.stored[fi]);
            if (riskScore(trial) > riskScore(shadow)) continue;
            shadow = trial;
          }
          p.ops.push_back(fo); break;
        }
      }
      genReads(rng, sw, p, kind, docIdx, kind == K_OPT && ((shape >> 20) & 1));
    }
    if (sw.risky) genTrigger(rng, p, written < static_cast<long>(MAXDOCS) ? written : 0, tier);
    return p;
  }

  // one deliberately constructed trigger of a repaired defect (about 1 run in 50)
  // Trigger 8 (overflowing exponent in a distribution parameter) is the known non-termination: never generated.
  static void genTrigger(Rng& rng, Plan& p, long docIdx, Tier tier) {
    static const std::vector<long> Q = {0, 1, 2, 3, 4, 5, 6, 7, 9, 10, 11};
    (void)tier;
    long which = rng.pick(Q); p.cfg["trigger"] = which + 1;
    long seed = static_cast<long>(rng.next() & 0x3fffffff);
    switch (which) {
      case 0: {       // option file torn right after a continuation backslash
        for (int tries = 0; tries < 50; ++tries, ++seed) {
          Op w("w.opt", seed, 6 + 9 * (1 | 2 | 4), 0, 0); Doc d; Exec::makeDoc(w, false, d);
          size_t pos = d.orig[0].find("\\\n"); if (pos == std::string::npos) continue;
          p.ops.push_back(w); p.ops.push_back(Op("f.torn", docIdx, 1, 0, static_cast<long>(pos) + 1));
          p.ops.push_back(Op(rng.chance(0.5) ? "r.optmap" : "r.optfile", docIdx, NATURAL, 0, 0)); return;
        }
        return;
      }
      case 1: {       // class count overwritten with '0'
        Op w("w.dist", seed, rng.below(4) + 10 * rng.below(8) + 160 * (2 | 4 | 8), 6, 0); Doc d; if (!Exec::makeDoc(w, false, d)) return;
        size_t pos = d.orig[0].find("n="); if (pos == std::string::npos) return;
        p.ops.push_back(w); Op f("f.set", docIdx, 1, 0, static_cast<long>(pos) + 2); f.x = '0'; p.ops.push_back(f);
        p.ops.push_back(Op("r.dist", docIdx, NATURAL, 0, 0)); return;
      }
      case 2:         // any TruncExponential description, undamaged
        p.ops.push_back(Op("w.dist", seed, 4 + 10 * rng.below(8) + 160 * (1 | 2 | 4 | 8), 6, 0)); p.ops.push_back(Op("r.dist", docIdx, NATURAL, 0, 0)); return;
      case 3:         // setRowName on a table read without row names
        p.ops.push_back(Op("w.table", seed, 3 + 7 * 3 + 49 * 1, 0, 0)); p.ops.push_back(Op("r.table", docIdx, NATURAL, 0, 0)); p.ops.push_back(Op("r.trowname", 0, rng.below(3), rng.below(2))); return;
      case 4:         // unparseRemainingTokens on an empty token list
        p.ops.push_back(Op("w.keyval", seed, rng.below(14), 0, 0)); p.ops.push_back(Op("f.lost", docIdx, 0, 0, 0)); p.ops.push_back(Op("r.tok", docIdx, rng.below(4), 0, K_KEYVAL)); return;
      case 5: {       // cyclic definitions in which a variable refers to itself twice and an earlier key refers to it
        for (int tries = 0; tries < 400; ++tries, ++seed) {
          Op w("w.opt", seed, 4 + rng.below(5) + 9 * (1 | 8), 0, 0); Doc d; Exec::makeDoc(w, false, d);
          bool hit = false;
          for (auto& kv : d.opt.map) { std::string self = "$(" + kv.first + ")"; size_t a = kv.second.find(self); if (a != std::string::npos && kv.second.find(self, a + 1) != std::string::npos) for (auto& o2 : d.opt.map) if (o2.first < kv.first && o2.second.find(self) != std::string::npos) hit = true; }
          if (!hit) continue;
          p.ops.push_back(w); p.ops.push_back(Op("r.optmap", docIdx, NATURAL, 0, 0)); p.ops.push_back(Op("r.resolve", 0, 0)); return;
        }
        return;
      }
      case 7: case 8: {   // a damaged parameter value: leading character overwritten with '-' (7), or a digit with 'e' giving an overflowing exponent (8)
        Op w("w.dist", seed, (which == 7 ? rng.below(4) : 0) + 10 * rng.below(8) + 160 * (2 | 4 | 8), 6, 0); Doc d; if (!Exec::makeDoc(w, false, d)) return;
        size_t pos = d.orig[0].find(which == 7 ? "a=" : "beta="); if (pos == std::string::npos) return;
        pos = d.orig[0].find('=', pos) + 1;
        p.ops.push_back(w); Op f("f.set", docIdx, 1, 0, static_cast<long>(pos) + (which == 7 ? 0 : 1)); f.x = which == 7 ? '-' : 'e'; p.ops.push_back(f);
        p.ops.push_back(Op("r.dist", docIdx, NATURAL, 0, 0)); return;
      }
      case 10: case 11: {   // a short write removes the content of a Simple distribution's value list (10: between the brackets, 11: brackets included)
        for (int tries = 0; tries < 20; ++tries, ++seed) {
          Op w("w.dist", seed, 7 + 10 * rng.below(8) + 160 * 15, 6, 0); Doc d; if (!Exec::makeDoc(w, false, d)) continue;
          size_t a = d.orig[0].find("values=("); if (a == std::string::npos) continue;
          size_t b = d.orig[0].find(')', a); if (b == std::string::npos) continue;
          size_t from = a + (which == 10 ? 8 : 7), len = (which == 10 ? b : b + 1) - from;
          if (len < 1 || len > 48) continue;
          p.ops.push_back(w); Op f("f.short", docIdx, 1, 0, static_cast<long>(from)); f.x = static_cast<double>(len - 1); p.ops.push_back(f);
          p.ops.push_back(Op("r.dist", docIdx, NATURAL, 0, 0)); return;
        }
        return;
      }
      case 9: {       // a row of a row-named table overwritten with separators only (multi-byte corruption of one line)
        Op w("w.table", seed, 2 + 7 * 3 + 49 * (1 | 2) + 49 * 32 * 1, 0, 0); Doc d; if (!Exec::makeDoc(w, false, d)) return;
        const std::string& t = d.orig[0]; if (t.size() < 3) return;
        size_t e = t.size() - 1, b = t.rfind('\n', e - 1); if (b == std::string::npos) return;
        p.ops.push_back(w);
        for (size_t q = b + 1; q < e; ++q) if (t[q] != ',') { Op f("f.set", docIdx, 0, 0, static_cast<long>(q)); f.x = ','; p.ops.push_back(f); }
        p.ops.push_back(Op("r.table", docIdx, NATURAL, 0, 0)); return;
      }
      default:        // cyclic definitions in general (legal input)
        p.ops.push_back(Op("w.opt", seed, 3 + rng.below(6) + 9 * (1 | 8 | (rng.below(2) ? 2 : 0)), 0, 0)); p.ops.push_back(Op("r.optfile", docIdx, NATURAL, 0, 0)); p.ops.push_back(Op("r.resolve", 0, 0)); return;
    }
  }
  void execute(const Plan& p, Ctx& ctx) const override {
    Exec e(p, ctx, false);
    static const bool halting = [] { const char* u = getenv("UBSAN_OPTIONS"); return u && strstr(u, "halt_on_error=1"); }();
    g_c16Halting = halting && ctx.shared == nullptr; g_c16Index = p.index;   // ctx.shared is set only in the forked single-run child, whose parent classifies the death itself
    struct Off { ~Off() { g_c16Halting = false; } } off;
    try { e.run(); }
    catch (SimViolation&) { throw; }
    catch (bpp::Exception& ex) { ctx.fail("harness:bpp-exception-outside-guard", "harness:bpp-exception-outside-guard", ex.what()); }
    catch (std::exception& ex) { ctx.fail("harness:std-exception-outside-guard", "harness:std-exception-outside-guard", ex.what()); }
  }
};

Registrar reg(new C16());

}  // namespace

extern "C" void __ubsan_on_report(void) {
  if (!g_c16Halting || g_c16Index < 0) return;
  abort();     // handled by libasan (handle_abort=1): its Die() runs the runner's death callback (DEAD line + worker summary)
}
