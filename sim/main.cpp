// dsim runner: worker / plan / investigate / replay / info / merge
#include "engine.h"
#include <algorithm>
#include <chrono>
#include <csignal>
#include <cstdlib>
#include <fstream>
#include <iostream>
#include <exception>
#include <sys/mman.h>
#include <sys/resource.h>
#include <sys/time.h>
#include <sys/wait.h>
#include <unistd.h>
#include <fcntl.h>

extern "C" void __sanitizer_set_death_callback(void (*)(void));
// classification of sanitizer hits: exit code 77, no leak checking
extern "C" __attribute__((used)) const char* __asan_default_options() {
  return "exitcode=77:detect_leaks=0:abort_on_error=0:allocator_may_return_null=1:handle_abort=1:detect_stack_use_after_return=0";
}
extern "C" __attribute__((used)) const char* __ubsan_default_options() {
  return "exitcode=77:print_stacktrace=0";
}

using namespace dsim;

namespace {

std::set<std::string> g_known;   // "PROP|sig"

void loadKnown() {
  const char* e = getenv("DSIM_KNOWN");
  if (!e) return;
  std::string s(e), cur;
  for (char c : s) { if (c == ',') { if (!cur.empty()) g_known.insert(cur); cur.clear(); } else cur += c; }
  if (!cur.empty()) g_known.insert(cur);
}

std::string jesc(const std::string& s) {
  std::string r;
  for (unsigned char c : s) {
    if (c == '"' || c == '\\') { r += '\\'; r += static_cast<char>(c); }
    else if (c == '\n') r += "\\n";
    else if (c < 32 || c >= 127) { char b[8]; snprintf(b, sizeof b, "\\u%04x", c); r += b; }
    else r += static_cast<char>(c);
  }
  return r;
}

Plan planFor(const Harness* h, Tier t, uint64_t baseSeed, long index) {
  long E = h->enumCount(t);
  Plan p;
  if (index < E) { p = h->enumPlan(index, t); p.seed = 0; }
  else {
    uint64_t s = mix3(baseSeed, strHash(h->id()), static_cast<uint64_t>(index - E));
    Rng rng(s);
    p = h->generate(rng, t);
    p.seed = s;
  }
  p.prop = h->id();
  p.index = index;
  return p;
}

struct Outcome {
  bool violated = false;
  std::string cls, sig, detail;
  long step = -1;
  uint64_t hash = 0;
  long okSteps = 0;
};

// run in this process; fills ctx
Outcome runInProcess(const Harness* h, const Plan& p, Ctx& ctx) {
  Outcome o;
  resetWorld(p.seed ? p.seed : 12345);
  try {
    h->execute(p, ctx);
  } catch (SimViolation& v) {
    o.violated = true; o.cls = v.cls; o.sig = v.sig; o.detail = v.detail; o.step = v.step;
  }
  o.hash = ctx.hash; o.okSteps = ctx.okSteps;
  if (!o.violated) o.step = ctx.step;
  return o;
}

long g_cpuLimit = 10;
std::string g_tmpDir = "out/tmp";

void armCpuTimer(long secs) {
  struct itimerval it; memset(&it, 0, sizeof it);
  it.it_value.tv_sec = secs;
  setitimer(ITIMER_VIRTUAL, &it, nullptr);
}

std::string readFile(const std::string& f) {
  std::ifstream is(f.c_str(), std::ios::binary);
  std::ostringstream ss; ss << is.rdbuf(); return ss.str();
}

std::string sanitizerKind(const std::string& err) {
  size_t p = err.find("ERROR: AddressSanitizer: ");
  if (p != std::string::npos) {
    size_t s = p + 25, e = err.find_first_of(" \n", s);
    return "asan-" + err.substr(s, e - s);
  }
  p = err.find("runtime error: ");
  if (p != std::string::npos) {
    size_t s = p + 15, e = err.find('\n', s);
    std::string m = err.substr(s, e - s), k;
    // keep the leading words up to the first digit/quote so operands don't enter the class
    for (char c : m) { if (isdigit(static_cast<unsigned char>(c)) || c == '\'' || c == '-') break; k += (c == ' ' ? '_' : c); }
    while (!k.empty() && k.back() == '_') k.pop_back();
    return "ubsan-" + k;
  }
  if (err.find("terminate called") != std::string::npos) return "terminate";
  return "unknown";
}

void childHangHandler(int) { _exit(78); }

// run in a forked child so that crashes, sanitizer aborts and hangs become outcomes
Outcome runIsolated(const Harness* h, const Plan& p, bool trace = false, std::string* traceOut = nullptr) {
  Outcome o;
  SharedProgress* sp = static_cast<SharedProgress*>(mmap(nullptr, 4096, PROT_READ | PROT_WRITE, MAP_SHARED | MAP_ANONYMOUS, -1, 0));
  sp->step = -1; sp->hash = 0; sp->okSteps = 0; sp->tag[0] = 0;
  int pfd[2]; if (pipe(pfd) != 0) { perror("pipe"); exit(2); }
  std::string errFile = g_tmpDir + "/stderr." + std::to_string(getpid());
  fflush(stdout); fflush(stderr);
  pid_t pid = fork();
  if (pid == 0) {
    close(pfd[0]);
    int efd = open(errFile.c_str(), O_WRONLY | O_CREAT | O_TRUNC, 0644);
    if (efd >= 0) { dup2(efd, 2); close(efd); }
    signal(SIGVTALRM, childHangHandler);
    armCpuTimer(g_cpuLimit);
    Ctx ctx; ctx.shared = sp; ctx.trace = trace;
    Outcome c;
    try { c = runInProcess(h, p, ctx); }
    catch (std::exception& e) { c.violated = true; c.cls = "foreign-exception"; c.sig = "foreign-exception:escaped"; c.detail = e.what(); c.step = ctx.step; c.hash = ctx.hash; }
    std::ostringstream os;
    os << (c.violated ? 1 : 0) << "\n" << c.cls << "\n" << c.sig << "\n" << c.step << "\n" << c.hash << "\n" << c.okSteps << "\n" << c.detail << "\n";
    if (trace) { os << "--trace--\n"; for (auto& l : ctx.traceLines) os << l << "\n"; }
    std::string s = os.str();
    size_t off = 0;
    while (off < s.size()) { ssize_t w = write(pfd[1], s.data() + off, s.size() - off); if (w <= 0) break; off += static_cast<size_t>(w); }
    close(pfd[1]);
    _exit(0);
  }
  close(pfd[1]);
  std::string buf; char tmp[4096]; ssize_t n;
  while ((n = read(pfd[0], tmp, sizeof tmp)) > 0) buf.append(tmp, static_cast<size_t>(n));
  close(pfd[0]);
  int st = 0; waitpid(pid, &st, 0);
  if (WIFEXITED(st) && WEXITSTATUS(st) == 0) {
    std::istringstream is(buf);
    std::string l; std::getline(is, l); o.violated = l == "1";
    std::getline(is, o.cls); std::getline(is, o.sig);
    std::getline(is, l); o.step = atol(l.c_str());
    std::getline(is, l); o.hash = strtoull(l.c_str(), nullptr, 10);
    std::getline(is, l); o.okSteps = atol(l.c_str());
    std::getline(is, o.detail);
    if (traceOut) { std::string rest; while (std::getline(is, l)) rest += l + "\n"; *traceOut = rest; }
  } else {
    o.violated = true; o.step = sp->step; o.hash = sp->hash; o.okSteps = sp->okSteps;
    std::string opk = (o.step >= 0 && o.step < static_cast<long>(p.ops.size())) ? p.ops[static_cast<size_t>(o.step)].k : "setup";
    { char tg[sizeof sp->tag]; std::memcpy(tg, sp->tag, sizeof tg); tg[sizeof tg - 1] = 0; if (tg[0]) opk += std::string(":") + tg; }
    if (WIFEXITED(st) && WEXITSTATUS(st) == 78) { o.cls = "hang"; o.sig = "hang:" + opk; o.detail = "no return within " + std::to_string(g_cpuLimit) + " CPU-seconds"; }
    else if (WIFEXITED(st) && WEXITSTATUS(st) == 77) {
      std::string err = readFile(errFile);
      std::string k = sanitizerKind(err);
      o.cls = "sanitizer:" + k; o.sig = o.cls + ":" + opk;
      size_t e = err.find("ERROR: "); if (e == std::string::npos) e = err.find("runtime error"); if (e == std::string::npos) e = 0;
      o.detail = err.substr(e, 300); for (char& c : o.detail) if (c == '\n') c = ' ';
    }
    else if (WIFSIGNALED(st)) { o.cls = "crash:signal" + std::to_string(WTERMSIG(st)); o.sig = o.cls + ":" + opk; o.detail = readFile(errFile).substr(0, 300); for (char& c : o.detail) if (c == '\n') c = ' '; }
    else { o.cls = "crash:exit" + std::to_string(WIFEXITED(st) ? WEXITSTATUS(st) : -1); o.sig = o.cls + ":" + opk; o.detail = readFile(errFile).substr(0, 300); for (char& c : o.detail) if (c == '\n') c = ' '; }
  }
  unlink(errFile.c_str());
  munmap(sp, 4096);
  return o;
}

// ---------------------------------------------------------------- worker
struct WorkerStats {
  long evaluations = 0, enumerated = 0, steps = 0, okSteps = 0, rejSteps = 0, nontrivialRuns = 0;
  long violations = 0, known = 0, detRechecked = 0, detMismatch = 0;
  std::map<std::string, long> faultFired, faultRuns, probes, knownHits;
  std::vector<uint64_t> fps;           // fingerprints of non-trivial runs
  std::vector<uint64_t> states;
  std::vector<std::string> samples;
  long simClockCalls = 0, auditCalls = 0, auditOffences = 0;
  std::string auditFirst;
  long curIndex = -1;
  std::string outPrefix;
  double wall = 0;
  bool capped = false;
} g_ws;

void writeSummary() {
  std::sort(g_ws.fps.begin(), g_ws.fps.end());
  g_ws.fps.erase(std::unique(g_ws.fps.begin(), g_ws.fps.end()), g_ws.fps.end());
  {
    std::ofstream f((g_ws.outPrefix + ".fp").c_str(), std::ios::binary);
    f.write(reinterpret_cast<const char*>(g_ws.fps.data()), static_cast<std::streamsize>(g_ws.fps.size() * 8));
  }
  {
    std::sort(g_ws.states.begin(), g_ws.states.end());
    g_ws.states.erase(std::unique(g_ws.states.begin(), g_ws.states.end()), g_ws.states.end());
    std::ofstream f((g_ws.outPrefix + ".st").c_str(), std::ios::binary);
    f.write(reinterpret_cast<const char*>(g_ws.states.data()), static_cast<std::streamsize>(g_ws.states.size() * 8));
  }
  std::ofstream js((g_ws.outPrefix + ".json").c_str());
  js << "{\"evaluations\":" << g_ws.evaluations << ",\"enumerated\":" << g_ws.enumerated << ",\"steps\":" << g_ws.steps
     << ",\"ok_steps\":" << g_ws.okSteps << ",\"rej_steps\":" << g_ws.rejSteps << ",\"nontrivial_runs\":" << g_ws.nontrivialRuns
     << ",\"violations\":" << g_ws.violations << ",\"known\":" << g_ws.known
     << ",\"det_rechecked\":" << g_ws.detRechecked << ",\"det_mismatch\":" << g_ws.detMismatch
     << ",\"clock_calls\":" << g_ws.simClockCalls << ",\"wall\":" << g_ws.wall << ",\"capped\":" << (g_ws.capped ? "true" : "false")
     << ",\"audit_calls\":" << g_ws.auditCalls << ",\"audit_offences\":" << g_ws.auditOffences << ",\"audit_first\":\"" << jesc(g_ws.auditFirst) << "\""
     << ",\"last_index\":" << g_ws.curIndex;
  auto dumpMap = [&](const char* name, const std::map<std::string, long>& m) {
    js << ",\"" << name << "\":{"; bool first = true;
    for (auto& kv : m) { if (!first) js << ","; first = false; js << "\"" << jesc(kv.first) << "\":" << kv.second; }
    js << "}";
  };
  dumpMap("fault_fired", g_ws.faultFired); dumpMap("fault_runs", g_ws.faultRuns); dumpMap("probes", g_ws.probes); dumpMap("known_hits", g_ws.knownHits);
  js << ",\"samples\":["; for (size_t i = 0; i < g_ws.samples.size(); ++i) { if (i) js << ","; js << "\"" << jesc(g_ws.samples[i]) << "\""; } js << "]}";
  js << std::endl;
}

void workerDeath() {
  char b[64]; int n = snprintf(b, sizeof b, "DEAD %ld\n", g_ws.curIndex);
  if (write(1, b, static_cast<size_t>(n)) < 0) {}
  static bool once = false; if (!once) { once = true; writeSummary(); }
}
void workerHang(int) {
  char b[64]; int n = snprintf(b, sizeof b, "HANG %ld\n", g_ws.curIndex);
  if (write(1, b, static_cast<size_t>(n)) < 0) {}
  writeSummary();
  _exit(78);
}
void workerTerminate() {
  char b[64]; int n = snprintf(b, sizeof b, "DEAD %ld\n", g_ws.curIndex);
  if (write(1, b, static_cast<size_t>(n)) < 0) {}
  writeSummary();
  _exit(79);
}

int cmdWorker(int argc, char** argv) {
  if (argc < 9) { fprintf(stderr, "worker <prop> <tier> <baseSeed> <first> <stride> <end> <outPrefix> [wallCap]\n"); return 2; }
  Harness* h = findHarness(argv[2]); if (!h) { fprintf(stderr, "no harness %s\n", argv[2]); return 2; }
  Tier t = std::string(argv[3]) == "thorough" ? THOROUGH : QUICK;
  uint64_t base = strtoull(argv[4], nullptr, 10);
  long first = atol(argv[5]), stride = atol(argv[6]), end = atol(argv[7]);
  g_ws.outPrefix = argv[8];
  double wallCap = argc > 9 ? atof(argv[9]) : 1e9;
  long E = h->enumCount(t);
  __sanitizer_set_death_callback(workerDeath);
  std::set_terminate(workerTerminate);
  signal(SIGVTALRM, workerHang);
  auto t0 = std::chrono::steady_clock::now();
  long reported = 0;
  bool dumpHashes = getenv("DSIM_DUMP_HASHES") != nullptr;
  for (long i = first; i < end; i += stride) {
    if ((g_ws.evaluations & 63) == 0) {
      g_ws.wall = std::chrono::duration<double>(std::chrono::steady_clock::now() - t0).count();
      if (g_ws.wall > wallCap && i >= E) { g_ws.capped = true; break; }
    }
    g_ws.curIndex = i;
    Plan p = planFor(h, t, base, i);
    armCpuTimer(g_cpuLimit);
    Ctx ctx; ctx.stateSink = &g_ws.states;
    Outcome o = runInProcess(h, p, ctx);
    armCpuTimer(0);
    ++g_ws.evaluations; if (i < E) ++g_ws.enumerated;
    if (dumpHashes) { printf("H %ld %llu %d\n", i, static_cast<unsigned long long>(o.hash), o.violated ? 1 : 0); }
    g_ws.steps += ctx.step + 1; g_ws.okSteps += ctx.okSteps; g_ws.rejSteps += ctx.rejSteps;
    g_ws.simClockCalls += g_clock.calls;
    g_ws.auditCalls += g_audit.calls; g_ws.auditOffences += g_audit.offences;
    if (g_audit.offences && g_ws.auditFirst.empty()) g_ws.auditFirst = "index " + std::to_string(i) + ": " + g_audit.first;
    for (auto& kv : ctx.faults) { g_ws.faultFired[kv.first] += kv.second; if (kv.second) ++g_ws.faultRuns[kv.first]; }
    for (auto& kv : ctx.probes) g_ws.probes[kv.first] += kv.second;
    for (auto& kv : ctx.knownHits) { g_ws.knownHits[kv.first] += kv.second; g_ws.known += kv.second; }
    if (g_ws.states.size() > (1u << 20)) {
      std::sort(g_ws.states.begin(), g_ws.states.end());
      g_ws.states.erase(std::unique(g_ws.states.begin(), g_ws.states.end()), g_ws.states.end());
    }
    if (!o.violated && h->nontrivial(ctx)) {
      ++g_ws.nontrivialRuns; g_ws.fps.push_back(ctx.fp);
      if (g_ws.samples.size() < 3 && i >= E) {
        std::ostringstream ss; ss << "index=" << i << " seed=" << p.seed << " ok_steps=" << ctx.okSteps << " rejected_steps=" << ctx.rejSteps << " faults_fired=" << ctx.faultsFired << " outcome=held\n" << planToText(p);
        g_ws.samples.push_back(ss.str());
      }
      if (g_ws.fps.size() > (1u << 22)) {
        std::sort(g_ws.fps.begin(), g_ws.fps.end());
        g_ws.fps.erase(std::unique(g_ws.fps.begin(), g_ws.fps.end()), g_ws.fps.end());
      }
    }
    // determinism spot-check: every 257th run is executed a second time
    bool recheck = o.violated || (g_ws.evaluations % 257 == 0);
    if (recheck) {
      armCpuTimer(g_cpuLimit);
      Ctx c2; Outcome o2 = runInProcess(h, p, c2);
      armCpuTimer(0);
      ++g_ws.detRechecked;
      if (o2.hash != o.hash || o2.violated != o.violated || o2.sig != o.sig) {
        ++g_ws.detMismatch;
        printf("NONDET %ld %llu %llu\n", i, static_cast<unsigned long long>(o.hash), static_cast<unsigned long long>(o2.hash)); fflush(stdout);
        continue;
      }
    }
    if (o.violated) {
      if (isKnownFinding(h->id(), o.sig)) { ++g_ws.known; ++g_ws.knownHits[o.sig]; }
      else {
        ++g_ws.violations;
        if (reported < 8) {
          ++reported;
          printf("V %ld %llu %s %s %s\n", i, static_cast<unsigned long long>(o.hash), o.cls.c_str(), o.sig.c_str(), o.detail.c_str()); fflush(stdout);
        }
      }
    }
  }
  g_ws.wall = std::chrono::duration<double>(std::chrono::steady_clock::now() - t0).count();
  g_ws.curIndex = -1;
  writeSummary();
  printf("DONE\n"); fflush(stdout);
  return 0;
}

// ---------------------------------------------------------------- shrink
// a shrink candidate must reproduce the same violation: same class and same signature (the signature is class + a narrow qualifier)
bool sameClass(const Outcome& a, const Outcome& ref) { return a.violated && a.cls == ref.cls && a.sig == ref.sig; }

Plan shrinkPlan(const Harness* h, Plan p, const Outcome& ref, int& execs, int maxExecs) {
  auto test = [&](const Plan& c) { if (execs >= maxExecs) return false; ++execs; return sameClass(runIsolated(h, c), ref); };
  // 1. ddmin over ops
  size_t n = 2;
  while (p.ops.size() >= 2 && execs < maxExecs) {
    size_t len = p.ops.size();
    size_t chunk = (len + n - 1) / n;
    bool reduced = false;
    for (size_t start = 0; start < len && !reduced; start += chunk) {
      Plan c = p; c.ops.erase(c.ops.begin() + static_cast<long>(start), c.ops.begin() + static_cast<long>(std::min(len, start + chunk)));
      if (test(c)) { p = c; n = std::max<size_t>(n - 1, 2); reduced = true; }
    }
    if (!reduced) { if (chunk == 1) break; n = std::min(len, n * 2); }
  }
  if (p.ops.size() == 1) { Plan c = p; c.ops.clear(); if (test(c)) p = c; }
  // 2. per-op simplification
  bool progress = true;
  while (progress && execs < maxExecs) {
    progress = false;
    for (size_t i = 0; i < p.ops.size() && execs < maxExecs; ++i) {
      for (const Op& cand : h->simplify(p.ops[i])) {
        Plan c = p; c.ops[i] = cand;
        if (test(c)) { p = c; progress = true; break; }
      }
    }
  }
  return p;
}

void writeReplay(const std::string& file, const Plan& p, const Outcome& o) {
  std::ofstream f(file.c_str());
  f << planToText(p);
  f << "expect cls " << o.cls << "\n";
  f << "expect sig " << o.sig << "\n";
  f << "expect step " << o.step << "\n";
  f << "expect hash " << o.hash << "\n";
  f << "expect detail " << o.detail << "\n";
}

int cmdInvestigate(int argc, char** argv) {
  // investigate <prop> <tier> <baseSeed> <index> <expectHash|-> <outReplay>
  if (argc < 8) return 2;
  Harness* h = findHarness(argv[2]); if (!h) return 2;
  Tier t = std::string(argv[3]) == "thorough" ? THOROUGH : QUICK;
  uint64_t base = strtoull(argv[4], nullptr, 10);
  long index = atol(argv[5]);
  std::string expectHash = argv[6];
  Plan p = planFor(h, t, base, index);
  Outcome o1 = runIsolated(h, p);
  Outcome o2 = runIsolated(h, p);
  if (!o1.violated) { printf("NOREPRO no violation in fresh process\n"); return 3; }
  if (o1.cls != o2.cls || o1.sig != o2.sig || o1.hash != o2.hash || o1.step != o2.step) { printf("NONDET fresh-process runs differ: %s/%s\n", o1.sig.c_str(), o2.sig.c_str()); return 3; }
  if (expectHash != "-" && std::to_string(o1.hash) != expectHash) { printf("NONDET hash differs from worker: %llu vs %s\n", static_cast<unsigned long long>(o1.hash), expectHash.c_str()); return 3; }
  int execs = 0;
  size_t before = p.ops.size();
  Plan s = shrinkPlan(h, p, o1, execs, o1.cls == "hang" ? 12 : 400);    // every hang candidate costs the whole CPU limit
  Outcome os = runIsolated(h, s);
  if (!sameClass(os, o1)) { s = p; os = o1; }
  writeReplay(argv[7], s, os);
  printf("RESULT cls=%s sig=%s step=%ld ops_before=%zu ops_after=%zu shrink_execs=%d detail=%s\n", os.cls.c_str(), os.sig.c_str(), os.step, before, s.ops.size(), execs, os.detail.c_str());
  return 0;
}

int cmdClassify(int argc, char** argv) {
  // classify <prop> <tier> <baseSeed> <index> : one isolated execution, prints the outcome class and signature
  if (argc < 6) return 2;
  Harness* h = findHarness(argv[2]); if (!h) return 2;
  Tier t = std::string(argv[3]) == "thorough" ? THOROUGH : QUICK;
  Plan p = planFor(h, t, strtoull(argv[4], nullptr, 10), atol(argv[5]));
  Outcome o = runIsolated(h, p);
  if (!o.violated) { printf("CLASS none\n"); return 0; }
  printf("CLASS cls=%s sig=%s\n", o.cls.c_str(), o.sig.c_str());
  return 0;
}

int cmdReplay(int argc, char** argv) {
  if (argc < 3) return 2;
  bool verbose = argc > 3 && std::string(argv[3]) == "-v";
  std::string text = readFile(argv[2]);
  Plan p; std::map<std::string, std::string> ex;
  if (!planFromText(text, p, ex)) { fprintf(stderr, "bad replay file\n"); return 2; }
  Harness* h = findHarness(p.prop); if (!h) { fprintf(stderr, "no harness %s\n", p.prop.c_str()); return 2; }
  std::string tr;
  Outcome o = runIsolated(h, p, verbose, &tr);
  if (verbose) fputs(tr.c_str(), stdout);
  if (!o.violated) { printf("REPLAY held (no violation)\n"); return 0; }
  printf("REPLAY violation cls=%s sig=%s step=%ld hash=%llu detail=%s\n", o.cls.c_str(), o.sig.c_str(), o.step, static_cast<unsigned long long>(o.hash), o.detail.c_str());
  bool same = (!ex.count("cls") || ex["cls"] == o.cls) && (!ex.count("sig") || ex["sig"] == o.sig) && (!ex.count("hash") || ex["hash"] == std::to_string(o.hash));
  printf(same ? "REPLAY matches expectation exactly\n" : "REPLAY differs from expectation\n");
  return same ? 1 : 3;
}

int cmdPlan(int argc, char** argv) {
  if (argc < 6) return 2;
  Harness* h = findHarness(argv[2]); if (!h) return 2;
  Tier t = std::string(argv[3]) == "thorough" ? THOROUGH : QUICK;
  Plan p = planFor(h, t, strtoull(argv[4], nullptr, 10), atol(argv[5]));
  fputs(planToText(p).c_str(), stdout);
  return 0;
}

int cmdInfo(int argc, char** argv) {
  if (argc < 3) { for (auto* h : allHarnesses()) printf("%s\n", h->id()); return 0; }
  Harness* h = findHarness(argv[2]); if (!h) return 2;
  HarnessInfo in = h->info();
  auto arr = [](const std::vector<std::string>& v) { std::string s = "["; for (size_t i = 0; i < v.size(); ++i) { if (i) s += ","; s += "\"" + jesc(v[i]) + "\""; } return s + "]"; };
  printf("{\"id\":\"%s\",\"real\":%s,\"stub\":%s,\"rule\":\"%s\",\"sim_time\":\"%s\",\"fault_kinds\":%s,\"probe_names\":%s,\"assumptions\":%s,\"ubsan_gates\":%s,",
         h->id(), arr(in.real).c_str(), arr(in.stub).c_str(), jesc(in.rule).c_str(), jesc(in.simTime).c_str(), arr(in.faultKinds).c_str(), arr(in.probeNames).c_str(), arr(in.assumptions).c_str(), in.ubsanGates ? "true" : "false");
  printf("\"cpu_limit_factor\":%d,", in.cpuLimitFactor);
  printf("\"tolerances\":{"); bool f = true; for (auto& kv : in.tolerances) { if (!f) printf(","); f = false; printf("\"%s\":\"%s\"", jesc(kv.first).c_str(), jesc(kv.second).c_str()); } printf("},");
  printf("\"runs\":{\"quick\":%ld,\"thorough\":%ld},\"enum\":{\"quick\":%ld,\"thorough\":%ld}}\n", h->defaultRuns(QUICK), h->defaultRuns(THOROUGH), h->enumCount(QUICK), h->enumCount(THOROUGH));
  return 0;
}

int cmdMerge(int argc, char** argv) {
  std::vector<uint64_t> all;
  for (int i = 2; i < argc; ++i) {
    std::string d = readFile(argv[i]);
    size_t n = d.size() / 8, o = all.size(); all.resize(o + n);
    if (n) memcpy(all.data() + o, d.data(), n * 8);
  }
  std::sort(all.begin(), all.end());
  all.erase(std::unique(all.begin(), all.end()), all.end());
  printf("%zu\n", all.size());
  return 0;
}

}  // namespace

namespace dsim {
bool isKnownFinding(const std::string& prop, const std::string& sig) {
  std::string key = prop + "|" + sig;
  if (g_known.count(key)) return true;
  for (const std::string& k : g_known) if (!k.empty() && k.back() == '*' && key.compare(0, k.size() - 1, k, 0, k.size() - 1) == 0) return true;   // "PROP|prefix*"
  return false;
}
}

int main(int argc, char** argv) {
  if (argc < 2) { fprintf(stderr, "usage: simharness worker|plan|investigate|replay|info|merge ...\n"); return 2; }
  loadKnown();
  installParamAudit();
  if (const char* e = getenv("DSIM_CPU_LIMIT")) g_cpuLimit = atol(e);
  if (const char* e = getenv("DSIM_TMP")) g_tmpDir = e;
  std::string c = argv[1];
  if (c == "worker") return cmdWorker(argc, argv);
  if (c == "plan") return cmdPlan(argc, argv);
  if (c == "investigate") return cmdInvestigate(argc, argv);
  if (c == "replay") return cmdReplay(argc, argv);
  if (c == "classify") return cmdClassify(argc, argv);
  if (c == "info") return cmdInfo(argc, argv);
  if (c == "merge") return cmdMerge(argc, argv);
  fprintf(stderr, "unknown command %s\n", c.c_str());
  return 2;
}
